// C06 defect 2: a negative (or NaN) number used as an array index silently aliases element 0.
//
// The property demands: "An array holds a zero-based sequence ...; reading a missing element
// yields mysterious".  There is no element -1 in a zero-based sequence, so reading it must yield
// mysterious, and a write through it must never change element 0 (the write may be rejected
// with a runtime error, but it must not clobber an unrelated existing element).

use rrss::{exec::exec_using, frontend::parser::parse};

/// Runs a program; Ok(output) or Err(output so far) for a runtime error.
fn run(code: &str) -> Result<String, String> {
    let mut output = Vec::new();
    let program = parse(code).unwrap_or_else(|e| panic!("parse error in {:?}: {:?}", code, e));
    let r = exec_using("".as_bytes(), &mut output, &program);
    let output = String::from_utf8(output).unwrap();
    r.map(|_| output.clone()).map_err(|_| output)
}

#[test]
fn reading_at_minus_one_yields_mysterious() {
    let out = run("Rock x with \"a\", \"b\", \"c\"\n\
                   Let i be 0 minus 1\n\
                   Say x at i\n");
    assert_eq!(
        out,
        Ok("mysterious\n".to_owned()),
        "x at -1 is a missing element of the zero-based sequence [a, b, c]"
    );
}

#[test]
fn reading_at_nan_yields_mysterious() {
    let out = run("Rock x with \"a\", \"b\", \"c\"\n\
                   Let i be 0 over 0\n\
                   Say x at i\n");
    assert_eq!(
        out,
        Ok("mysterious\n".to_owned()),
        "x at NaN is a missing element of the zero-based sequence [a, b, c]"
    );
}

#[test]
fn writing_at_minus_one_does_not_overwrite_element_zero() {
    // either a runtime error (nothing printed) or element 0 is still "a" and the length still 3
    let out = run("Rock x with \"a\", \"b\", \"c\"\n\
                   Let i be 0 minus 1\n\
                   Let x at i be \"z\"\n\
                   Say x at 0\n\
                   Say x\n");
    match out {
        Err(printed) => assert_eq!(printed, "", "rejected write must not have printed anything"),
        Ok(printed) => assert_eq!(
            printed, "a\n3\n",
            "a write at index -1 must leave element 0 of [a, b, c] alone"
        ),
    }
}

#[test]
fn writing_at_minus_one_into_a_copy_never_shows_in_element_zero_of_either() {
    let out = run("Rock x with \"a\", \"b\"\n\
                   Let y be x\n\
                   Let i be 0 minus 5\n\
                   Let y at i be \"z\"\n\
                   Say x at 0\n\
                   Say y at 0\n");
    match out {
        Err(printed) => assert_eq!(printed, ""),
        Ok(printed) => assert_eq!(printed, "a\na\n"),
    }
}
