// C06 defect 3: `roll` applied to the result of another `roll` (roll used as an expression)
// does not roll that result; it is silently applied to the inner roll's operand instead.
//
// The property demands: "roll removes and yields the first element" (of the array it is applied
// to).  `roll x` yields the first element of x, here the array [a, b]; rolling that must yield
// its first element "a".  Likewise `Rock roll x with ...` must not append to x itself.

use rrss::{exec::exec_using, frontend::parser::parse};

/// Runs a program; Ok(output) or Err(output so far) for a runtime error.
fn run(code: &str) -> Result<String, String> {
    let mut output = Vec::new();
    let program = parse(code).unwrap_or_else(|e| panic!("parse error in {:?}: {:?}", code, e));
    let r = exec_using("".as_bytes(), &mut output, &program);
    let output = String::from_utf8(output).unwrap();
    r.map(|_| output.clone()).map_err(|_| output)
}

#[test]
fn roll_of_roll_yields_first_element_of_first_element() {
    let out = run("Rock inner with \"a\", \"b\"\n\
                   Rock x with inner, \"c\"\n\
                   Let y be roll roll x\n\
                   Say y\n\
                   Say x\n\
                   Say x at 0\n");
    // x = [[a, b], c]: the inner roll removes and yields [a, b]; the outer roll removes and
    // yields the first element of that, "a".  x is left as [c].
    // (Rejecting the statement with a runtime error, because the inner result is a temporary,
    // would also be consistent; yielding the whole array [a, b] - printed as 2 - is not.)
    match out {
        Err(printed) => assert_eq!(printed, ""),
        Ok(printed) => assert_eq!(printed, "a\n1\nc\n"),
    }
}

#[test]
fn roll_statement_on_roll_expression_yields_first_element_of_first_element() {
    let out = run("Rock inner with \"a\", \"b\"\n\
                   Rock x with inner, \"c\"\n\
                   Roll roll x into y\n\
                   Say y\n");
    match out {
        Err(printed) => assert_eq!(printed, ""),
        Ok(printed) => assert_eq!(printed, "a\n"),
    }
}

#[test]
fn rock_onto_roll_expression_does_not_append_to_the_rolled_array() {
    // `roll z` is a temporary: either the statement is rejected ("value not writable", like
    // `Rock 5 with 9`), or z loses its first element.  In no case may z end up as [[a, b], c, 9].
    let out = run("Rock inner with \"a\", \"b\"\n\
                   Rock z with inner, \"c\"\n\
                   Rock roll z with 9\n\
                   Say z\n\
                   Say z at 2\n");
    match out {
        Err(printed) => assert_eq!(printed, ""),
        Ok(printed) => assert_ne!(
            printed, "3\n9\n",
            "9 was appended to z itself and nothing was rolled off z"
        ),
    }
}
