// C06 defect 1: an array does not count as its sequence length when the other operand of a
// comparison / arithmetic operator is a string, a boolean or null.
//
// The property demands: "when printed, compared with a scalar or used in arithmetic an array
// counts as its sequence length".  So for every scalar S and every binary operator OP, the
// program `Say ARR OP S` must behave exactly like `Say LEN OP S` where LEN is the number of
// elements of ARR (same output, or a runtime error in both cases), and likewise with the
// operands swapped.

use rrss::{exec::exec_using, frontend::parser::parse};

/// Runs a program; Ok(output) or Err(()) for a runtime error.
fn run(code: &str) -> Result<String, ()> {
    let mut output = Vec::new();
    let program = parse(code).unwrap_or_else(|e| panic!("parse error in {:?}: {:?}", code, e));
    match exec_using("".as_bytes(), &mut output, &program) {
        Ok(()) => Ok(String::from_utf8(output).unwrap()),
        Err(_) => Err(()),
    }
}

/// `expr` contains the placeholder `@`; it is evaluated once with an array of two elements and
/// once with the number 2 in its place.
fn as_array_and_as_length(expr: &str) -> (Result<String, ()>, Result<String, ()>) {
    let with_array = format!(
        "Rock the list with \"p\", \"q\"\nSay {}\n",
        expr.replace('@', "the list")
    );
    let with_length = format!("Say {}\n", expr.replace('@', "2"));
    (run(&with_array), run(&with_length))
}

#[test]
fn array_equals_numeric_string_like_its_length() {
    // 2 is "2"  ->  true, so  [p, q] is "2"  must be true as well
    assert_eq!(run("Say 2 is \"2\"\n"), Ok("true\n".to_owned()));
    let (arr, len) = as_array_and_as_length("@ is \"2\"");
    assert_eq!(arr, len, "array of 2 elements compared with the string \"2\"");
    let (arr, len) = as_array_and_as_length("\"2\" is @");
    assert_eq!(arr, len, "the string \"2\" compared with an array of 2 elements");
}

#[test]
fn array_equals_boolean_like_its_length() {
    assert_eq!(run("Say 2 is true\n"), Ok("true\n".to_owned()));
    let (arr, len) = as_array_and_as_length("@ is true");
    assert_eq!(arr, len, "array of 2 elements compared with true");
    let (arr, len) = as_array_and_as_length("true is @");
    assert_eq!(arr, len, "true compared with an array of 2 elements");
}

#[test]
fn array_is_ordered_against_numeric_string_like_its_length() {
    assert_eq!(run("Say 2 is greater than \"1\"\n"), Ok("true\n".to_owned()));
    let (arr, len) = as_array_and_as_length("@ is greater than \"1\"");
    assert_eq!(arr, len, "array of 2 elements ordered against the string \"1\"");
    let (arr, len) = as_array_and_as_length("\"1\" is less than @");
    assert_eq!(arr, len, "the string \"1\" ordered against an array of 2 elements");
}

#[test]
fn array_plus_string_concatenates_its_length() {
    assert_eq!(run("Say 2 plus \"a\"\n"), Ok("2a\n".to_owned()));
    let (arr, len) = as_array_and_as_length("@ plus \"a\"");
    assert_eq!(arr, len, "array of 2 elements plus a string");
    let (arr, len) = as_array_and_as_length("\"a\" plus @");
    assert_eq!(arr, len, "a string plus an array of 2 elements");
}

#[test]
fn array_plus_minus_null_like_its_length() {
    assert_eq!(run("Say 2 plus nothing\n"), Ok("2\n".to_owned()));
    for expr in ["@ plus nothing", "nothing plus @", "@ minus nothing", "nothing minus @", "@ times nothing", "nothing over @"] {
        let (arr, len) = as_array_and_as_length(expr);
        assert_eq!(arr, len, "`{}` with an array of 2 elements vs. with 2", expr);
    }
}

#[test]
fn every_operator_and_scalar_array_behaves_like_its_length() {
    let scalars = [
        "1", "2", "3", "0.5", "\"2\"", "\"1\"", "\"a\"", "\"\"", "true", "false", "nothing",
        "mysterious",
    ];
    let ops = [
        "is",
        "isnt",
        "is greater than",
        "is less than",
        "is as big as",
        "is as small as",
        "plus",
        "minus",
        "times",
        "over",
    ];
    let mut mismatches = Vec::new();
    for s in scalars {
        for op in ops {
            for expr in [format!("@ {} {}", op, s), format!("{} {} @", s, op)] {
                let (arr, len) = as_array_and_as_length(&expr);
                if arr != len {
                    mismatches.push(format!("{:<28} array: {:?}   length: {:?}", expr, arr, len));
                }
            }
        }
    }
    assert!(
        mismatches.is_empty(),
        "an array of 2 elements (@) behaves differently from the number 2:\n{}",
        mismatches.join("\n")
    );
}
