// C04 defect 2: an EMPTY if / else / while / until body shifts the block structure of what
// follows.  The blank line that closes a non-empty nested block also closes it for the enclosing
// block's bookkeeping; the blank line that closes an EMPTY nested block is swallowed as "the
// body", so one more blank line is needed.  Result: after an empty inner block, the statement
// that follows the two closing blank lines silently runs INSIDE the enclosing loop (once per
// iteration) instead of after it - and at top level `If X` + blank line + statement is rejected.
//
// Clause violated: "Statements run in order ... control flow follows the program text"
// (shape from the property's own list: empty branches).
//
// Place in /tmp/hunt_C04/tests/ and run:
//   cargo test --offline --test defect_2_test            (fails in debug and in --release)
use rrss::{exec::exec_using, frontend::parser::parse};

fn run(code: &str) -> Result<String, String> {
    let program = parse(code).map_err(|e| format!("parse error: {:?}", e.code))?;
    let mut output = Vec::new();
    exec_using("".as_bytes(), &mut output, &program).map_err(|e| format!("{:?}", e))?;
    Ok(String::from_utf8(output).unwrap())
}

// control: non-empty inner if.  First blank line closes the if, second closes the while,
// `Say "after"` runs once, after the loop.  (passes)
#[test]
fn control_nonempty_inner_block() {
    let code = "X is 2\nWhile X\nKnock X down\nIf X\nSay \"in if\"\n\n\nSay \"after\"\n";
    assert_eq!(run(code), Ok("in if\nafter\n".to_owned()));
}

// the same text with the inner statement removed: which block `Say "after"` belongs to must not
// change.  Observed: "after\nafter\n" (it is executed inside the while, twice).
#[test]
fn empty_then_branch_does_not_capture_following_statement() {
    let code = "X is 2\nWhile X\nKnock X down\nIf X\n\n\nSay \"after\"\n";
    assert_eq!(run(code), Ok("after\n".to_owned()));
}

// Observed: "then\nafter\nafter\n"
#[test]
fn empty_else_branch_does_not_capture_following_statement() {
    let code = "X is 2\nWhile X\nKnock X down\nIf X\nSay \"then\"\nElse\n\n\nSay \"after\"\n";
    assert_eq!(run(code), Ok("then\nafter\n".to_owned()));
}

// Observed: "after\nafter\n"
#[test]
fn empty_loop_body_does_not_capture_following_statement() {
    let code = "X is 2\nWhile X\nKnock X down\nUntil true\n\n\nSay \"after\"\n";
    assert_eq!(run(code), Ok("after\n".to_owned()));
}

// top level: an if with an empty branch, closed by its blank line, followed by a statement.
// Observed: parse error "Expected `newline`, found `Say`" - nothing runs.
#[test]
fn empty_branch_followed_by_statement_runs() {
    assert_eq!(run("X is 1\nIf X\n\nSay 3\n"), Ok("3\n".to_owned()));
    assert_eq!(
        run("X is 1\nIf X\nSay 1\nElse\n\nSay 3\n"),
        Ok("1\n3\n".to_owned())
    );
    assert_eq!(run("X is 0\nWhile X\n\nSay 3\n"), Ok("3\n".to_owned()));
}
