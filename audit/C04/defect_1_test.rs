// C04 defect 1: a reused ExecStmt keeps the Breaking / Continuing / Returning state that a
// top-level break / continue / return left behind, so the NEXT program run through the same
// interpreter silently executes only its first statement (and still returns Ok).
//
// Clause violated: "Statements run in order" (and "break leaves ... only the innermost enclosing
// loop": a break of program 1 cuts short a block / a loop of program 2).
//
// Place in /tmp/hunt_C04/tests/ and run:
//   cargo test --offline --test defect_1_test            (fails in debug and in --release)
use rrss::{
    analysis::visit::VisitProgram,
    exec::{environment::Environment, exec_stmt::ExecStmt},
    frontend::parser::parse,
};

// One interpreter (one Environment, one ExecStmt) fed two programs in turn, the way a REPL or an
// embedding host uses the public API.
fn run_two(first: &str, second: &str) -> (String, bool) {
    let mut out = Vec::new();
    let ok;
    {
        let env = Environment::refcell_raw("".as_bytes(), &mut out);
        let mut exec = ExecStmt::new(&env);
        exec.visit_program(&parse(first).unwrap()).unwrap();
        ok = exec.visit_program(&parse(second).unwrap()).is_ok();
    }
    (String::from_utf8(out).unwrap(), ok)
}

const SECOND: &str = "Say \"one\"\nSay \"two\"\nSay \"three\"\n";

// control: reuse as such works, variables and output carry on
#[test]
fn control_reuse_after_plain_program() {
    assert_eq!(
        run_two("Say \"first\"\n", SECOND),
        ("first\none\ntwo\nthree\n".to_owned(), true)
    );
}

// a top-level break legally ends program 1 ("break outside of any loop ends the program");
// program 2 contains no break at all, so all three of its statements must run, in order
#[test]
fn second_program_runs_fully_after_toplevel_break() {
    assert_eq!(
        run_two("Say \"first\"\nBreak\n", SECOND),
        ("first\none\ntwo\nthree\n".to_owned(), true)
    );
}

#[test]
fn second_program_runs_fully_after_toplevel_continue() {
    assert_eq!(
        run_two("Say \"first\"\nTake it to the top\n", SECOND),
        ("first\none\ntwo\nthree\n".to_owned(), true)
    );
}

#[test]
fn second_program_runs_fully_after_toplevel_return() {
    assert_eq!(
        run_two("Say \"first\"\nGive back 1\n", SECOND),
        ("first\none\ntwo\nthree\n".to_owned(), true)
    );
}

// the stale Breaking state is taken for a `break` executed inside program 2's own loop:
// nothing at all is printed, the result is still Ok
#[test]
fn loop_of_second_program_is_not_broken_by_first_programs_break() {
    assert_eq!(
        run_two(
            "Break\n",
            "X is 0\nWhile X is less than 3\nBuild X up\nSay X\n\nSay \"done\"\n"
        ),
        ("1\n2\n3\ndone\n".to_owned(), true)
    );
}
