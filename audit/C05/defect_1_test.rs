// C05 defect 1: function calls are dynamically scoped - a callee sees and overwrites the
// locals and even the parameters of every caller on the stack, so "locals" of one activation
// are shared with (and clobbered by) other activations, recursion included.
//
// Property clauses: "binds them to fresh parameters", "A variable first assigned inside a
// function ... exists only for that activation", "reading an unknown name is a runtime error".
use rrss::{exec::exec_using, frontend::parser::parse};

fn run(code: &str) -> Result<String, String> {
    let mut output = Vec::new();
    let program = parse(code).map_err(|e| format!("parse error: {:?}", e))?;
    exec_using(&b""[..], &mut output, &program).map_err(|e| format!("{:?}", e))?;
    Ok(String::from_utf8(output).unwrap())
}

/// Each activation of `Sum` first-assigns its own `Keep`; the recursive activation must not
/// overwrite the `Keep` of the activation that called it. 3 + 2 + 1 + 0 = 6.
#[test]
fn recursive_activations_have_their_own_locals() {
    let out = run("\
Sum takes N
If N is 0
Give back 0

Put N into Keep
Put N minus 1 into Prev
Put Sum taking Prev into Rest
Give back Keep plus Rest

Say Sum taking 3
");
    assert_eq!(out.as_deref(), Ok("6\n"), "every activation of Sum must own its local Keep");
}

/// `Helper` first-assigns a variable that happens to be called like the *parameter* of its
/// caller. The caller's parameter is a fresh variable of the caller's activation and `Helper`
/// has no enclosing scope that contains it, so `Outer taking 5` must still give back 5.
#[test]
fn callee_cannot_overwrite_callers_parameter() {
    let out = run("\
Helper takes Q
Put 0 into X
Give back Q

Outer takes X
Put Helper taking 1 into Ignored
Give back X

Say Outer taking 5
");
    assert_eq!(out.as_deref(), Ok("5\n"), "Helper's local X must not be Outer's parameter X");
}

/// `Peek` reads a name that exists neither in `Peek` nor globally, only as a local of the
/// function that happens to call it: reading an unknown name is a runtime error.
#[test]
fn callee_cannot_read_callers_local() {
    let out = run("\
Peek takes Q
Give back Secret

Outer takes X
Put 41 into Secret
Give back Peek taking 1

Say Outer taking 0
");
    assert!(
        out.is_err(),
        "Secret is a local of Outer's activation, unknown inside Peek; got output {:?}",
        out
    );
}
