// C05 defect 2: an `if` whose condition is false and that has no `else` runs no block at all,
// yet it wipes the pronoun referent.
//
// Property clause: "a pronoun denotes the variable most recently named during execution (none
// right after a block or call has ended)". In the programs below no block and no call has
// ended between the naming of `Counter` (in the condition) and the pronoun, so the pronoun
// must denote `Counter`. The two loop statements, whose body is likewise skipped, behave as
// demanded (control tests); only `if` differs, because visit_if pushes and pops a scope
// (pop_scope clears last_access) even when there is nothing to execute.
use rrss::{exec::exec_using, frontend::parser::parse};

fn run(code: &str) -> Result<String, String> {
    let mut output = Vec::new();
    let program = parse(code).map_err(|e| format!("parse error: {:?}", e))?;
    exec_using(&b""[..], &mut output, &program).map_err(|e| format!("{:?}", e))?;
    Ok(String::from_utf8(output).unwrap())
}

#[test]
fn control_pronoun_survives_a_skipped_while() {
    let out = run("Counter is 5\nWhile Counter is 4\nSay \"never\"\n\nSay it\n");
    assert_eq!(out.as_deref(), Ok("5\n"));
}

#[test]
fn control_pronoun_survives_a_skipped_until() {
    let out = run("Counter is 5\nUntil Counter is 5\nSay \"never\"\n\nSay it\n");
    assert_eq!(out.as_deref(), Ok("5\n"));
}

#[test]
fn pronoun_read_survives_a_skipped_if() {
    let out = run("Counter is 5\nIf Counter is 4\nSay \"never\"\n\nSay it\n");
    assert_eq!(
        out.as_deref(),
        Ok("5\n"),
        "no block was entered, the variable most recently named is Counter"
    );
}

#[test]
fn pronoun_write_survives_a_skipped_if() {
    let out = run("Counter is 5\nIf Counter is 4\nSay \"never\"\n\nBuild it up\nSay Counter\n");
    assert_eq!(out.as_deref(), Ok("6\n"));
}

#[test]
fn pronoun_survives_a_skipped_if_inside_a_function() {
    let out = run("\
Check takes Value
If Value is 4
Say \"never\"

Give back it

Say Check taking 5
");
    assert_eq!(out.as_deref(), Ok("5\n"));
}
