// C05 defect 3: a scope that is pushed is not popped when the body is left through an error,
// so after a failed call (or a failed if / loop body) the locals and parameters of the dead
// activation stay visible in an Environment that is used again (REPL-style use of the public
// API: Environment::refcell_raw + ExecStmt::new(&env).visit_program(..) more than once).
//
// Property clauses: "A variable first assigned inside a function, branch or loop body exists
// only for that activation", "a pronoun denotes ... (none right after a block or call has
// ended)", "reading an unknown name is a runtime error".
use rrss::{
    analysis::visit::VisitProgram,
    exec::{environment::Environment, exec_stmt::ExecStmt},
    frontend::parser::parse,
};

/// Runs the programs one after the other in ONE environment; returns for each program
/// whether it succeeded, and everything that was printed.
fn session(programs: &[&str]) -> (Vec<bool>, String) {
    let mut output = Vec::new();
    let results = {
        let env = Environment::refcell_raw(&b""[..], &mut output);
        programs
            .iter()
            .map(|code| {
                let program = parse(code).unwrap();
                ExecStmt::new(&env).visit_program(&program).is_ok()
            })
            .collect::<Vec<_>>()
    };
    (results, String::from_utf8(output).unwrap())
}

const FAILING_CALL: &str = "\
Fail takes Param
Put 41 into Secret
Put Secret at 0 into Oops
Give back Oops

Put Fail taking 7 into Result
";

#[test]
fn control_successful_call_leaves_nothing_behind() {
    // same session shape, but the call succeeds: the local is gone afterwards (this passes)
    let (results, out) = session(&[
        "Fine takes Param\nPut 41 into Secret\nGive back Secret\n\nPut Fine taking 7 into Result\n",
        "Say Secret\n",
    ]);
    assert_eq!((results, out.as_str()), (vec![true, false], ""));
}

#[test]
fn local_of_a_failed_call_is_gone_afterwards() {
    // indexing the number 41 is a runtime error inside Fail's body
    let (results, out) = session(&[FAILING_CALL, "Say Secret\n"]);
    assert_eq!(
        (results, out.as_str()),
        (vec![false, false], ""),
        "Secret was first assigned inside Fail; once that activation is over (here: by a \
         runtime error) reading Secret at top level must be an unknown-name error"
    );
}

#[test]
fn parameter_of_a_failed_call_is_gone_afterwards() {
    let (results, out) = session(&[FAILING_CALL, "Say Param\n"]);
    assert_eq!(
        (results, out.as_str()),
        (vec![false, false], ""),
        "Param is a parameter of the dead activation of Fail"
    );
}

#[test]
fn branch_local_of_a_failed_branch_is_gone_afterwards() {
    let (results, out) = session(&[
        "If true\nPut 1 into Inner\nPut Inner at 0 into Oops\n\n",
        "Say Inner\n",
    ]);
    assert_eq!((results, out.as_str()), (vec![false, false], ""));
}
