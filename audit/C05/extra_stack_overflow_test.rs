// C05 extra observation (not one of the three numbered defects): a terminating recursive program kills the interpreter process.
//
// Property clause: "yields the value of the first return reached ..., from any nesting depth,
// including recursion" (QUANTIFIER: all terminating programs with ... recursive calls).
//
// Every Rockstar call is executed by native recursion (visit_function_call -> visit_block ->
// visit_statement -> visit_return -> visit_expression -> visit_function_call ...), about 3 KiB
// of native stack per Rockstar call in the debug profile, with no depth accounting. A plain
// count-down recursion of depth 10000 therefore does not yield its value and does not produce
// a RuntimeError either: the process dies with SIGABRT ("fatal runtime error: stack overflow").
// Observed limits with the default 8 MiB main-thread stack: debug between 2500 and 3000 calls,
// release between 4000 and 8000 calls; on a 2 MiB thread (e.g. exec_using called from a
// spawned thread or from a #[test]) a quarter of that.
//
// The test drives the command-line binary so that the crash does not take the test harness down.
use std::{io::Write, process::Command};

#[test]
fn recursion_of_depth_10000_yields_its_value() {
    let code = "\
Dive takes N
If N is 0
Give back 0

Put N minus 1 into M
Give back Dive taking M

Say Dive taking 10000
";
    let mut path = std::env::temp_dir();
    path.push(format!("hunt_c05_deep_{}.rock", std::process::id()));
    std::fs::File::create(&path)
        .unwrap()
        .write_all(code.as_bytes())
        .unwrap();
    let out = Command::new(env!("CARGO_BIN_EXE_rrss"))
        .arg("exec")
        .arg(&path)
        .output()
        .unwrap();
    let _ = std::fs::remove_file(&path);
    let stdout = String::from_utf8_lossy(&out.stdout).into_owned();
    let stderr = String::from_utf8_lossy(&out.stderr).into_owned();
    assert!(
        out.status.success() && stdout == "0\n",
        "Dive taking 10000 terminates and must yield 0 (or at the very least a clean runtime \
         error); got status {:?}, stdout {:?}, stderr {:?}",
        out.status,
        stdout,
        stderr
    );
}
