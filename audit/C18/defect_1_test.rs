// C18 defect 1: the `says` suggestion for a string constant that contains an unclosed "("
// is not equivalent: put in place of the original statement it swallows the rest of the program.
use rrss::{exec::exec_using, frontend::parser::parse, linter::standard_linter};

fn run(src: &str) -> String {
    let program = parse(src).expect("program parses");
    let mut out = Vec::new();
    exec_using("".as_bytes(), &mut out, &program).expect("program runs");
    String::from_utf8(out).unwrap()
}

fn payload(suggestion: &str) -> &str {
    let open = suggestion.find('`').unwrap();
    let close = suggestion.rfind('`').unwrap();
    &suggestion[open + 1..close]
}

fn check(statement: &str) {
    let original = format!("{}\nSay X\nSay \"end\"\n", statement);
    let diags = standard_linter().run(&parse(&original).unwrap()).diags;
    let diag = diags
        .iter()
        .find(|d| d.issue.starts_with("Assignment of literal value"))
        .expect("the constant assignment is reported");
    assert_eq!(diag.line, 1);
    assert_eq!(
        diag.issue,
        "Assignment of literal value `\"a (b\"` into `X` isn't very rock'n'roll"
    );
    // C18: either no suggestion is made (the value has no safe poetic spelling), or the suggested
    // line is a statement that gives X that value - so using it instead of the original statement
    // must not change what the program does.
    for suggestion in &diag.suggestions {
        let rewritten = original.replacen(statement, payload(suggestion), 1);
        assert_eq!(
            run(&rewritten),
            run(&original),
            "suggestion {:?} for {:?} is not equivalent",
            suggestion,
            statement
        );
    }
}

#[test]
fn says_suggestion_for_a_string_with_an_unclosed_parenthesis_is_equivalent() {
    check("Put \"a (b\" into X");
    check("Let X be \"a (b\"");
    check("X is \"a (b\"");
}
