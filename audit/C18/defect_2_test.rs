// C18 defect 2 (root cause in the parser's poetic string, seen through the lint's rewrite):
// in a source with CRLF line endings the `says` suggestion gives the variable the value plus "\r".
use rrss::{exec::exec_using, frontend::parser::parse, linter::standard_linter};

fn run(src: &str) -> String {
    let program = parse(src).expect("program parses");
    let mut out = Vec::new();
    exec_using("".as_bytes(), &mut out, &program).expect("program runs");
    String::from_utf8(out).unwrap()
}

fn payload(suggestion: &str) -> &str {
    let open = suggestion.find('`').unwrap();
    let close = suggestion.rfind('`').unwrap();
    &suggestion[open + 1..close]
}

#[test]
fn says_suggestion_is_equivalent_in_a_crlf_source() {
    let statement = "Put \"hello\" into X";
    let original = format!("{}\r\nSay X plus \"!\"\r\n", statement);
    let diags = standard_linter().run(&parse(&original).unwrap()).diags;
    let diag = diags
        .iter()
        .find(|d| d.issue.starts_with("Assignment of literal value"))
        .expect("the constant assignment is reported");
    assert_eq!(diag.line, 1);
    assert_eq!(run(&original), "hello!\n");
    // C18: the suggested line gives X the reported value "hello", whatever the file's line endings
    for suggestion in &diag.suggestions {
        let rewritten = original.replacen(statement, payload(suggestion), 1);
        assert_eq!(
            run(&rewritten),
            run(&original),
            "suggestion {:?} is not equivalent in a CRLF source",
            suggestion
        );
    }
}
