// C13 defect 1: lexer Error tokens (invalid identifiers / invalid tokens) and number
// literals are silently accepted as the noun of a common variable ("the x1", "my _", "my 5").
use rrss::frontend::parser::parse;

fn must_reject_on_line(src: &str, line: u32) {
    match parse(src) {
        Ok(p) => panic!(
            "C13: {:?} contains an invalid identifier on line {} and must be rejected with a parse error, but it was accepted as {:?}",
            src, line, p
        ),
        Err(e) => {
            let msg = e.to_string();
            assert!(
                msg.starts_with(&format!("Parse error (line {})", line)),
                "C13: {:?} must be rejected on line {}, got {:?}",
                src, line, msg
            );
        }
    }
}

#[test]
fn the_same_identifiers_without_a_prefix_are_rejected() {
    // sanity / control: the lexer flags these spellings as Error tokens and the parser rejects them
    must_reject_on_line("x1 is 5\n", 1);
    must_reject_on_line("Say 1\n_ is 5\n", 2);
    must_reject_on_line("Put 7 into 5\n", 1);
}

#[test]
fn invalid_identifier_after_common_prefix_at_statement_start_is_rejected() {
    // "Identifier may not contain non-alphabetic characters"
    must_reject_on_line("the x1 is 5\n", 1);
    must_reject_on_line("Say 1\n\nmy ab_c is 5\nSay 2\n", 3);
    // "'_' is not a valid character because it can't be sung"
    must_reject_on_line("Say 1\nmy _ is 3\n", 2);
    // "Invalid token"
    must_reject_on_line("your 1x is 3\n", 1);
    must_reject_on_line("If X\nSay 1\nElse\nthe \u{1F3B8} is 3\n", 4);
}

#[test]
fn invalid_identifier_after_common_prefix_in_operand_position_is_rejected() {
    must_reject_on_line("Put 1 into the x1\n", 1);
    must_reject_on_line("Say 1\nSay my _\n", 2);
    must_reject_on_line("F takes the x1\nSay 1\n", 1);
    must_reject_on_line("Listen to the a1\n", 1);
}

#[test]
fn number_literal_is_not_the_noun_of_a_common_variable() {
    // `my` with its noun missing, followed by a number: a statement with a missing operand
    must_reject_on_line("Put 7 into my 5\n", 1);
    must_reject_on_line("Say 1\nSay the 5\n", 2);
}
