// C13 defect 2: a poetic string assignment (`X says ...`) is delimited by the next Newline
// *token*, so an unterminated-string / unterminated-comment Error token (or a closed multi-line
// string or comment) after `says` swallows every following line. Faulty statements on those
// lines are silently accepted and the program is silently truncated after line 1.
use rrss::frontend::parser::parse;

fn must_reject(src: &str, allowed_lines: &[u32]) {
    match parse(src) {
        Ok(p) => panic!(
            "C13: {:?} contains a statement the grammar cannot accept and must be rejected, but was accepted as {:?}",
            src, p
        ),
        Err(e) => {
            let msg = e.to_string();
            assert!(
                allowed_lines
                    .iter()
                    .any(|l| msg.starts_with(&format!("Parse error (line {})", l))),
                "C13: {:?} must be rejected on one of lines {:?}, got {:?}",
                src, allowed_lines, msg
            );
        }
    }
}

#[test]
fn control_same_faults_without_the_says_line_are_rejected() {
    must_reject("Say 1\nPut into\n", &[2]);
    must_reject("Say \"oops\nSay 1\nPut into\n", &[1]);
    must_reject("Say 2 (oops\nSay 1\nPut into\n", &[1]);
}

#[test]
fn unterminated_string_after_says_does_not_hide_later_faults() {
    // line 3 is a `Put` with both operands missing. Either the unterminated string on line 1 is
    // reported (line 1), or the poetic string ends at the end of line 1 (Rockstar semantics) and the
    // fault on line 3 is reported.
    must_reject("X says \"oops\nSay 1\nPut into\n", &[1, 3]);
}

#[test]
fn unterminated_comment_after_says_does_not_hide_later_faults() {
    must_reject("X says hi (oops\nSay 1\nPut into\n", &[1, 3]);
}

#[test]
fn closed_multi_line_string_after_says_does_not_hide_later_faults() {
    // line 2 (`Put into`) and line 3 (`" b`, a string where a statement must start) are both faulty
    must_reject("X says \"a\nPut into\n\" b\nSay 2\n", &[1, 2, 3]);
}

#[test]
fn nothing_after_the_says_line_is_dropped() {
    // truncation: the two Say statements after line 1 must be part of the parsed program
    // (or the program must be rejected because of the unterminated string on line 1)
    if let Ok(p) = parse("X says \"oops\nSay 1\nSay 2\n") {
        let dump = format!("{:?}", p);
        assert!(
            dump.matches("Output").count() >= 2,
            "C13: statements on lines 2 and 3 were silently swallowed: {}",
            dump
        );
    }
}
