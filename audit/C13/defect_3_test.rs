// C13 defect 3: two errors are raised *after* the offending token has been consumed and are
// located at the *following* token; when a (legal) multi-line string or comment sits in between,
// the reported line is not the line of the offending / missing token.
use rrss::frontend::parser::parse;

fn rejected_on_line(src: &str, line: u32) {
    let msg = parse(src).expect_err("must be rejected").to_string();
    assert!(
        msg.starts_with(&format!("Parse error (line {})", line)),
        "C13: {:?} must be reported on line {}, got {:?}",
        src, line, msg
    );
}

#[test]
fn control_single_line_variants_are_attributed_correctly() {
    rejected_on_line("Say 1\nX says\"a\"\nSay 2\n", 2);
    rejected_on_line("Say 1\nCut \"abc\"\nSay 2\n", 2);
}

#[test]
fn missing_space_after_says_is_reported_on_the_line_of_says() {
    // `says` and the missing space are on line 2
    rejected_on_line("Say 1\nX says\"a\nb\"\nSay 2\n", 2);
    rejected_on_line("Say 1\nX says(c\nd) hi\nSay 2\n", 2);
    rejected_on_line("Say 1\nX says(c\n\n\nd) hi", 2);
}

#[test]
fn literal_mutation_operand_is_reported_on_its_own_line() {
    // the offending literal "abc" lies entirely on line 2; a comment that happens to span
    // lines 2-3 follows it
    rejected_on_line("Say 1\nCut \"abc\" (c\nd)\nSay 2\n", 2);
}
