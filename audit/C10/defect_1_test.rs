// C10 defect 1: an ExecStmt value reused for a second visit_program keeps the control-flow state
// (Breaking / Continuing / Returning) and the return value that a top-level break / continue /
// return of the previous program left behind, so the same program on the same input gives a
// different output the second time (and, in debug builds only, can trip a debug_assert).
use rrss::analysis::visit::VisitProgram;
use rrss::exec::{environment::Environment, exec_stmt::ExecStmt};
use rrss::frontend::parser::parse;
use std::cell::RefCell;
use std::io::Write;
use std::rc::Rc;

#[derive(Clone, Default)]
struct Shared(Rc<RefCell<Vec<u8>>>);
impl Write for Shared {
    fn write(&mut self, b: &[u8]) -> std::io::Result<usize> {
        self.0.borrow_mut().extend_from_slice(b);
        Ok(b.len())
    }
    fn flush(&mut self) -> std::io::Result<()> {
        Ok(())
    }
}

/// runs `src` twice with ONE ExecStmt (and one Environment); returns what each run printed
fn run_twice(src: &str) -> (String, String) {
    let program = parse(src).unwrap();
    let out = Shared::default();
    let env = Environment::refcell_raw(&b""[..], out.clone());
    let mut exec = ExecStmt::new(&env);
    let r1 = exec.visit_program(&program);
    let first = String::from_utf8(std::mem::take(&mut *out.0.borrow_mut())).unwrap();
    let r2 = exec.visit_program(&program);
    let second = String::from_utf8(std::mem::take(&mut *out.0.borrow_mut())).unwrap();
    (format!("{:?} {}", r1, first), format!("{:?} {}", r2, second))
}

// the programs print constants only: nothing they do depends on variables left in the environment

#[test]
fn control_program_without_break_repeats_identically() {
    let (a, b) = run_twice("Say \"a\"\nSay \"b\"\n");
    assert_eq!(a, b);
}

#[test]
fn same_program_same_output_after_top_level_break() {
    let (a, b) = run_twice("Say \"a\"\nSay \"b\"\nBreak it down\n");
    assert_eq!(a, b, "second run of the same program must print the same");
}

#[test]
fn same_program_same_output_after_top_level_continue() {
    let (a, b) = run_twice("Say \"a\"\nSay \"b\"\nTake it to the top\n");
    assert_eq!(a, b, "second run of the same program must print the same");
}

#[test]
fn same_program_same_output_after_top_level_return() {
    let (a, b) = run_twice("Say \"a\"\nSay \"b\"\nGive back 1\n");
    assert_eq!(a, b, "second run of the same program must print the same");
}

#[test]
fn other_program_after_top_level_break_runs_completely() {
    let out = Shared::default();
    let env = Environment::refcell_raw(&b""[..], out.clone());
    let mut exec = ExecStmt::new(&env);
    exec.visit_program(&parse("Break it down\n").unwrap()).unwrap();
    exec.visit_program(&parse("Say \"a\"\nSay \"b\"\n").unwrap()).unwrap();
    assert_eq!(String::from_utf8(out.0.borrow().clone()).unwrap(), "a\nb\n");
}

// debug build: panics on `debug_assert!(self.return_val.is_none())`; release build: no panic
#[test]
fn second_run_of_a_returning_program_does_not_panic() {
    let (a, b) = run_twice("Give back 1\n");
    assert_eq!(a, b);
}
