use std::rc::Rc;
#[derive(Clone, Debug, PartialEq)]
pub enum Val { Undefined, Null, Boolean(bool), Number(f64), String(Rc<String>) }
#[derive(Debug, PartialEq)]
pub enum ValError { Bad(&'static str, Val) }
impl Val {
    #[inline(never)]
    pub fn round_up(&mut self) -> Result<(), ValError> {
        match self { Val::Number(f) => { *f = f.ceil(); Ok(()) } _ => Err(ValError::Bad("up", self.clone())) }
    }
    #[inline(never)]
    pub fn round_down(&mut self) -> Result<(), ValError> {
        match self { Val::Number(f) => { *f = f.floor(); Ok(()) } _ => Err(ValError::Bad("down", self.clone())) }
    }
}
fn main() {
    let round_down = |mut val: Val| { val.round_down()?; Ok::<Val, ValError>(val) };
    assert_eq!(round_down(Val::Number(1.5)), Ok(Val::Number(1.0)));
    let round_up = |mut val: Val| { val.round_up()?; Ok::<Val, ValError>(val) };
    assert_eq!(round_up(Val::Number(1.5)), Ok(Val::Number(2.0)));
    println!("ok");
}
