use rrss::{exec::exec_using, frontend::parser::parse};
use std::collections::BTreeSet;

const SRC: &str = "\
Let D at \"alpha\" be 1
Let D at \"beta\" be 2
Let D at \"gamma\" be 3
Let D at \"delta\" be 4
Let D at \"epsilon\" be 5
Let D at \"zeta\" be 6
Let D at \"eta\" be 7
Let D at \"theta\" be 8
Cast D
";

#[test]
fn debug_of_runtime_error_is_stable() {
    let program = parse(SRC).unwrap();
    let mut displays = BTreeSet::new();
    let mut debugs = BTreeSet::new();
    for _ in 0..20 {
        let mut out = Vec::new();
        let err = exec_using(&b""[..], &mut out, &program).unwrap_err();
        displays.insert(format!("{}", err));
        debugs.insert(format!("{:?}", err));
    }
    assert_eq!(displays.len(), 1, "Display differs: {:#?}", displays);
    assert_eq!(debugs.len(), 1, "Debug differs: {:#?}", debugs);
}
