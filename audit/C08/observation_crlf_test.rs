// C08 observation (interpretation-dependent, see report.md): `listen` strips only "\n", so for
// CRLF-terminated input the stored string keeps a trailing '\r'.
use rrss::exec::exec_using;
use rrss::frontend::parser::parse;

#[test]
fn listen_strips_crlf_terminator() {
    let program = parse("listen to X\nif X is \"abc\"\nsay \"match\"\nelse\nsay \"no match\"\n").unwrap();
    let mut out = Vec::new();
    exec_using(&b"abc\r\n"[..], &mut out, &program).unwrap();
    assert_eq!(String::from_utf8(out).unwrap(), "match\n");
}
