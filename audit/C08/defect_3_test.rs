// C08 defect 3: a `listen` consumes far more than one line from the caller's input stream.
// Environment::raw wraps whatever reader it is given in a private BufReader; the first `listen`
// pulls up to 8 KiB from the caller's reader into that private buffer, and the buffer is thrown
// away with the Environment.  Everything after the first line is lost to the caller - e.g. to the
// next program run on the same stream (`exec_using(&mut reader, ..)` twice, or `exec()` twice on
// the process's stdin).  The property demands: "each listen consumes exactly one input line".
//
// Place in /tmp/hunt_C08/tests/ and run:
//   CARGO_TARGET_DIR=/tmp/hunt_C08/target cargo test --offline --test defect_3_test

use std::io::{BufRead, Cursor};

use rrss::exec::exec_using;
use rrss::frontend::parser::parse;

#[test]
fn one_listen_consumes_exactly_one_line_of_the_stream() {
    let program = parse("listen to X\nsay X\n").unwrap();
    let mut input = Cursor::new(&b"first\nsecond\nthird\n"[..]);
    let mut out = Vec::new();
    exec_using(&mut input, &mut out, &program).unwrap();
    assert_eq!(out, b"first\n");

    // exactly one line was consumed, so the stream now stands at "second"
    let mut rest = String::new();
    input.read_line(&mut rest).unwrap();
    assert_eq!(
        rest, "second\n",
        "C08: one `listen` ran, so exactly one line may have been consumed from the input stream \
         (stream position is {} of 19)",
        input.position()
    );
}

#[test]
fn two_programs_on_one_stream_read_consecutive_lines() {
    let program = parse("listen to X\nsay X\n").unwrap();
    let mut input = Cursor::new(&b"first\nsecond\nthird\n"[..]);
    let mut out = Vec::new();
    exec_using(&mut input, &mut out, &program).unwrap();
    exec_using(&mut input, &mut out, &program).unwrap();
    assert_eq!(
        String::from_utf8(out).unwrap(),
        "first\nsecond\n",
        "C08: the second program's listen must get the second line, not end-of-input"
    );
}
