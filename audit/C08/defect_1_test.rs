// C08 defect 1: the command-line binary PANICS (exit status 101, "failed printing to stderr")
// when the stream that fails is also the one the error report goes to, e.g.
//     rrss exec prog.rock 2>&1 | head -1        (stdout and stderr are the same, closed, pipe)
//     rrss exec prog.rock >/dev/full 2>&1
// The property demands: an I/O fault stops execution with a runtime error "and nothing panics".
//
// Place in /tmp/hunt_C08/tests/ and run:
//   CARGO_TARGET_DIR=/tmp/hunt_C08/target cargo test --offline --test defect_1_test
// (Linux only: uses /dev/full and a directory as stdin.)

use std::fs::{self, OpenOptions};
use std::process::{Command, Stdio};

fn bin() -> &'static str {
    env!("CARGO_BIN_EXE_rrss")
}

fn write_prog(name: &str, text: &str) -> std::path::PathBuf {
    let dir = std::env::temp_dir().join("hunt_c08_defect1");
    fs::create_dir_all(&dir).unwrap();
    let p = dir.join(name);
    fs::write(&p, text).unwrap();
    p
}

/// A rust process that panics exits with status 101.
const PANIC_STATUS: i32 = 101;

#[test]
fn output_fault_on_stream_shared_with_stderr_must_not_panic() {
    let prog = write_prog("say.rock", "say \"x\"\n");
    let full = OpenOptions::new().write(true).open("/dev/full").unwrap();
    let status = Command::new(bin())
        .arg("exec")
        .arg(&prog)
        .stdin(Stdio::null())
        .stdout(full.try_clone().unwrap()) // every write fails with ENOSPC
        .stderr(full) // 2>&1
        .status()
        .unwrap();
    assert_ne!(
        status.code(),
        Some(PANIC_STATUS),
        "C08: a failing output stream must end execution with a runtime error, not a panic \
         (rrss exec say.rock >/dev/full 2>&1 exited with the panic status)"
    );
}

#[test]
fn input_fault_with_unwritable_stderr_must_not_panic() {
    let prog = write_prog("listen.rock", "listen to X\nsay \"unreached\"\n");
    let dir_as_stdin = fs::File::open(std::env::temp_dir()).unwrap(); // read(2) fails with EISDIR
    let full = OpenOptions::new().write(true).open("/dev/full").unwrap();
    let out = Command::new(bin())
        .arg("exec")
        .arg(&prog)
        .stdin(dir_as_stdin)
        .stdout(Stdio::piped())
        .stderr(full)
        .output()
        .unwrap();
    assert_eq!(out.stdout, b"", "nothing may be written after the input fault");
    assert_ne!(
        out.status.code(),
        Some(PANIC_STATUS),
        "C08: a failing input stream must end execution with a runtime error, not a panic"
    );
}
