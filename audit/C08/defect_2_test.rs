// C08 defect 2: the interpreter never flushes the writer it is given.
//   (a) `exec_using` takes the writer BY VALUE and drops it without flushing, so with a buffering
//       writer (std::io::BufWriter - the usual thing to wrap a file or stdout lock in) a failing
//       sink is never noticed: every `say` "succeeds", the sink's error is swallowed by
//       BufWriter's Drop inside exec_using, and exec_using returns Ok(()) although not one byte
//       of output was delivered.  The property demands: "If the output ... stream fails at any
//       point, execution stops there with a runtime error".
//   (b) for the same reason a `say` is not delivered "before the next statement runs": a prompt
//       said before a `listen` reaches the sink only after the input has been read.
//
// Place in /tmp/hunt_C08/tests/ and run:
//   CARGO_TARGET_DIR=/tmp/hunt_C08/target cargo test --offline --test defect_2_test

use std::cell::RefCell;
use std::io::{self, BufWriter, Read, Write};
use std::rc::Rc;

use rrss::exec::exec_using;
use rrss::frontend::parser::parse;

/// A sink on which every write fails (a full disk, a closed socket ...).
struct BrokenSink {
    attempts: Rc<RefCell<usize>>,
}
impl Write for BrokenSink {
    fn write(&mut self, _: &[u8]) -> io::Result<usize> {
        *self.attempts.borrow_mut() += 1;
        Err(io::Error::new(io::ErrorKind::Other, "No space left on device"))
    }
    fn flush(&mut self) -> io::Result<()> {
        Ok(())
    }
}

#[test]
fn fault_of_a_buffered_output_stream_is_a_runtime_error() {
    let program = parse("say \"hello\"\nsay \"world\"\n").unwrap();
    let attempts = Rc::new(RefCell::new(0));
    let out = BufWriter::new(BrokenSink {
        attempts: attempts.clone(),
    });
    let result = exec_using(&b""[..], out, &program);
    // the sink was written to (and failed) while exec_using was running ...
    assert!(*attempts.borrow() > 0);
    // ... so the property demands a runtime error; the unchanged tree returns Ok(())
    assert!(
        result.is_err(),
        "C08: the output stream failed (0 bytes delivered) but execution reported success: {:?}",
        result
    );
}

#[derive(Debug, PartialEq, Clone)]
enum Event {
    Delivered(String),
    InputRequested,
}
struct LogSink(Rc<RefCell<Vec<Event>>>);
impl Write for LogSink {
    fn write(&mut self, b: &[u8]) -> io::Result<usize> {
        self.0
            .borrow_mut()
            .push(Event::Delivered(String::from_utf8_lossy(b).into_owned()));
        Ok(b.len())
    }
    fn flush(&mut self) -> io::Result<()> {
        Ok(())
    }
}
struct LogSource(Rc<RefCell<Vec<Event>>>, &'static [u8]);
impl Read for LogSource {
    fn read(&mut self, b: &mut [u8]) -> io::Result<usize> {
        self.0.borrow_mut().push(Event::InputRequested);
        self.1.read(b)
    }
}

#[test]
fn say_is_delivered_before_the_next_statement_runs() {
    let program = parse("say \"name?\"\nlisten to X\nsay X\n").unwrap();
    let log = Rc::new(RefCell::new(Vec::new()));
    exec_using(
        LogSource(log.clone(), b"bob\n"),
        BufWriter::new(LogSink(log.clone())),
        &program,
    )
    .unwrap();
    let log = log.borrow();
    let first_delivery = log.iter().position(|e| matches!(e, Event::Delivered(_)));
    let first_read = log.iter().position(|e| *e == Event::InputRequested);
    assert!(
        first_delivery.is_some() && first_delivery < first_read,
        "C08: `say \"name?\"` must be written before `listen` runs; observed order: {:?}",
        *log
    );
}
