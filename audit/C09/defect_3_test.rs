// C09 defect 3: an ExecStmt value that has run a program ending in a top-level
// break / continue / return keeps its control-flow state and return value.  Running the next
// parser-accepted program with the same ExecStmt (ExecStmt::new, visit_program(&mut self) and
// Environment are all public; this is what a REPL or a test driver would do) then
//   * trips `debug_assert!(self.control_flow_state.is_normal())` (visit_break / visit_continue)
//     or `debug_assert!(self.return_val.is_none())` (visit_return) in debug builds, and
//   * silently stops after the first statement in release builds.
//
// The property demands: "never panics, aborts, trips a debug assertion ...".

use rrss::{
    analysis::visit::VisitProgram,
    exec::{environment::Environment, exec_stmt::ExecStmt},
    frontend::parser::parse,
};

fn run_twice(first: &str, second: &str) -> String {
    let mut out = Vec::new();
    {
        let env = Environment::refcell_raw(&b""[..], &mut out);
        let mut exec = ExecStmt::new(&env);
        exec.visit_program(&parse(first).unwrap())
            .expect("first program runs");
        // must return Ok or a RuntimeError, never panic
        exec.visit_program(&parse(second).unwrap())
            .expect("second program runs");
    }
    String::from_utf8(out).unwrap()
}

#[test]
fn break_then_break() {
    // debug: assertion failed: self.control_flow_state.is_normal()  (exec_stmt.rs, visit_break)
    run_twice("Break\n", "Break\n");
}

#[test]
fn continue_then_continue() {
    run_twice("Take it to the top\n", "Continue\n");
}

#[test]
fn return_then_return() {
    // debug: assertion failed: self.return_val.is_none()  (exec_stmt.rs, visit_return)
    run_twice("Give back 1\n", "Give back 2\n");
}

#[test]
fn program_after_a_break_runs_completely() {
    // no assertion involved, fails in release builds too: only "1" is printed
    assert_eq!(run_twice("Break\n", "Shout 1\nShout 2\n"), "1\n2\n");
}
