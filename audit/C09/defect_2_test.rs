// C09 defect 2: the repeat count of `string times number` is taken from a user-controlled
// f64 with `as usize` and never bounded (src/exec/val.rs, Val::multiply).
//
//   Shout "" times 1000000000000000000
//
// has the obvious result "" (the reference implementation prints an empty line at once),
// but rrss loops 10^18 times over an empty iterator: execution never ends.  With a
// non-empty string the same expression allocates until the process is aborted
// ("memory allocation of N bytes failed", SIGABRT) - see defect_2b.rock; that variant is not
// run here because it would exhaust the machine's memory first.
//
// The property demands that execution "ends by returning success or a runtime error".

use rrss::{exec::exec_using, frontend::parser::parse};
use std::{sync::mpsc, thread, time::Duration};

#[test]
fn repeating_the_empty_string_terminates() {
    let (tx, rx) = mpsc::channel();
    thread::spawn(move || {
        let program = parse("Shout \"\" times 1000000000000000000\nShout \"done\"\n").unwrap();
        let mut out = Vec::new();
        let result = exec_using(&b""[..], &mut out, &program).map_err(|e| e.to_string());
        let _ = tx.send((result, String::from_utf8(out).unwrap()));
    });
    match rx.recv_timeout(Duration::from_secs(10)) {
        Ok((result, out)) => {
            // either outcome is allowed by the property: success, or a runtime error
            if result.is_ok() {
                assert_eq!(out, "\ndone\n");
            }
        }
        Err(_) => panic!(
            "`Shout \"\" times 1000000000000000000` did not end within 10 s: \
             execution must end by returning success or a runtime error"
        ),
    }
}
