// C09 defect 1: ordinary, finite, terminating programs abort the interpreter with a native
// stack overflow (SIGABRT), because the tree-walker recurses on the Rust stack without any
// depth limit: one Rust recursion per Rockstar call, per operand of a flat `a plus b plus ...`
// chain, and per nesting level of an array value (Drop).
//
// The property demands: execution "ends by returning success or a runtime error with a
// renderable message. It never panics, aborts ...", in debug and release builds.
//
// The programs are run through the real command-line binary (main thread, default 8 MiB
// stack) so that the abort does not take the test harness down with it.

use std::process::{Command, Output};

fn run_cli(name: &str, program: &str) -> Output {
    let path = std::env::temp_dir().join(format!("c09_defect1_{}_{}.rock", name, std::process::id()));
    std::fs::write(&path, program).unwrap();
    let out = Command::new(env!("CARGO_BIN_EXE_rrss"))
        .arg("exec")
        .arg(&path)
        .env("RUST_BACKTRACE", "0")
        .output()
        .unwrap();
    let _ = std::fs::remove_file(&path);
    out
}

fn assert_ended_normally(what: &str, out: &Output) {
    let stderr = String::from_utf8_lossy(&out.stderr);
    assert!(
        out.status.code().is_some() && !stderr.contains("overflowed its stack"),
        "{}: the interpreter must end with success or a runtime error, but the process died: \
         status = {:?}, stderr = {:?}",
        what,
        out.status,
        stderr.trim()
    );
}

/// A recursive count-down, 10 000 calls deep (about 50 000 interpreter steps in total).
/// Debug builds already die at a depth of about 2 500, release builds at about 8 000.
#[test]
fn finite_recursion_does_not_abort() {
    let program = "\
Decrement takes X
If X is 0
Give back 0

Let Y be X minus 1
Give back Decrement taking Y

Shout Decrement taking 10000
";
    let out = run_cli("recursion", program);
    assert_ended_normally("recursion depth 10000", &out);
    assert_eq!(String::from_utf8_lossy(&out.stdout), "0\n");
}

/// One statement, no nesting in the source at all: `Shout 1 plus 1 plus 1 ...` with 50 000
/// operands.  The parser builds the left-deep tree iteratively (so it accepts the program);
/// evaluation and the AST's Drop recurse once per operand.
#[test]
fn long_flat_sum_does_not_abort() {
    let program = format!("Shout 1{}\n", " plus 1".repeat(50_000));
    let out = run_cli("flatsum", &program);
    assert_ended_normally("flat sum of 50001 operands", &out);
    assert_eq!(String::from_utf8_lossy(&out.stdout), "50001\n");
}

/// A 100 000-iteration loop that wraps a value in one more array each time.  The program
/// prints its result and only then dies, when the nested value is dropped recursively.
#[test]
fn deeply_nested_array_value_does_not_abort() {
    let program = "\
Let X be 0
Let N be 0
While N is less than 100000
Let Y be mysterious
Let Y at 0 be X
Let X be Y
Build N up

Shout N
";
    let out = run_cli("nested", program);
    assert_ended_normally("array nested 100000 deep", &out);
    assert_eq!(String::from_utf8_lossy(&out.stdout), "100000\n");
}
