// C03 defect 3: expressions "nested to any depth" - a long but perfectly ordinary
// left-associative chain such as `1 plus 1 plus 1 ...` builds a left-deep tree that
// ProduceVal::visit_binary_expression evaluates by recursion (and Box<Expression> drops by
// recursion).  With a few ten-thousand operands the interpreter does not print the value
// and does not report a runtime error: the process is killed by
// "fatal runtime error: stack overflow" (SIGABRT).  The same happens in the parser for
// a chain of prefix operators (`not not not ... true`).
//
// The evaluation is run through the command-line binary so that the overflow cannot take
// the test harness down with it.
//
// Copy to /tmp/hunt_C03/tests/ and run (both profiles fail):
//   CARGO_TARGET_DIR=/tmp/hunt_C03/target cargo test --offline --test defect_3_test
//   CARGO_TARGET_DIR=/tmp/hunt_C03/target cargo test --offline --release --test defect_3_test

use std::{fs, path::PathBuf, process::Command};

fn exec(name: &str, source: &str) -> (bool, String, String) {
    let mut path = PathBuf::from(env!("CARGO_TARGET_TMPDIR"));
    path.push(name);
    fs::write(&path, source).unwrap();
    let out = Command::new(env!("CARGO_BIN_EXE_rrss"))
        .arg("exec")
        .arg(&path)
        .output()
        .unwrap();
    let _ = fs::remove_file(&path);
    (
        out.status.success(),
        String::from_utf8_lossy(&out.stdout).into_owned(),
        String::from_utf8_lossy(&out.stderr).into_owned(),
    )
}

#[test]
fn long_sum_evaluates() {
    const N: usize = 200_000;
    let source = format!("Say 1{}\n", " plus 1".repeat(N));
    let (ok, stdout, stderr) = exec("c03_long_sum.rock", &source);
    assert!(
        ok && stdout == format!("{}\n", N + 1),
        "a sum of {} ones must print {}; process ok = {}, stdout = {:?}, stderr = {:?}",
        N + 1,
        N + 1,
        ok,
        stdout,
        stderr.lines().last()
    );
}

#[test]
fn long_not_chain_evaluates() {
    const N: usize = 200_000; // even number of `not`s
    let source = format!("Say {}true\n", "not ".repeat(N));
    let (ok, stdout, stderr) = exec("c03_long_not.rock", &source);
    assert!(
        ok && stdout == "true\n",
        "an even number of `not`s applied to true must print true; process ok = {}, stdout = {:?}, stderr = {:?}",
        ok,
        stdout,
        stderr.lines().last()
    );
}
