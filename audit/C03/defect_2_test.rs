// C03 defect 2: `<string> times <number>` is computed by iterating `number as usize`
// times, even when nothing can come out of it.  For the empty string and a huge or
// infinite count the evaluation never finishes (observed: > 20 minutes at 100% CPU),
// although the prescribed value is simply "" (any number of repetitions of "" is "").
// (For a NON-empty string and an infinite count the process dies with
//  "memory allocation of N bytes failed" / SIGABRT instead of a runtime error; that
//  variant is documented in report.md but not run here because it eats all memory.)
//
// Copy to /tmp/hunt_C03/tests/ and run:
//   CARGO_TARGET_DIR=/tmp/hunt_C03/target cargo test --offline --test defect_2_test

use std::{sync::mpsc, thread, time::Duration};

use rrss::{
    exec::{exec_using, val::Val},
    frontend::parser::parse,
};

/// run `f` on its own thread, give up after `secs` seconds
fn within<T: Send + 'static>(secs: u64, f: impl FnOnce() -> T + Send + 'static) -> Option<T> {
    let (tx, rx) = mpsc::channel();
    thread::spawn(move || {
        let _ = tx.send(f());
    });
    rx.recv_timeout(Duration::from_secs(secs)).ok()
}

fn run(code: &'static str) -> Option<Result<String, String>> {
    within(10, move || {
        let mut output = Vec::new();
        let program = parse(code).expect("program must parse");
        exec_using("".as_bytes(), &mut output, &program)
            .map(|_| String::from_utf8(output).unwrap())
            .map_err(|e| format!("{:?}", e))
    })
}

#[test]
fn api_empty_string_times_infinity_terminates() {
    let r = within(10, || {
        // Val is not Send (Rc), so build and inspect it inside the thread
        let v = Val::from("").multiply(&Val::Number(f64::INFINITY));
        v == Val::from("") || v == Val::Undefined
    });
    assert_eq!(
        r,
        Some(true),
        "\"\" times infinity must evaluate (to \"\", or at worst to mysterious) instead of looping forever"
    );
}

#[test]
fn program_empty_string_times_infinity_terminates() {
    let r = run("Put 1 over 0 into X\nSay \"\" times X\nSay \"done\"\n");
    assert!(
        r.is_some(),
        "`Say \"\" times X` with X = infinity did not finish within 10 s"
    );
    // the value rules give "" (zero characters repeated); a runtime error would also satisfy C03
    match r.unwrap() {
        Ok(out) => assert_eq!(out, "\ndone\n"),
        Err(_) => {}
    }
}

#[test]
fn program_empty_string_times_large_finite_literal_terminates() {
    let r = run("Say silence times 1000000000000000000000\n");
    assert!(
        r.is_some(),
        "`Say silence times 1000000000000000000000` did not finish within 10 s"
    );
    match r.unwrap() {
        Ok(out) => assert_eq!(out, "\n"),
        Err(_) => {}
    }
}
