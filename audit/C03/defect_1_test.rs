// C03 defect 1: the empty string is treated as truthy by `not`, `and`, `or`, `nor`
// (and by if/while/until), although the language's truthiness table says
// "empty string is falsy" and the equality table of this very implementation
// converts "" to false (`"" is false` prints true).
//
// Copy to /tmp/hunt_C03/tests/ and run:
//   CARGO_TARGET_DIR=/tmp/hunt_C03/target cargo test --offline --test defect_1_test

use rrss::{
    exec::{exec_using, val::Val},
    frontend::parser::parse,
};

fn run(code: &str) -> String {
    let mut output = Vec::new();
    let program = parse(code).expect("program must parse");
    exec_using("".as_bytes(), &mut output, &program).expect("program must run");
    String::from_utf8(output).unwrap()
}

#[test]
fn api_empty_string_is_falsy() {
    // Rockstar truthiness: mysterious, null, false, 0 and the EMPTY STRING are falsy
    assert!(
        !Val::from("").is_truthy(),
        "the empty string must be falsy (it is the only falsy string)"
    );
    assert!(Val::from("x").is_truthy());
}

#[test]
fn not_of_empty_string_is_true() {
    assert_eq!(run("Say not \"\"\n"), "true\n");
    assert_eq!(run("Say not silence\n"), "true\n"); // `silence` / `empty` are aliases of ""
}

#[test]
fn logical_operators_treat_empty_string_as_false() {
    assert_eq!(run("Say \"\" and true\n"), "false\n");
    assert_eq!(run("Say \"\" or false\n"), "false\n");
    assert_eq!(run("Say \"\" nor false\n"), "true\n");
}

#[test]
fn truthiness_agrees_with_the_boolean_equality_cell() {
    // String <op> Boolean is defined as "convert the string to a boolean using truthiness";
    // rrss prints `true` for `"" is false`, so the truthiness of "" must be false everywhere.
    assert_eq!(run("Say \"\" is false\n"), "true\n");
    // (not X) is Y, with Y = (X is false): both sides are "X converted to a boolean, negated"
    assert_eq!(
        run("X is \"\"\nPut X is false into Y\nSay not X is Y\n"),
        "true\n"
    );
}

#[test]
fn conditional_on_empty_string_is_not_taken() {
    // first four lines of the official fixture conditionals/truthiness_test.rock
    let code = "if \"\"\nsay \"this should not print since empty strings are false\"\n\nif \"hello\"\nsay \"this should print since non-empty strings are true\"\n\n";
    assert_eq!(
        run(code),
        "this should print since non-empty strings are true\n"
    );
}
