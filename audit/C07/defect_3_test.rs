// C07 defect 3: `turn` accepts any expression as operand and hands it to the
// generic write-visitor, whose default traversal applies the rounding to the
// identifiers INSIDE a non-assignable operand.
//  (a) `Turn up roll X` (X a number): `roll` on a number is a runtime error
//      everywhere else ("cannot pop value 1.5"), but here the statement succeeds
//      and silently rounds X.
//  (b) `Turn up X plus Y`, `Turn up -X`, `Turn up Foo taking X` do end in
//      "value not writable", but only AFTER having rounded X (and Y) in place,
//      which a host that keeps the environment (REPL style use of the library
//      API) observes as changed values after a failed statement.
use rrss::{
    analysis::visit::VisitProgram,
    exec::{environment::Environment, exec_stmt::ExecStmt, exec_using},
    frontend::parser::parse,
};

fn run(code: &str) -> Result<String, String> {
    let mut output = Vec::new();
    let program = parse(code).map_err(|e| format!("parse error: {}", e))?;
    exec_using("".as_bytes(), &mut output, &program).map_err(|e| format!("runtime error: {}", e))?;
    Ok(String::from_utf8(output).unwrap())
}

#[test]
fn roll_on_a_number_is_an_error_control() {
    // control: passes on the unchanged tree
    assert!(run("Let X be 1.5\nLet Y be roll X\nSay X\n").is_err());
}

#[test]
fn turn_up_roll_of_a_number_is_a_runtime_error_not_a_silent_rounding_of_x() {
    // observed: Ok("2\n")
    let out = run("Let X be 1.5\nTurn up roll X\nSay X\n");
    assert!(out.is_err(), "operand of the wrong kind must be a runtime error, got {:?}", out);
}

#[test]
fn turn_on_roll_of_array_element_does_not_round_the_array_in_place() {
    // `roll Arr at 0` parses as roll (Arr at 0); Arr[0] is the number 1.5, so the
    // roll is an error, and a rolled value is not an assignable place anyway.
    // observed: Ok("2\n") - Arr[0] was rounded in place and no error was raised
    let out = run("Rock Arr with 1.5\nTurn up roll Arr at 0\nSay Arr at 0\n");
    assert!(out.is_err(), "got {:?}", out);
}

#[test]
fn failed_turn_leaves_every_variable_unchanged() {
    let mut output = Vec::new();
    {
        let env = Environment::refcell_raw("".as_bytes(), &mut output);
        let setup = parse("Let X be 1.5\nLet Y be 2.5\n").unwrap();
        ExecStmt::new(&env).visit_program(&setup).unwrap();
        for bad in ["Turn up X plus Y\n", "Turn up -X\n", "Turn up not Y\n"] {
            let p = parse(bad).unwrap();
            assert!(ExecStmt::new(&env).visit_program(&p).is_err());
        }
        let show = parse("Say X\nSay Y\n").unwrap();
        ExecStmt::new(&env).visit_program(&show).unwrap();
    }
    // demanded: a statement that ends in a runtime error transformed nothing
    assert_eq!(String::from_utf8(output).unwrap(), "1.5\n2.5\n");
}
