// C07 defect 1: a mutation's `with` parameter is evaluated BEFORE its operand.
// Because evaluating a variable moves the pronoun referent, a pronoun operand
// (`Cut it with D`) is resolved to the PARAMETER variable, so the wrong variable
// is transformed; side-effecting operand/parameter pairs are evaluated in the
// reverse of source order.
use rrss::{exec::exec_using, frontend::parser::parse};

fn run(code: &str) -> Result<String, String> {
    let mut output = Vec::new();
    let program = parse(code).map_err(|e| format!("parse error: {}", e))?;
    exec_using("".as_bytes(), &mut output, &program).map_err(|e| format!("runtime error: {}", e))?;
    Ok(String::from_utf8(output).unwrap())
}

#[test]
fn in_place_cut_of_pronoun_replaces_the_pronoun_referent_not_the_delimiter() {
    // `it` is X (the last variable named before the pronoun). The property demands
    // that the operand (X) is replaced by its pieces and the parameter D is untouched.
    let out = run("Let D be \",\"\n\
                   Let X be \"a,b,c\"\n\
                   Cut it with D\n\
                   Say X\n\
                   Say D\n");
    assert_eq!(out, Ok("3\n,\n".to_string()));
}

#[test]
fn cut_of_pronoun_into_destination_splits_the_pronoun_referent() {
    let out = run("Let D be \",\"\n\
                   Let X be \"a,b,c\"\n\
                   Cut it into Y with D\n\
                   Say Y\n\
                   Say Y at 0\n\
                   Say X\n\
                   Say D\n");
    assert_eq!(out, Ok("3\na\na,b,c\n,\n".to_string()));
}

#[test]
fn cast_of_pronoun_with_radix_variable_converts_the_string() {
    // observed: runtime error "converting number to character shouldn't take a
    // parameter, found 16" because `it` was resolved to R
    let out = run("Let R be 16\n\
                   Let X be \"ff\"\n\
                   Cast it into Y with R\n\
                   Say Y\n");
    assert_eq!(out, Ok("255\n".to_string()));
}

#[test]
fn join_of_pronoun_with_delimiter_variable() {
    let out = run("Let D be \"-\"\n\
                   Rock Arr with \"a\", \"b\"\n\
                   Join it with D\n\
                   Say Arr\n");
    assert_eq!(out, Ok("a-b\n".to_string()));
}

#[test]
fn operand_is_evaluated_before_parameter() {
    // source order: operand = first rolled element "a,b", delimiter = second ","
    let out = run("Rock Arr with \"a,b\", \",\"\n\
                   Cut roll Arr into Y with roll Arr\n\
                   Say Y\n\
                   Say Y at 0\n\
                   Say Y at 1\n");
    assert_eq!(out, Ok("2\na\nb\n".to_string()));
}
