// C07 defect 2: when the in-place target is a subscript of a pronoun (`it at I`),
// the writer evaluates the subscript expression BEFORE it resolves the pronoun.
// Evaluating `I` moves the pronoun referent to I, so `Turn up it at I` tries to
// index I itself. The very same expression READ (`Say it at I`) resolves the
// pronoun first and yields Arr[I].
use rrss::{exec::exec_using, frontend::parser::parse};

fn run(code: &str) -> Result<String, String> {
    let mut output = Vec::new();
    let program = parse(code).map_err(|e| format!("parse error: {}", e))?;
    exec_using("".as_bytes(), &mut output, &program).map_err(|e| format!("runtime error: {}", e))?;
    Ok(String::from_utf8(output).unwrap())
}

#[test]
fn reading_pronoun_subscript_works() {
    // control: passes on the unchanged tree
    let out = run("Let I be 1\n\
                   Rock Arr with 1.5, 2.5\n\
                   Say it at I\n");
    assert_eq!(out, Ok("2.5\n".to_string()));
}

#[test]
fn rounding_pronoun_subscript_rounds_that_element() {
    // the operand is Arr[1] == 2.5, a number: the property demands it is replaced by 3.
    // observed: Err("runtime error: value 1 not indexable")
    let out = run("Let I be 1\n\
                   Rock Arr with 1.5, 2.5\n\
                   Turn up it at I\n\
                   Say Arr at 1\n\
                   Say Arr at 0\n\
                   Say I\n");
    assert_eq!(out, Ok("3\n1.5\n1\n".to_string()));
}

#[test]
fn mutation_into_pronoun_subscript_destination() {
    // same ordering fault on the `into` destination of a mutation:
    // demanded: Arr[1] receives the pieces of the operand, Arr[0] is untouched.
    // observed: Err("runtime error: value 1 not indexable")
    let out = run("Let I be 1\n\
                   Rock Arr with \"p\", \"q\"\n\
                   Cut \"a,b\" into it at I with \",\"\n\
                   Say Arr at 1 at 1\n\
                   Say Arr at 0\n");
    assert_eq!(out, Ok("b\np\n".to_string()));
}
