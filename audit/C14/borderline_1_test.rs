// BORDERLINE (not a code defect): the last clause of C14, read literally ("building a number of
// magnitude below 2^53 up and then knocking it down the same number of times restores it"),
// does not hold on the unchanged tree for non-integers, for integers within k of 2^53 and for -0.
// All three are IEEE-754 double rounding in `Val::inc` (`*n += x as f64`), not a logic error.
use rrss::{exec::exec_using, frontend::parser::parse};

fn run(code: &str) -> String {
    let mut out = Vec::new();
    exec_using(&b""[..], &mut out, &parse(code).unwrap()).unwrap();
    String::from_utf8(out).unwrap()
}

#[test]
fn fraction_is_restored() {
    // the property demands 0.1 back; observed 0.10000000000000009
    assert_eq!(
        run("put 0.1 into x\nbuild x up\nknock x down\nsay x\nsay x is 0.1\n"),
        "0.1\ntrue\n"
    );
}

#[test]
fn integer_just_below_2_pow_53_is_restored() {
    // |x| < 2^53, but x + 2 is not representable; observed 9007199254740990
    assert_eq!(
        run("put 9007199254740991 into x\nbuild x up, up\nknock x down, down\nsay x\n"),
        "9007199254740991\n"
    );
}

#[test]
fn negative_zero_is_restored() {
    // observed "0": the sign is lost (the result still `is` -0)
    assert_eq!(
        run("put -0 into x\nsay x\nbuild x up\nknock x down\nsay x\n"),
        "-0\n-0\n"
    );
}
