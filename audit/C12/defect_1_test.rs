// Needs ~4.1 GiB of RAM; run with --release.
use rrss::frontend::lexer::*;

#[test]
fn token_after_four_gib_comment_has_small_true_column() {
    // line 1: "(" followed by 2^32 spaces, then a newline; line 2: ") x"
    let n: usize = 1 << 32;
    let mut src = String::with_capacity(n + 16);
    src.push('(');
    src.extend(std::iter::repeat(' ').take(n));
    src.push_str("\n) x");
    let r = std::panic::catch_unwind(|| {
        Lexer::new(&src)
            .map(|t| (t.spelling.len(), t.range.start().line, t.range.start().column, t.range.end().line, t.range.end().column))
            .collect::<Vec<_>>()
    });
    // true positions: comment 1:0 .. 2:1, word x 2:2 .. 2:3 - all representable in u32
    let toks = r.expect("lexer panicked on a legal source text");
    assert_eq!(toks.last().unwrap(), &(1, 2, 2, 2, 3));
}
