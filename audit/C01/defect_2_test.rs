// C01 defect 2: a source text in which any token starts at a byte offset >= 4 GiB makes the
// lexer panic (`Option::unwrap()` on `None` in Lexer::make_loc_from, src/frontend/lexer.rs:356-359)
// instead of parse() returning a Program or a ParseError.
//
// HEAVY: needs ~4.1 GiB of RAM. About 6 s in release, a few minutes in debug.
// Copy to /tmp/hunt_C01/tests/defect_2_test.rs and run
//   cargo test --offline --release --test defect_2_test -- --nocapture      (FAILS)

use rrss::frontend::parser::parse;
use std::panic::{catch_unwind, AssertUnwindSafe};

#[test]
fn token_at_offset_beyond_u32_max_is_not_a_panic() {
    // 2^32 blanks, then an ordinary statement: perfectly valid UTF-8 and valid Rockstar
    let n = u32::MAX as usize + 1;
    let mut src = String::with_capacity(n + 8);
    src.extend(std::iter::repeat(' ').take(n));
    src.push_str("say 1\n");

    let outcome = catch_unwind(AssertUnwindSafe(|| match parse(&src) {
        Ok(p) => format!("Ok({} block(s))", p.code.len()),
        Err(e) => format!("Err({})", e),
    }));
    println!("{:?}", outcome.as_ref().map_err(|_| "PANIC"));
    assert!(
        outcome.is_ok(),
        "C01: for every UTF-8 source text parse() must return a Program or a renderable \
         ParseError; for a text longer than u32::MAX bytes it panicked instead"
    );
}
