// C01 defect 1: a couple of hundred nested blocks / calls overflow the stack of an ordinary
// (2 MiB) thread in the debug profile and the whole process is aborted (SIGABRT) instead of
// parse() returning a Program or a ParseError.
//
// Copy to /tmp/hunt_C01/tests/defect_1_test.rs and run
//   cargo test --offline --test defect_1_test            (debug:   FAILS, children die with SIGABRT)
//   cargo test --offline --release --test defect_1_test  (release: passes)
//
// Because a stack overflow cannot be caught in-process, every case is parsed in a child process
// (this same test binary, re-invoked with HUNT_C01_CASE set); the parent asserts on its status.

use rrss::frontend::parser::parse;
use std::process::Command;

fn source(kind: &str, depth: usize) -> String {
    match kind {
        // `depth` blocks nested inside each other, innermost one holds one statement
        "if" => "If X\n".repeat(depth) + "Say X\n",
        "while" => "While X\n".repeat(depth) + "Say X\n",
        "function" => "F takes X\n".repeat(depth) + "Say X\n",
        "if-else" => "If X\nSay X\nElse\n".repeat(depth) + "Say X\n",
        // F taking F taking ... F taking X   (nested call arguments, one line)
        "taking" => "Say ".to_owned() + &"F taking ".repeat(depth) + "X\n",
        _ => unreachable!(),
    }
}

/// child mode: parse on a plain `std::thread::spawn` thread (default stack size, 2 MiB),
/// exactly what `cargo test` itself and any threaded embedder of the library uses.
#[test]
fn child_parse_one_case() {
    let case = match std::env::var("HUNT_C01_CASE") {
        Ok(c) => c,
        Err(_) => return, // not in child mode
    };
    let (kind, depth) = case.split_once(':').unwrap();
    let src = source(kind, depth.parse().unwrap());
    std::thread::spawn(move || {
        match parse(&src) {
            Ok(p) => println!("child: Ok, {} top-level block(s)", p.code.len()),
            Err(e) => println!("child: Err, {}", e),
        };
    })
    .join()
    .unwrap();
}

fn run_case(kind: &str, depth: usize) -> Result<(), String> {
    let out = Command::new(std::env::current_exe().unwrap())
        .args(["--exact", "child_parse_one_case", "--nocapture", "--test-threads=1"])
        .env("HUNT_C01_CASE", format!("{}:{}", kind, depth))
        .env_remove("RUST_MIN_STACK")
        .output()
        .unwrap();
    if out.status.success() {
        Ok(())
    } else {
        Err(format!(
            "{} nested {} levels deep: parser process died with {:?}: {}",
            kind,
            depth,
            out.status,
            String::from_utf8_lossy(&out.stderr)
                .lines()
                .filter(|l| l.contains("overflow") || l.contains("panicked"))
                .collect::<Vec<_>>()
                .join(" / ")
        ))
    }
}

#[test]
fn a_few_hundred_nesting_levels_never_abort() {
    // sanity: the child mechanism itself works
    run_case("if", 10).unwrap();

    let failures: Vec<String> = [
        ("if", 200),
        ("while", 200),
        ("function", 200),
        ("if-else", 200),
        ("taking", 300),
    ]
    .iter()
    .filter_map(|&(kind, depth)| run_case(kind, depth).err())
    .collect();
    assert!(
        failures.is_empty(),
        "C01 demands that parsing any text whose nesting stays within a few hundred levels \
         returns a Program or a ParseError and never aborts, in debug and in release; \
         but:\n{}",
        failures.join("\n")
    );
}
