// C15 defect 2: the keyword suffixes `'s` / `'re` (aliases of `is`) are recognised in any case after a
// word (`X'S`, `X'Re`) but only in lower case after a string or number literal.
// Property: "keywords are recognised in any case ... changing the case of any mention or keyword
// leaves its output and outcome unchanged."
use rrss::{exec::exec_using, frontend::parser::parse};

fn outcome(code: &str) -> (String, String) {
    let mut out = Vec::new();
    let end = match parse(code) {
        Ok(p) => match exec_using("".as_bytes(), &mut out, &p) {
            Ok(()) => "ok".to_string(),
            Err(e) => format!("runtime error: {:?}", e),
        },
        Err(e) => format!("parse error: {:?}", e.code),
    };
    (String::from_utf8(out).unwrap(), end)
}

#[test]
fn upper_case_s_suffix_after_a_string_literal() {
    let lower = "Say \"a\"'s \"a\"\n";
    assert_eq!(outcome(lower), ("true\n".to_string(), "ok".to_string()));
    assert_eq!(outcome("Say \"a\"'S \"a\"\n"), outcome(lower));
}

#[test]
fn upper_case_s_suffix_after_a_number() {
    let lower = "Say 1's 2\n";
    assert_eq!(outcome(lower), ("false\n".to_string(), "ok".to_string()));
    assert_eq!(outcome("Say 1'S 2\n"), outcome(lower));
}

#[test]
fn re_cased_re_suffix_after_a_literal() {
    let lower = "Say \"a\"'re \"a\"\n";
    assert_eq!(outcome(lower), ("true\n".to_string(), "ok".to_string()));
    for v in ["'RE", "'Re", "'rE"] {
        assert_eq!(outcome(&format!("Say \"a\"{} \"a\"\n", v)), outcome(lower), "{}", v);
    }
}

#[test]
fn the_same_suffixes_after_a_word_are_fine() {
    // shows the asymmetry: after a word every casing works
    for v in ["'s", "'S", "'re", "'RE", "'Re", "'rE"] {
        assert_eq!(
            outcome(&format!("X is 1\nSay X{} 1\n", v)),
            ("true\n".to_string(), "ok".to_string()),
            "{}",
            v
        );
    }
}
