// C15 defect 1: the parameter / argument separator keyword `'n'` is only recognised in lower case.
// Property: "keywords are recognised in any case ... changing the case of any mention or keyword
// leaves its output and outcome unchanged."
use rrss::{exec::exec_using, frontend::parser::parse};

/// output of the program, followed by how it ended
fn outcome(code: &str) -> (String, String) {
    let mut out = Vec::new();
    let end = match parse(code) {
        Ok(p) => match exec_using("".as_bytes(), &mut out, &p) {
            Ok(()) => "ok".to_string(),
            Err(e) => format!("runtime error: {:?}", e),
        },
        Err(e) => format!("parse error: {:?}", e.code),
    };
    (String::from_utf8(out).unwrap(), end)
}

#[test]
fn upper_case_n_separator_in_a_parameter_list() {
    let lower = "Foo takes X 'n' Y\nGive back X plus Y\n\nSay Foo taking 1, 2\n";
    let upper = "Foo takes X 'N' Y\nGive back X plus Y\n\nSay Foo taking 1, 2\n";
    assert_eq!(outcome(lower), ("3\n".to_string(), "ok".to_string()));
    // re-casing the keyword must not change output or outcome
    assert_eq!(outcome(upper), outcome(lower));
}

#[test]
fn upper_case_n_separator_in_an_argument_list() {
    let lower = "Foo takes X and Y\nGive back X plus Y\n\nSay Foo taking 1 'n' 2\n";
    let upper = "Foo takes X and Y\nGive back X plus Y\n\nSay Foo taking 1 'N' 2\n";
    assert_eq!(outcome(lower), ("3\n".to_string(), "ok".to_string()));
    assert_eq!(outcome(upper), outcome(lower));
}
