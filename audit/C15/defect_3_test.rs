// C15 defect 3: the linter's "missed pronoun" pass compares names with `==` on the spelled name, i.e.
// case-sensitively, although `Tommy` and `tommy` (`the World` / `the world`, `Doctor Feelgood` /
// `DOCTOR FEELGOOD`) are the same variable everywhere else.
// Property: "Variable, parameter and function names are compared without regard to letter case ...
// changing the case of any mention ... leaves its output and outcome unchanged."
use rrss::{frontend::parser::parse, linter::standard_linter};

fn lint_lines(code: &str) -> Vec<u32> {
    standard_linter()
        .run(&parse(code).unwrap())
        .diags
        .iter()
        .map(|d| d.line)
        .collect()
}

#[test]
fn simple_name() {
    assert_eq!(lint_lines("Listen to Tommy\nSay Tommy\n"), [2]);
    // the same variable mentioned twice in a row, second mention re-cased
    assert_eq!(lint_lines("Listen to Tommy\nSay tommy\n"), [2]);
}

#[test]
fn common_name() {
    assert_eq!(lint_lines("Listen to the world\nSay the world\n"), [2]);
    assert_eq!(lint_lines("Listen to the World\nSay THE world\n"), [2]);
}

#[test]
fn proper_name() {
    assert_eq!(lint_lines("Listen to Doctor Feelgood\nSay Doctor Feelgood\n"), [2]);
    assert_eq!(lint_lines("Listen to Doctor Feelgood\nSay DOCTOR FeelGood\n"), [2]);
}
