// C02 defect 2: symbolic / contracted comparison operators (`>`, `<`, `>=`, `<=`, `isnt`, `ain't` ...)
// and their worded forms (`is greater than`, `is not` ...) are parsed by two different code paths
// (Parser::parse_comparison_expression) that cannot be mixed in one chain and that take different
// right operands.  The same tree is therefore accepted in one spelling and rejected in another.
use rrss::frontend::parser::parse;

// Debug rendering of the tree with all source positions removed
fn strip(s: &str) -> String {
    let mut out = String::new();
    let mut rest = s;
    while let Some(i) = rest.find("SourceLocation {") {
        out.push_str(&rest[..i]);
        let j = rest[i..].find('}').unwrap();
        out.push('@');
        rest = &rest[i + j + 1..];
    }
    out.push_str(rest);
    out
}

fn tree(src: &str) -> Result<String, String> {
    parse(src)
        .map(|p| strip(&format!("{:?}", p)))
        .map_err(|e| format!("{:?}", e))
}

fn assert_same_tree(worded: &str, other: &str) {
    let base = tree(worded);
    assert!(base.is_ok(), "{:?} must parse: {:?}", worded, base);
    assert_eq!(
        base,
        tree(other),
        "{:?} and {:?} differ only in the spelling of a comparison operator",
        worded,
        other
    );
}

#[test]
fn control_single_comparisons_agree() {
    assert_same_tree("say x is greater than y", "say x > y");
    assert_same_tree("say x is not y", "say x isnt y");
    assert_same_tree("say x is as small as y", "say x <= y");
    // chains in ONE style agree as well (left-associative)
    assert_same_tree("say x is not y is not z", "say x isnt y ain't z");
}

#[test]
fn chain_symbolic_then_worded() {
    // ((x > y) == z)
    assert_same_tree("say x is greater than y is z", "say x > y is z");
    assert_same_tree("say x is as big as y is z", "say x >= y is z");
}

#[test]
fn chain_contracted_negation_then_is() {
    // ((x != y) == z): `isnt` / `ain't` are aliases of `is not`
    assert_same_tree("say x is not y is z", "say x isnt y is z");
    assert_same_tree("say x is not y is z", "say x ain't y is z");
}

#[test]
fn chain_is_then_symbolic_or_contracted() {
    // ((x == y) != z), ((x == y) > z)
    assert_same_tree("say x is y is not z", "say x is y isnt z");
    assert_same_tree("say x is y is greater than z", "say x is y > z");
}

#[test]
fn list_operand_of_a_comparison() {
    // whatever the grammar assigns to a list after a comparison, it must not depend on the spelling
    assert_eq!(
        tree("say x < 2, 3").is_ok(),
        tree("say x is less than 2, 3").is_ok(),
        "`<` takes the list 2, 3 as operand, `is less than` stops after 2"
    );
}
