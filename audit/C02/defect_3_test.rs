// C02 defect 3: a poetic number literal with a decimal part does not denote its written value.
// `ab abcdefg. abcd abcdef` spells the digits 2 7 . 4 6, i.e. the number 27.46, exactly like the
// literal `27.46`; PoeticNumberLiteral::compute_value adds digit * 10^k terms in floating point and
// returns 27.459999999999997.
use rrss::exec::exec_using;
use rrss::frontend::ast::*;
use rrss::frontend::parser::parse;

fn poetic_value(src: &str) -> f64 {
    let program = parse(src).unwrap();
    match &program.code[0] {
        Block::NonEmpty(stmts) => match &stmts[0] {
            Statement::PoeticAssignment(PoeticAssignment::Number(PoeticNumberAssignment {
                rhs: PoeticNumberAssignmentRHS::PoeticNumberLiteral(lit),
                ..
            })) => lit.compute_value(),
            other => panic!("unexpected statement {:?}", other),
        },
        other => panic!("unexpected block {:?}", other),
    }
}

fn run(src: &str) -> String {
    let mut out = Vec::new();
    exec_using("".as_bytes(), &mut out, &parse(src).unwrap()).unwrap();
    String::from_utf8(out).unwrap()
}

#[test]
fn control_values_that_are_already_right() {
    assert_eq!(poetic_value("X is ice. ice"), 3.3);
    assert_eq!(
        poetic_value("My dreams were ice. A life unfulfilled; wakin' everybody up, taking booze and pills"),
        3.1415926535
    );
}

#[test]
fn poetic_decimal_denotes_its_written_value() {
    // word lengths 2 7 . 4 6
    assert_eq!(poetic_value("X is ab abcdefg. abcd abcdef"), 27.46); // observed 27.459999999999997
    // 1 5 0 6 . 1 7
    assert_eq!(poetic_value("X is a abcde abcdefghij abcdef. a abcdefg"), 1506.17); // observed 1506.1699999999998
    // 7 9 . 2 9 1 0
    assert_eq!(poetic_value("X is abcdefg abcdefghi. ab abcdefghi a abcdefghij"), 79.291); // observed 79.29100000000001
}

#[test]
fn poetic_and_numeric_spelling_of_one_number_are_equal_at_run_time() {
    let out = run("X is ab abcdefg. abcd abcdef\nsay X\nsay X is 27.46\n");
    assert_eq!(out, "27.46\ntrue\n"); // observed "27.459999999999997\nfalse\n"
}

#[test]
fn every_short_poetic_decimal_matches_the_numeric_literal() {
    // all literals d1 d2 . d3 d4 (10 000 of them): poetic value == value of the written decimal
    let word = |d: usize| "abcdefghij"[..if d == 0 { 10 } else { d }].to_string();
    let mut wrong = Vec::new();
    for n in 1000..10000usize {
        let d = [n / 1000, n / 100 % 10, n / 10 % 10, n % 10];
        let src = format!("X is {} {}. {} {}", word(d[0]), word(d[1]), word(d[2]), word(d[3]));
        let written: f64 = format!("{}{}.{}{}", d[0], d[1], d[2], d[3]).parse().unwrap();
        if poetic_value(&src) != written {
            wrong.push(written);
        }
    }
    assert!(
        wrong.is_empty(),
        "{} of 9000 poetic decimals differ from the literal, e.g. {:?}",
        wrong.len(),
        &wrong[..wrong.len().min(5)]
    );
}
