// C02 defect 1: the "no nested lists" rule is forgotten after the first operator inside a list
// (Parser::parse_expression_list resets `parsing_list` to false instead of restoring it).
//
// Grammar: the operand list of an operator may not contain lists itself, so inside
// `1 with A, B, C, D` every element is a plain expression and a comma always continues
// the `with` list.  Hence
//     say 1 with 2, 3 times 4, 5 times 6, 7
// is  1 + [2, 3*4, 5*6, 7]   (and prints 52), exactly as `say 1 with 2, 5 times 6, 7, 3 times 4`
// (the same elements in another order) already does.
use rrss::exec::exec_using;
use rrss::frontend::ast::*;
use rrss::frontend::parser::parse;

fn with_list(src: &str) -> ExpressionList {
    let program = parse(src).unwrap();
    match &program.code[0] {
        Block::NonEmpty(stmts) => match &stmts[0] {
            Statement::Output(Output {
                value: Expression::BinaryExpression(b),
            }) => {
                assert_eq!(b.operator, BinaryOperator::Plus);
                (*b.rhs).clone()
            }
            other => panic!("unexpected statement {:?}", other),
        },
        other => panic!("unexpected block {:?}", other),
    }
}

fn run(src: &str) -> String {
    let mut out = Vec::new();
    exec_using("".as_bytes(), &mut out, &parse(src).unwrap()).unwrap();
    String::from_utf8(out).unwrap()
}

fn assert_flat(src: &str, expected_len: usize) {
    let list = with_list(src);
    assert_eq!(
        list.len(),
        expected_len,
        "{:?}: every comma must continue the `with` list (no nested lists)",
        src
    );
    for e in list.iter() {
        if let Expression::BinaryExpression(inner) = e {
            assert!(
                !inner.rhs.has_multiple(),
                "{:?}: an operator inside a list got a list operand of its own: {:?}",
                src,
                inner
            );
        }
    }
}

#[test]
fn second_operator_inside_a_list_must_not_open_a_nested_list() {
    // control: one operator inside the list - already correct
    assert_flat("say 1 with 2, 5 times 6, 7", 3);
    assert_flat("say 1 with 2, 5 times 6, 7, 3 times 4", 4);
    // two operators inside the list: the second one swallows `, 7`
    assert_flat("say 1 with 2, 3 times 4, 5 times 6, 7", 4);
}

#[test]
fn same_elements_same_sum() {
    assert_eq!(run("say 1 with 2, 5 times 6, 7, 3 times 4"), "52\n");
    assert_eq!(run("say 1 with 2, 3 times 4, 5 times 6, 7"), "52\n"); // observed: 225
}

#[test]
fn toplevel_list_of_let() {
    // let X be A, B, C, D : four elements
    let program = parse("let X be 1, 2 with 3, 4 with 5, 6").unwrap();
    match &program.code[0] {
        Block::NonEmpty(stmts) => match &stmts[0] {
            Statement::Assignment(Assignment {
                value: AssignmentRHS::ExpressionList(list),
                ..
            }) => assert_eq!(list.len(), 4, "{:?}", list), // observed: 3, last one is 4 + [5, 6]
            other => panic!("unexpected statement {:?}", other),
        },
        other => panic!("unexpected block {:?}", other),
    }
}
