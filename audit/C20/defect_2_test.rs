// C20, clause "`rrss exec FILE` writes to standard output exactly what the library interpreter
// writes for that program" (and likewise lint / parse).
// A program stored under a file name that is not valid UTF-8 (legal on Linux) is never run:
// rrss::run() collects the command line with std::env::args(), which panics on such an
// argument, so the tool dies with a Rust panic (status 101) before clap is even consulted.
#![cfg(unix)]
use std::ffi::OsStr;
use std::os::unix::ffi::OsStrExt;
use std::process::{Command, Stdio};

use rrss::{exec::exec_using, frontend::parser::parse};

#[test]
fn exec_of_a_file_with_a_non_utf8_name() {
    let src = "Say \"hello\"\nListen to X\nSay X\n";
    let stdin = b"line\n";

    let dir = std::env::temp_dir().join(format!("c20_d2_{}", std::process::id()));
    std::fs::create_dir_all(&dir).unwrap();
    let path = dir.join(OsStr::from_bytes(b"caf\xe9.rock")); // latin-1 e-acute
    std::fs::write(&path, src).unwrap();

    // library
    let mut expected = Vec::new();
    exec_using(&stdin[..], &mut expected, &parse(src).unwrap()).unwrap();
    assert_eq!(expected, b"hello\nline\n");

    // binary
    let mut child = Command::new(env!("CARGO_BIN_EXE_rrss"))
        .arg("exec")
        .arg(&path)
        .env("RUST_BACKTRACE", "0")
        .stdin(Stdio::piped())
        .stdout(Stdio::piped())
        .stderr(Stdio::piped())
        .spawn()
        .unwrap();
    {
        use std::io::Write;
        child.stdin.take().unwrap().write_all(stdin).ok();
    }
    let out = child.wait_with_output().unwrap();
    std::fs::remove_dir_all(&dir).ok();

    let stderr = String::from_utf8_lossy(&out.stderr);
    assert!(
        !stderr.contains("panicked"),
        "the tool panicked instead of running the program: {}",
        stderr.lines().take(3).collect::<Vec<_>>().join(" | ")
    );
    assert_eq!(
        out.stdout, expected,
        "binary stdout differs from the library's output; stderr: {}",
        stderr
    );
}
