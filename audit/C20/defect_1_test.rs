// C20, clause "A missing file or bad usage yields a non-zero exit status".
// Invoking the tool without any subcommand (`rrss`, `rrss --`) is bad usage: nothing is
// linted, parsed or executed and nothing is printed, yet the exit status is 0.
use std::process::{Command, Stdio};

fn status_of(args: &[&str]) -> (Option<i32>, usize, usize) {
    let out = Command::new(env!("CARGO_BIN_EXE_rrss"))
        .args(args)
        .stdin(Stdio::null())
        .output()
        .unwrap();
    (out.status.code(), out.stdout.len(), out.stderr.len())
}

#[test]
fn other_bad_usages_are_rejected() {
    // control: these forms of bad usage are already rejected with a non-zero status
    assert_ne!(status_of(&["bogus"]).0, Some(0));
    assert_ne!(status_of(&["exec"]).0, Some(0));
    assert_ne!(status_of(&["exec", "/nonexistent/file.rock"]).0, Some(0));
}

#[test]
fn no_subcommand_is_bad_usage_binary() {
    let (code, out, err) = status_of(&[]);
    assert_ne!(
        code,
        Some(0),
        "`rrss` without a subcommand did nothing (stdout {} bytes, stderr {} bytes) but exited with status 0",
        out,
        err
    );
}

#[test]
fn lone_double_dash_is_bad_usage_binary() {
    let (code, _, _) = status_of(&["--"]);
    assert_ne!(code, Some(0), "`rrss --` did nothing but exited with status 0");
}

#[test]
fn no_subcommand_is_bad_usage_library_entry_point() {
    // rrss::run() maps Ok(()) to exit status 0 and Err(_) to 1
    assert!(
        rrss::cli::cli(["rrss"]).is_err(),
        "cli() accepted a command line without a subcommand"
    );
}
