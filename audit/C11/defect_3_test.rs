// C11 defect 3: a word that *begins* with the three characters 'n' and continues with more
// letters (e.g. 'n'roll, as in the sloppy spelling "rock 'n'roll") is cut into two words by
// the lexer: the separator token 'n' (counted as a 1-letter word) and the rest.
//
// Property clause: "the decimal numeral whose digits are the word lengths modulo 10
// (apostrophes not counted ...)", quantified over "words containing apostrophes".
use rrss::frontend::{ast::*, parser::parse};

fn poetic_value(src: &str) -> f64 {
    let prog = parse(src).expect("program must parse");
    for block in &prog.code {
        if let Block::NonEmpty(stmts) = block {
            for s in stmts {
                if let Statement::PoeticAssignment(PoeticAssignment::Number(n)) = s {
                    if let PoeticNumberAssignmentRHS::PoeticNumberLiteral(l) = &n.rhs {
                        return l.compute_value();
                    }
                }
            }
        }
    }
    panic!("no poetic number literal in {:?}", src)
}

#[test]
fn word_starting_with_apostrophe_n_apostrophe_is_one_word() {
    // controls that already behave as the property demands
    assert_eq!(poetic_value("X is rock 'n' roll"), 414.0); // three words
    assert_eq!(poetic_value("X is rock'n'roll"), 9.0); // one word, 9 letters
    assert_eq!(poetic_value("X is rock'n' roll"), 54.0); // rock'n' = 5 letters
    assert_eq!(poetic_value("X is rock 'N'roll"), 45.0); // upper-case N: one word, 5 letters
    assert_eq!(poetic_value("X is rock 'twas"), 44.0); // leading apostrophe not counted

    // two whitespace-separated words: "rock" (4) and "'n'roll" (n,r,o,l,l = 5 letters)
    assert_eq!(poetic_value("X is rock 'n'roll"), 45.0);
}

#[test]
fn word_starting_with_apostrophe_n_apostrophe_first_in_literal() {
    // "'n'est" has the letters n,e,s,t = 4; "pas" = 3
    assert_eq!(poetic_value("X is 'n'est pas"), 43.0);
}
