// C11 defect 2: digits that sit at the 309th decimal place or later are silently dropped,
// because compute_value scales them with 10f64.powi(-n), which is 1/(10^n) = 1/inf = 0 for
// n >= 309 although 1e-309 .. 1e-323 are representable and, more visibly, although the
// literal as a whole may be an ordinary normal-range number.
//
// Property clause: "A poetic number literal denotes, to within a few units in the last place
// of floating-point rounding, ... the decimal numeral whose digits are the word lengths
// modulo 10 ..., with the first period as the decimal point".
use rrss::frontend::{ast::*, parser::parse};

fn poetic_value(src: &str) -> f64 {
    let prog = parse(src).expect("program must parse");
    for block in &prog.code {
        if let Block::NonEmpty(stmts) = block {
            for s in stmts {
                if let Statement::PoeticAssignment(PoeticAssignment::Number(n)) = s {
                    if let PoeticNumberAssignmentRHS::PoeticNumberLiteral(l) = &n.rhs {
                        return l.compute_value();
                    }
                }
            }
        }
    }
    panic!("no poetic number literal in {:?}", src)
}

fn ulps_apart(a: f64, b: f64) -> u64 {
    assert!(a.is_finite() && b.is_finite() && a >= 0.0 && b >= 0.0);
    (a.to_bits() as i64 - b.to_bits() as i64).unsigned_abs()
}

/// 0.<300 zeros>123456789123456789 = 1.2345678912345679e-301: a normal f64. The last ten
/// digits (decimal places 309..318) are lost: rrss yields 1.234567799999999e-301, which is
/// about 4e8 units in the last place away.
#[test]
fn digits_beyond_the_308th_decimal_place_still_count() {
    let words = "a ab abc abcd abcde abcdef abcdefg abcdefgh abcdefghi";
    let src = format!("X is . {}{} {}", "abcdefghij ".repeat(300), words, words);
    let numeral = format!("0.{}123456789123456789", "0".repeat(300));
    let want: f64 = numeral.parse().unwrap();
    let got = poetic_value(&src);
    assert!(
        ulps_apart(got, want) <= 16,
        "want {:e} (a few ulps), got {:e}: {} ulps apart",
        want,
        got,
        ulps_apart(got, want)
    );
}

/// 0.<308 zeros>5 = 5e-309 is representable (subnormal) but comes out as exactly 0.
#[test]
fn tiny_literal_is_not_zero() {
    // sanity: one place earlier works today (5e-308, within a few ulps)
    let ok = format!("X is . {}abcde", "abcdefghij ".repeat(307));
    assert!(ulps_apart(poetic_value(&ok), 5e-308) <= 16);

    let src = format!("X is . {}abcde", "abcdefghij ".repeat(308));
    let got = poetic_value(&src);
    assert!(
        ulps_apart(got, 5e-309) <= 16,
        "numeral 0.<308 zeros>5 is 5e-309, got {:e}",
        got
    );
}
