// C11 defect 1: a poetic number literal with 310 or more words evaluates to NaN as soon as
// one of the leading words has a length that is a multiple of 10 (digit 0), because
// compute_value multiplies the digit 0 by 10^309 = +inf.
//
// Property clause: "A poetic number literal denotes ... (exactly for integers below 2^53)
// the decimal numeral whose digits are the word lengths modulo 10", quantified over
// "all word sequences (any word lengths including multiples of 10 ...)".
use rrss::{
    exec::exec_using,
    frontend::{ast::*, parser::parse},
};

fn poetic_value(src: &str) -> f64 {
    let prog = parse(src).expect("program must parse");
    for block in &prog.code {
        if let Block::NonEmpty(stmts) = block {
            for s in stmts {
                if let Statement::PoeticAssignment(PoeticAssignment::Number(n)) = s {
                    if let PoeticNumberAssignmentRHS::PoeticNumberLiteral(l) = &n.rhs {
                        return l.compute_value();
                    }
                }
            }
        }
    }
    panic!("no poetic number literal in {:?}", src)
}

fn run(code: &str) -> String {
    let mut out = Vec::new();
    exec_using("".as_bytes(), &mut out, &parse(code).unwrap()).unwrap();
    String::from_utf8(out).unwrap()
}

/// 309 ten-letter words (digit 0 each) followed by "abc": the numeral is 000...03 = 3.
#[test]
fn leading_zero_words_do_not_change_the_integer() {
    // sanity: the same shape one word shorter works today
    let ok = format!("X is {}abc", "abcdefghij ".repeat(308));
    assert_eq!(poetic_value(&ok), 3.0);

    let src = format!("X is {}abc", "abcdefghij ".repeat(309));
    let got = poetic_value(&src);
    assert_eq!(
        got, 3.0,
        "numeral 0...03 (309 zero digits, then 3) is the integer 3 < 2^53 and must be exact, got {}",
        got
    );
}

/// Same through the interpreter: `say X` must print 3.
#[test]
fn leading_zero_words_through_exec() {
    let code = format!("X is {}abc\nsay X\n", "abcdefghij ".repeat(309));
    assert_eq!(run(&code), "3\n");
}

/// A single leading zero digit is enough: 0 1 0...0 (310 digits) = 1e308, a finite f64.
#[test]
fn one_leading_zero_digit_in_a_310_digit_numeral() {
    let src = format!("X is abcdefghij a {}", "abcdefghij ".repeat(308));
    let got = poetic_value(&src);
    let want: f64 = format!("01{}", "0".repeat(308)).parse().unwrap(); // 1e308
    assert!(
        got.is_finite() && ((got - want) / want).abs() < 1e-14,
        "numeral 01 followed by 308 zeros is 1e308 (finite), got {}",
        got
    );
}
