// C19 defect 1: the repeated-identifier pass compares names case-sensitively, although rrss
// (like Rockstar itself) treats variable names case-insensitively: `X` and `x`, `The World`
// and `the world`, `Tommy Gun` and `TOMMY GUN` spell the same name (the interpreter reads and
// writes the same variable through all of them).  A mention that repeats the previous mention
// in a different case is therefore not reported, and a run of such mentions is reported
// incompletely.
//
// Copy to /tmp/hunt_C19/tests/ and run
//   cargo test --offline --test defect_1_test
use rrss::{
    exec::exec_using,
    frontend::parser::parse,
    linter::{standard_linter, Diag},
};

fn repeats(code: &str) -> Vec<(String, u32)> {
    let program = parse(code).unwrap();
    standard_linter()
        .run(&program)
        .diags
        .into_iter()
        .filter(|d: &Diag| d.issue.starts_with("Using identifier"))
        .map(|d| (d.issue.split('`').nth(1).unwrap().to_owned(), d.line))
        .collect()
}

fn run(code: &str) -> String {
    let mut out = Vec::new();
    exec_using("".as_bytes(), &mut out, &parse(code).unwrap()).unwrap();
    String::from_utf8(out).unwrap()
}

#[test]
fn the_spellings_do_name_the_same_variable() {
    // premise (passes): for rrss these spellings are one and the same name
    assert_eq!(run("Let X be 5\nShout x\n"), "5\n");
    assert_eq!(run("Let The World be 7\nShout the world\nShout THE WORLD\n"), "7\n7\n");
    assert_eq!(run("Let Tommy Gun be 1\nShout TOMMY GUN\n"), "1\n");
}

#[test]
fn control_same_case_is_reported() {
    // passes: same rule, same programs, same case
    assert_eq!(repeats("Let X be 5\nShout X\n"), [("X".to_owned(), 2)]);
    assert_eq!(repeats("Let x be 5\nShout y\n"), []);
}

#[test]
fn simple_name_repeated_in_other_case_is_reported() {
    // the mention on line 2 spells the same name as the previous mention (line 1)
    assert_eq!(repeats("Let X be 5\nShout x\n"), [("x".to_owned(), 2)]);
}

#[test]
fn every_repeat_in_a_mixed_case_run_is_reported() {
    // X, x, X, X: mentions 2, 3 and 4 each repeat the mention before them
    assert_eq!(
        repeats("Let X be 5\nShout x\nShout X\nShout X\n"),
        [("x".to_owned(), 2), ("X".to_owned(), 3), ("X".to_owned(), 4)]
    );
}

#[test]
fn common_name_repeated_in_other_case_is_reported() {
    assert_eq!(
        repeats("Let The World be 7\nShout the world\n"),
        [("the world".to_owned(), 2)]
    );
}

#[test]
fn proper_name_repeated_in_other_case_is_reported() {
    assert_eq!(
        repeats("Let Tommy Gun be 1\nShout TOMMY GUN\n"),
        [("TOMMY GUN".to_owned(), 2)]
    );
}

#[test]
fn parameter_repeated_in_other_case_is_reported() {
    // `Midnight takes Hate` / `Give back hate`: parameter then its first use
    assert_eq!(
        repeats("Midnight takes Hate\nGive back hate\n"),
        [("hate".to_owned(), 2)]
    );
}
