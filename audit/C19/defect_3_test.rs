// C19 defect 3: `rrss lint FILE` panics (exit status 101, "failed printing to stdout") when its
// standard output cannot take the report: a reader that went away (`rrss lint big.rock | head -1`)
// or a full device (`> /dev/full`).  The report is written with `print!` in cli::dump_output,
// which panics on any write error.
//
// Copy to /tmp/hunt_C19/tests/ and run
//   cargo test --offline --test defect_3_test
use std::{
    fs::{self, File},
    process::{Command, Stdio},
};

fn rock_file(name: &str, terms: usize) -> std::path::PathBuf {
    // one legal line, `terms` repeated mentions => `terms - 1` diagnostics (~120 bytes each)
    let path = std::env::temp_dir().join(name);
    fs::write(&path, format!("Say X{}\n", " plus Y".repeat(terms))).unwrap();
    path
}

#[test]
fn lint_does_not_panic_when_the_reader_of_its_report_goes_away() {
    let path = rock_file("hunt_c19_defect3_pipe.rock", 2000); // ~240 kB report > 64 kB pipe buffer
    let mut child = Command::new(env!("CARGO_BIN_EXE_rrss"))
        .arg("lint")
        .arg(&path)
        .stdout(Stdio::piped())
        .stderr(Stdio::piped())
        .spawn()
        .unwrap();
    drop(child.stdout.take()); // like `| head -1` exiting early
    let out = child.wait_with_output().unwrap();
    let stderr = String::from_utf8_lossy(&out.stderr);
    assert!(
        !stderr.contains("panicked") && out.status.code() != Some(101),
        "lint panicked: status {:?}, stderr: {}",
        out.status.code(),
        stderr
    );
}

#[test]
fn lint_does_not_panic_when_stdout_is_full() {
    let path = rock_file("hunt_c19_defect3_full.rock", 3);
    let out = Command::new(env!("CARGO_BIN_EXE_rrss"))
        .arg("lint")
        .arg(&path)
        .stdout(Stdio::from(File::create("/dev/full").unwrap()))
        .stderr(Stdio::piped())
        .output()
        .unwrap();
    let stderr = String::from_utf8_lossy(&out.stderr);
    assert!(
        !stderr.contains("panicked") && out.status.code() != Some(101),
        "lint panicked: status {:?}, stderr: {}",
        out.status.code(),
        stderr
    );
}
