// C19 defect 2: Linter::run throws away the whole report when any pass returns Err(()).
//
// `Pass` is a public trait (`VisitProgram<Output = ListBuilder<Diag>, Error = ()>`) and
// `Linter::new` accepts any `Vec<Box<dyn Pass>>`, so a pass is allowed to fail.  Linter::run
// folds the passes with `combine_all(..)` (which stops at the first Err) and then calls
// `.unwrap_or_default()`, so one failing pass
//   * discards the diagnostics the earlier passes already produced,
//   * prevents the later passes from running at all,
//   * and is reported to the caller as "no lint issues" - the failure is invisible.
// The statement demands that linting never fails and that the result contains the diagnostics
// of all passes.
//
// Copy to /tmp/hunt_C19/tests/ and run
//   cargo test --offline --test defect_2_test
use rrss::{
    analysis::visit::{self, Visit, VisitProgram},
    frontend::{ast::Program, parser::parse},
    linter::{passes::*, standard_linter, Diag, Linter, ListBuilder, Pass},
};

/// A third-party pass that gives up (e.g. it met a construct it does not understand).
struct GivesUp;
impl Visit for GivesUp {
    type Output = ListBuilder<Diag>;
    type Error = ();
}
impl VisitProgram for GivesUp {
    fn visit_program(&mut self, _: &Program) -> visit::Result<Self> {
        Err(())
    }
}
impl Pass for GivesUp {}

const CODE: &str = "Let X be 5\nShout X\n";

#[test]
fn control_standard_passes_report_two_issues() {
    // passes
    let program = parse(CODE).unwrap();
    assert_eq!(standard_linter().run(&program).diags.len(), 2);
}

#[test]
fn failing_pass_last_keeps_the_diagnostics_of_the_other_passes() {
    let program = parse(CODE).unwrap();
    let expected = standard_linter().run(&program).diags;
    let mut linter = Linter::new(vec![
        Box::new(BoringAssignmentPass),
        Box::new(MissedPronounPass::new()),
        Box::new(GivesUp),
    ]);
    // observed: []  (both diagnostics already computed are dropped)
    assert_eq!(linter.run(&program).diags, expected);
}

#[test]
fn failing_pass_first_does_not_stop_the_other_passes() {
    let program = parse(CODE).unwrap();
    let expected = standard_linter().run(&program).diags;
    let mut linter = Linter::new(vec![
        Box::new(GivesUp),
        Box::new(BoringAssignmentPass),
        Box::new(MissedPronounPass::new()),
    ]);
    // observed: []  (the two standard passes are never run)
    assert_eq!(linter.run(&program).diags, expected);
}
