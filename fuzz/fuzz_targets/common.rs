// Shared by the fuzz targets: a panic hook that lets the logical-fuel panics of the verif hooks
// (non-terminating inputs are outside the properties' quantifiers for exec; for parse they ARE a
// finding and abort) pass as ordinary unwinds, and aborts on everything else like libFuzzer's own hook.

use std::sync::Once;

static HOOK: Once = Once::new();

pub fn install_hook(fuel_is_a_crash: bool) {
    HOOK.call_once(|| {
        std::panic::set_hook(Box::new(move |info| {
            let msg = if let Some(s) = info.payload().downcast_ref::<&str>() {
                s.to_string()
            } else if let Some(s) = info.payload().downcast_ref::<String>() {
                s.clone()
            } else {
                String::new()
            };
            let resource = msg.contains("capacity overflow") || msg.contains("memory allocation");
            let fuel = msg.contains(rrss::verif::FUEL_PANIC);
            if resource || (fuel && !fuel_is_a_crash) {
                return; // unwinds into catch_unwind in the target
            }
            eprintln!("panic: {} at {:?}", msg, info.location().map(|l| format!("{}:{}", l.file(), l.line())));
            std::process::abort();
        }));
    });
}
