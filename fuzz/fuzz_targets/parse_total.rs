#![no_main]
// C01 workload amplifier: any UTF-8 text must parse to Ok or to an Err that renders, within 1000
// lexer steps per byte (H4). ASan (libFuzzer default) sees out-of-bounds reads; the H1 monitor is
// passive here. Every artifact is re-run through `vcheck file C01` — the verdict comes from there.
use libfuzzer_sys::fuzz_target;
mod common;

fuzz_target!(|data: &[u8]| {
    common::install_hook(true);
    if data.len() > 4096 {
        return;
    }
    if let Ok(s) = std::str::from_utf8(data) {
        rrss::verif::arm_lex(1000 * (s.len() as u64 + 16));
        let r = std::panic::catch_unwind(|| {
            if let Err(e) = rrss::frontend::parser::parse(s) {
                let _ = e.to_string();
            }
        });
        rrss::verif::arm_lex(u64::MAX);
        let _ = r;
    }
});
