#![no_main]
// C09 workload amplifier: parse; if accepted, execute with statement/loop fuel and a fixed stdin;
// the result must be Ok or an Err that renders. Fuel exhaustion and allocation failures are not
// findings (outside "modest resource bounds"). Every artifact is re-run through `vcheck file C09`.
use libfuzzer_sys::fuzz_target;
mod common;

struct Sink(usize);
impl std::io::Write for Sink {
    fn write(&mut self, b: &[u8]) -> std::io::Result<usize> {
        self.0 += b.len();
        if self.0 > 1 << 22 {
            return Err(std::io::Error::new(std::io::ErrorKind::Other, "output limit"));
        }
        Ok(b.len())
    }
    fn flush(&mut self) -> std::io::Result<()> {
        Ok(())
    }
}

fuzz_target!(|data: &[u8]| {
    common::install_hook(false);
    if data.len() > 2048 {
        return;
    }
    if let Ok(s) = std::str::from_utf8(data) {
        // keep the obviously unbounded things out: huge literals drive repeat counts and indices
        if s.contains("e3") || s.contains("e2") || s.contains("e1") || s.contains("E") || s.bytes().filter(|b| b.is_ascii_digit()).count() > 40 {
            return;
        }
        rrss::verif::arm_lex(1000 * (s.len() as u64 + 16));
        let parsed = std::panic::catch_unwind(|| rrss::frontend::parser::parse(s).ok());
        rrss::verif::arm_lex(u64::MAX);
        if let Ok(Some(prog)) = parsed {
            rrss::verif::arm_stmt(3_000, false);
            let r = std::panic::catch_unwind(std::panic::AssertUnwindSafe(|| {
                if let Err(e) = rrss::exec::exec_using(std::io::Cursor::new(b"5\nabc\n".to_vec()), Sink(0), &prog) {
                    let _ = e.to_string();
                }
            }));
            rrss::verif::arm_stmt(u64::MAX, false);
            let _ = r;
        }
    }
});
