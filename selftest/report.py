#!/usr/bin/env python3
"""Render selftest/RESULTS.md from selftest/results.jsonl (latest record per mutant wins)."""
import json
import os

ROOT = os.path.dirname(os.path.abspath(__file__))
recs = {}
order = []
for line in open(os.path.join(ROOT, "results.jsonl")):
    if not line.strip():
        continue
    r = json.loads(line)
    if r["name"] not in recs:
        order.append(r["name"])
    recs.setdefault(r["name"], []).append(r)

lines = ["# Monitor validation: which checks fire on which changes", "",
         "Produced by `selftest/run.py` (apply the change to /repo, run the quick tier of the listed checks with the",
         "sanitizer stages skipped, undo the change). `exit 1` = the check printed a VIOLATION; `exit 0` = silent.",
         "Where a change was run more than once (before and after a check was strengthened) every run is listed.", "",
         "| change | what it does | check: exit (time to verdict) - first signature |", "|---|---|---|"]
fired = missed = 0
for name in order:
    runs = recs[name]
    last = runs[-1]
    if last.get("fired"):
        fired += 1
    else:
        missed += 1
    cells = []
    for k, r in enumerate(runs):
        parts = []
        for p, v in r["results"].items():
            sig = (v["signatures"][0] if v["signatures"] else "")[:70]
            parts.append(f"{p}: {v['exit']} ({v['wall_s']}s){' - `' + sig + '`' if sig else ''}")
        tag = "" if len(runs) == 1 else f"run {k + 1} ({r['at']}): "
        cells.append(tag + "; ".join(parts) + (" ERROR " + r["error"] if "error" in r else ""))
    what = (last.get("what") or "").replace("|", "/")[:160]
    lines.append(f"| {'**MISSED** ' if not last.get('fired') else ''}{name} | {what} | {'<br>'.join(cells)} |")
lines += ["", f"Latest run per change: {fired} caught, {missed} not caught (of {fired + missed})."]
open(os.path.join(ROOT, "RESULTS.md"), "w").write("\n".join(lines) + "\n")
print(f"{fired} caught, {missed} missed")
