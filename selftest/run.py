#!/usr/bin/env python3
"""Monitor validation: apply each mutant to /repo, run the quick checks of the properties it is
meant to break, record fired / not fired and the time to detect, undo the mutant.

  selftest/run.py [--filter SUBSTR] [--list FILE.jsonl ...] [--all-props]

Results are appended to selftest/results.jsonl; `selftest/report.py` renders RESULTS.md.
/repo is always restored (git checkout -- .) after each mutant, also on errors."""
import json
import os
import re
import subprocess
import sys
import time

ROOT = os.path.dirname(os.path.abspath(__file__))
VERIF = os.path.dirname(ROOT)
MUT = os.path.join(ROOT, "mutants")


def sh(cmd, **kw):
    return subprocess.run(cmd, shell=isinstance(cmd, str), capture_output=True, text=True, **kw)


def main():
    args = sys.argv[1:]
    flt = None
    lists = []
    all_props = False
    i = 0
    while i < len(args):
        if args[i] == "--filter":
            flt = args[i + 1]
            i += 2
        elif args[i] == "--list":
            lists.append(args[i + 1])
            i += 2
        elif args[i] == "--all-props":
            all_props = True
            i += 1
        else:
            i += 1
    if not lists:
        lists = [os.path.join(MUT, f) for f in sorted(os.listdir(MUT)) if f.endswith(".jsonl")]
    entries = []
    for l in lists:
        for line in open(l):
            if line.strip():
                entries.append(json.loads(line))
    if flt:
        entries = [e for e in entries if flt in e["name"]]
    assert sh("git -C /repo status --porcelain").stdout.strip() == "", "/repo is not clean"
    env = dict(os.environ)
    env["VERIF_NO_SANITIZERS"] = env.get("VERIF_NO_SANITIZERS", "1")
    env["RUST_BACKTRACE"] = "0"
    for e in entries:
        diff = e.get("diff") or os.path.join(MUT, e["name"] + ".diff")
        props = sorted(propcfg_all()) if all_props else e["props"].split(",")
        rec = dict(name=e["name"], what=e.get("what", ""), at=time.strftime("%Y-%m-%dT%H:%M:%S"), results={})
        try:
            r = sh(["git", "-C", "/repo", "apply", diff])
            if r.returncode != 0:
                rec["error"] = "patch does not apply: " + r.stderr[-300:]
                print(json.dumps(rec), flush=True)
                continue
            for p in props:
                t0 = time.time()
                r = sh(["./check", p, "quick"], cwd=VERIF, env=env, timeout=3600)
                sigs = re.findall(r"signature: (.*?)\s+\(x\d+\)", r.stderr)
                rec["results"][p] = dict(exit=r.returncode, wall_s=round(time.time() - t0, 1), signatures=sigs[:6],
                                         tail=(r.stdout.strip().splitlines() or [""])[-1][:300])
        except Exception as ex:  # noqa
            rec["error"] = repr(ex)
        finally:
            sh("git -C /repo checkout -- .")
        rec["fired"] = any(v["exit"] == 1 for v in rec["results"].values())
        with open(os.path.join(ROOT, "results.jsonl"), "a") as f:
            f.write(json.dumps(rec) + "\n")
        print(f"{'FIRED ' if rec['fired'] else 'MISSED'} {e['name']:45s} " + " ".join(
            f"{p}:{v['exit']}({v['wall_s']}s)" for p, v in rec["results"].items()) + (" ERROR " + rec.get("error", "") if "error" in rec else ""),
            flush=True)


def propcfg_all():
    sys.path.insert(0, os.path.join(VERIF, "driver"))
    import propcfg
    return list(propcfg.PROPS)


if __name__ == "__main__":
    main()
