#!/usr/bin/env python3
"""Monitor validation: apply each mutant to /repo, run the quick checks of the properties it is
meant to break, record fired / not fired and the time to detect, undo the mutant.

  selftest/run.py [--filter SUBSTR] [--list FILE.jsonl ...] [--all-props] [--repo DIR]

Results are appended to selftest/results.jsonl; `selftest/report.py` renders RESULTS.md.
The tree is always restored (git checkout -- .) after each mutant, also on errors.
With `--repo DIR` (a scratch `git worktree` of /repo outside /repo and /verif) the mutants are applied there
and the checks are pointed at it through VERIF_REPO, so /repo, /verif/evidence and /verif/target are not
touched and other runs can go on meanwhile; without it the mutants are applied to /repo itself."""
import json
import os
import re
import subprocess
import sys
import time

ROOT = os.path.dirname(os.path.abspath(__file__))
VERIF = os.path.dirname(ROOT)
MUT = os.path.join(ROOT, "mutants")


def sh(cmd, **kw):
    return subprocess.run(cmd, shell=isinstance(cmd, str), capture_output=True, text=True, **kw)


def main():
    args = sys.argv[1:]
    flt = None
    lists = []
    all_props = False
    repo = "/repo"
    i = 0
    while i < len(args):
        if args[i] == "--filter":
            flt = args[i + 1]
            i += 2
        elif args[i] == "--list":
            lists.append(args[i + 1])
            i += 2
        elif args[i] == "--repo":
            repo = os.path.abspath(args[i + 1])
            i += 2
        elif args[i] == "--all-props":
            all_props = True
            i += 1
        else:
            i += 1
    if not lists:
        lists = [os.path.join(MUT, f) for f in sorted(os.listdir(MUT)) if f.endswith(".jsonl")]
    entries = []
    for l in lists:
        for line in open(l):
            if line.strip():
                entries.append(json.loads(line))
    if flt:
        entries = [e for e in entries if flt in e["name"]]
    if repo != "/repo":
        head = sh("git -C /repo rev-parse HEAD").stdout.strip()
        if not os.path.exists(repo):
            assert sh(["git", "-C", "/repo", "worktree", "add", "-q", "--detach", repo, head]).returncode == 0
        sh(["git", "-C", repo, "checkout", "-q", "--detach", head])
        sh(["git", "-C", repo, "checkout", "-q", "--", "."])
    assert sh(["git", "-C", repo, "status", "--porcelain"]).stdout.strip() == "", repo + " is not clean"
    env = dict(os.environ)
    env["VERIF_NO_SANITIZERS"] = env.get("VERIF_NO_SANITIZERS", "1")
    env["RUST_BACKTRACE"] = "0"
    if repo != "/repo":
        env["VERIF_REPO"] = repo
    for e in entries:
        diff = e.get("diff") or os.path.join(MUT, e["name"] + ".diff")
        props = sorted(propcfg_all()) if all_props else e["props"].split(",")
        rec = dict(name=e["name"], what=e.get("what", ""), at=time.strftime("%Y-%m-%dT%H:%M:%S"), results={})
        try:
            r = sh(["git", "-C", repo, "apply", diff])
            if r.returncode != 0:
                rec["error"] = "patch does not apply: " + r.stderr[-300:]
                print(json.dumps(rec), flush=True)
                continue
            for p in props:
                t0 = time.time()
                r = sh(["./check", p, "quick"], cwd=VERIF, env=env, timeout=3600)
                sigs = re.findall(r"signature: (.*?)\s+\(x\d+\)", r.stderr)
                rec["results"][p] = dict(exit=r.returncode, wall_s=round(time.time() - t0, 1), signatures=sigs[:6],
                                         tail=(r.stdout.strip().splitlines() or [""])[-1][:300])
        except Exception as ex:  # noqa
            rec["error"] = repr(ex)
        finally:
            sh(["git", "-C", repo, "checkout", "--", "."])
        rec["fired"] = any(v["exit"] == 1 for v in rec["results"].values())
        with open(os.path.join(ROOT, "results.jsonl"), "a") as f:
            f.write(json.dumps(rec) + "\n")
        print(f"{'FIRED ' if rec['fired'] else 'MISSED'} {e['name']:45s} " + " ".join(
            f"{p}:{v['exit']}({v['wall_s']}s)" for p, v in rec["results"].items()) + (" ERROR " + rec.get("error", "") if "error" in rec else ""),
            flush=True)


def propcfg_all():
    sys.path.insert(0, os.path.join(VERIF, "driver"))
    import propcfg
    return list(propcfg.PROPS)


if __name__ == "__main__":
    main()
