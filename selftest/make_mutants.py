#!/usr/bin/env python3
"""Generate the hand-written self-test mutants as patch files (selftest/mutants/*.diff).

Each mutant is a small, realistic change to rrss given as (file, old text, new text). The diff is
produced against /repo's HEAD in a scratch copy under /tmp (removed afterwards)."""
import json
import os
import shutil
import subprocess
import sys
import tempfile

ROOT = os.path.dirname(os.path.abspath(__file__))
OUT = os.path.join(ROOT, "mutants")

M = []


def m(name, props, what, file, old, new):
    M.append(dict(name=name, props=props, what=what, edits=[(file, old, new)]))


# ------------------------------------------------------------------ C01
m("c01_error_token_len", "C01", "make_error_token length off by one (runs past the word)",
  "src/frontend/lexer.rs",
  "token: self.make_token_from(start, end - start, TokenType::Error(error)),",
  "token: self.make_token_from(start, end - start + 1, TokenType::Error(error)),")
# ------------------------------------------------------------------ C02
m("c02_drop_alias_between", "C02", "alias `between` removed from the keyword table",
  "src/frontend/lexer.rs", 'alias(TokenType::Divide, &["over", "between"]);', 'alias(TokenType::Divide, &["over"]);')
m("c02_drop_alias_aint", "C02", "alias `aint` removed",
  "src/frontend/lexer.rs", '"isnt", "isn\'t", "aint", "ain\'t",', '"isnt", "isn\'t", "ain\'t",')
m("c02_comma_and_not_consumed", "C02", "`, and` separator in list operands no longer accepted",
  "src/frontend/parser.rs",
  """                .map(|_| {
                    self.match_and_consume(TokenType::And);
                    next(self)
                })""",
  """                .map(|_| next(self))""")
m("c02_function_not_terminated_by_if_else", "C02", "an if/else no longer ends a function body",
  "src/frontend/parser.rs",
  """                let at_end = is_function_terminator(&s);""",
  """                let at_end = false && is_function_terminator(&s);""")
m("c02_n_separator_dropped", "C02", "`'n'` no longer a parameter separator",
  "src/frontend/parser.rs",
  """            TokenType::Comma,
            TokenType::ApostropheNApostrophe,
        ]""",
  """            TokenType::Comma,
            TokenType::Comma,
        ]""")
m("c02_suffix_re_mixed_case", "C02", "the mixed-case 're suffix ('Re) is no longer split off a word",
  "src/frontend/lexer.rs",
  """                    .or_else(|| word.strip_suffix("'Re"))
""", "")
# ------------------------------------------------------------------ C03
m("c03_plus_number_null_cell", "C03", "`number plus null` cell dropped from plus_coerced",
  "src/exec/val.rs",
  """            (Val::Null, Val::Number(_)) => (Cow::Owned(Val::Number(0.0)), Cow::Borrowed(other)),
            (Val::Number(_), Val::Null) => (Cow::Borrowed(self), Cow::Owned(Val::Number(0.0))),

            (Val::Array(_), _) => (self.decay(), other.decay()),
            (_, Val::Array(_)) => (self.decay(), other.decay()),

            _ => (Cow::Borrowed(self), Cow::Borrowed(other)),
        }
    }

    pub fn plus(""",
  """            (Val::Null, Val::Number(_)) => (Cow::Owned(Val::Number(0.0)), Cow::Borrowed(other)),

            (Val::Array(_), _) => (self.decay(), other.decay()),
            (_, Val::Array(_)) => (self.decay(), other.decay()),

            _ => (Cow::Borrowed(self), Cow::Borrowed(other)),
        }
    }

    pub fn plus(""")
m("c03_nor_as_not_a_or_not_b", "C03,C14", "`nor` computed as !a || !b",
  "src/exec/produce_val.rs",
  "BinaryOperator::Nor => Ok(Val::Boolean(!a.is_truthy() && !b(this)?.is_truthy())),",
  "BinaryOperator::Nor => Ok(Val::Boolean(!a.is_truthy() || !b(this)?.is_truthy())),")
m("c03_eager_or", "C03", "`or` evaluates its right operand eagerly",
  "src/exec/produce_val.rs",
  "BinaryOperator::Or => Ok(Val::Boolean(a.is_truthy() || b(this)?.is_truthy())),",
  "BinaryOperator::Or => {\n                let bv = b(this)?.is_truthy();\n                Ok(Val::Boolean(a.is_truthy() || bv))\n            }")
m("c03_repeat_count_rounded", "C03", "string repetition rounds the count instead of truncating",
  "src/exec/val.rs", "repeat_n(a.chars(), *b as usize)", "repeat_n(a.chars(), b.round() as usize)")
m("c03_null_string_equality", "C03,C14", "null vs string no longer compares with the empty string (one direction only)",
  "src/exec/val.rs",
  "                    Val::Null => Some((Cow::Borrowed(self), Cow::Owned(Val::from(String::new())))),\n",
  "")
# ------------------------------------------------------------------ C04
m("c04_breaking_not_reset", "C04", "`break` leaves the state Breaking (leaves two loops)",
  "src/exec/exec_stmt.rs",
  """                ControlFlowState::Breaking => {
                    self.control_flow_state = ControlFlowState::Normal;
                    break;
                }""",
  """                ControlFlowState::Breaking => {
                    break;
                }""")
m("c04_continue_not_skipping", "C04", "statements after `continue` in the same block still run",
  "src/exec/exec_stmt.rs",
  """            ControlFlowState::Continuing => true,
            ControlFlowState::Returning => true,""",
  """            ControlFlowState::Continuing => false,
            ControlFlowState::Returning => true,""")
m("c04_continuing_not_reset", "C04", "`continue` state survives into the next iteration",
  "src/exec/exec_stmt.rs",
  "                ControlFlowState::Continuing => self.control_flow_state = ControlFlowState::Normal,",
  "                ControlFlowState::Continuing => {}")
# ------------------------------------------------------------------ C05
m("c05_pop_scope_keeps_pronoun", "C05", "pop_scope no longer clears the pronoun referent",
  "src/exec/environment.rs",
  "        self.symbols.pop();\n        self.last_access = None;", "        self.symbols.pop();")
m("c05_arguments_reversed", "C05", "arguments bound to parameters in reverse order",
  "src/exec/produce_val.rs", ".zip(args.into_iter()))?;", ".zip(args.into_iter().rev()))?;")
m("c05_create_in_outermost", "C05", "new variables are created in the outermost scope",
  "src/exec/environment.rs",
  """        self.last_access = Some(name.clone());
        self.symbols
            .last_mut()
            .unwrap()
            .emplace_var(name)""",
  """        self.last_access = Some(name.clone());
        self.symbols
            .first_mut()
            .unwrap()
            .emplace_var(name)""")
m("c05_arity_less_than", "C05", "arity check only rejects too many arguments",
  "src/exec/produce_val.rs", "if data.params.len() != f.args.len() {", "if data.params.len() < f.args.len() {")
m("c05_scope_leak_on_return_in_if", "C05", "returning from inside an if skips the scope pop",
  "src/exec/exec_stmt.rs",
  """            self.env.borrow_mut().push_scope();
            self.visit_block(block)?;
            self.env.borrow_mut().pop_scope();
        }
        Ok(())
    }

    fn visit_while""",
  """            self.env.borrow_mut().push_scope();
            self.visit_block(block)?;
            if self.control_flow_state.is_returning() {
                return Ok(());
            }
            self.env.borrow_mut().pop_scope();
        }
        Ok(())
    }

    fn visit_while""")
m("c05_lookup_var_mut_skips_pronoun_update", "C05", "writing a variable no longer makes it the pronoun referent",
  "src/exec/environment.rs",
  """    pub fn lookup_var_mut(&mut self, name: &VariableName) -> Result<&mut Val, EnvironmentError> {
        self.last_access = Some(name.clone());
        self.lookup_var_mut_impl(name)""",
  """    pub fn lookup_var_mut(&mut self, name: &VariableName) -> Result<&mut Val, EnvironmentError> {
        self.lookup_var_mut_impl(name)""")
# ------------------------------------------------------------------ C06
m("c06_resize_to_i", "C06,C09", "array extended to i instead of i+1 elements",
  "src/exec/val.rs", "self.arr.resize_with(i + 1, Default::default);", "self.arr.resize_with(i, Default::default);")
m("c06_pop_back", "C06", "roll takes the last element",
  "src/exec/val.rs", "self.arr.pop_front().unwrap_or(Val::Undefined)", "self.arr.pop_back().unwrap_or(Val::Undefined)")
m("c06_len_counts_dictionary", "C06", "array length includes dictionary entries",
  "src/exec/val.rs", "    fn len(&self) -> usize {\n        self.arr.len()\n    }", "    fn len(&self) -> usize {\n        self.arr.len() + self.dict.len()\n    }")
m("c06_array_coerce_drops_scalar", "C06", "rock on a scalar forgets the scalar",
  "src/exec/val.rs", "        if !old.is_undefined() {\n            match self {", "        if !old.is_undefined() && !old.is_number() {\n            match self {")
m("c06_null_key_is_mysterious_key", "C06", "reading with key null looks under key mysterious",
  "src/exec/val.rs", "            Val::Null => Ok(self.index_dict(&DictKeyRef::Null)),", "            Val::Null => Ok(self.index_dict(&DictKeyRef::Undefined)),")
# ------------------------------------------------------------------ C07
m("c07_split_terminator", "C07", "cut drops a trailing empty piece",
  "src/exec/val.rs", "s.split(delim).map(Val::from).collect()", "s.split_terminator(delim).map(Val::from).collect()")
m("c07_round_half_even", "C07", "turn round uses banker's rounding",
  "src/exec/val.rs", "                *f = f.round();", "                *f = f.round_ties_even();")
m("c07_radix_upper_bound", "C07", "radix 36 rejected",
  "src/exec/val.rs", "if !(2..=36).contains(&radix) {", "if !(2..36).contains(&radix) {")
m("c07_cast_into_overwrites_operand", "C07", "cast ... into also replaces the operand",
  "src/exec/exec_stmt.rs",
  """            let mut val = self.producer().visit_primary_expression(&m.operand)?.0;
            mutate(&mut val, param)?;
            self.writer(val).visit_assignment_lhs(dest).unwrap().0?;
            Ok(())""",
  """            let mut val = self.producer().visit_primary_expression(&m.operand)?.0;
            mutate(&mut val, param)?;
            if let PrimaryExpression::Identifier(_) = &m.operand {
                let _ = self.writer(val.clone()).visit_primary_expression(&m.operand);
            }
            self.writer(val).visit_assignment_lhs(dest).unwrap().0?;
            Ok(())""")
# ------------------------------------------------------------------ C08
m("c08_trim_end_on_input", "C08", "listen trims all trailing white space",
  "src/exec/environment.rs",
  "        if buf.ends_with('\\n') {\n            buf.pop();\n        }\n        Ok(buf)", "        Ok(buf.trim_end().to_string())")
m("c08_listen_without_target_does_not_consume", "C08", "`listen` without a destination reads nothing",
  "src/exec/exec_stmt.rs",
  """        let input = self.env.borrow_mut().input()?;
        match &i.dest {
            InputDest::Some(dest) => {""",
  """        match &i.dest {
            InputDest::Some(dest) => {
                let input = self.env.borrow_mut().input()?;""")
m("c08_output_error_ignored", "C08", "write errors are swallowed",
  "src/exec/environment.rs",
  """        writeln!(self.output_buf, "{}", text)
            .map(|_| ())
            .map_err(|e| EnvironmentError::IOError(e.to_string()))""",
  """        let _ = writeln!(self.output_buf, "{}", text);
        Ok(())""")
m("c08_strip_cr", "C08", "listen also strips a carriage return",
  "src/exec/environment.rs",
  "        if buf.ends_with('\\n') {\n            buf.pop();\n        }", "        if buf.ends_with('\\n') {\n            buf.pop();\n            if buf.ends_with('\\r') {\n                buf.pop();\n            }\n        }")
# ------------------------------------------------------------------ C09
m("c09_unwrap_on_function_lookup", "C09,C05", "function lookup unwrapped",
  "src/exec/produce_val.rs", "let data = self.env.borrow().lookup_func(&f.name.0)?;", "let data = self.env.borrow().lookup_func(&f.name.0).unwrap();")
m("c09_index_string_unchecked", "C09", "string indexing by slicing bytes",
  "src/exec/val.rs", "    s.chars().nth(i).map_or(Val::Undefined, Val::from)", "    if i < s.len() { Val::from(&s[i..i + 1]) } else { Val::Undefined }")
# ------------------------------------------------------------------ C10
m("c10_unsorted_display", "C10", "dictionary part printed in hash order in error messages",
  "src/exec/val/display.rs", "                        .map(|(k, v)| format!(\"{}: {}\", k, v))\n                        .sorted_unstable()", "                        .map(|(k, v)| format!(\"{}: {}\", k, v))")
# ------------------------------------------------------------------ C11
m("c11_count_apostrophes", "C11", "apostrophes counted as letters",
  "src/frontend/ast.rs", "        s.chars().filter(|c| *c != '\\'').count()", "        s.chars().count()")
m("c11_no_mod_10", "C11", "word lengths not reduced modulo 10",
  "src/frontend/ast.rs", "                (length % 10) as f64 * Self::ten_to_the(exponent - idx as i32)", "                length.min(9) as f64 * Self::ten_to_the(exponent - idx as i32)")
m("c11_hyphen_word_not_counted", "C11", "the hyphen of a hyphenated part is not counted",
  "src/frontend/parser.rs", '                            "-".to_owned() + next_token.spelling,', "                            next_token.spelling.to_owned(),")
# ------------------------------------------------------------------ C12
m("c12_newline_line_start", "C12", "line start after a newline off by one",
  "src/frontend/lexer.rs", "                new_line_start: Some(end as u32),\n            },\n            _ => LexResult {", "                new_line_start: Some(start as u32),\n            },\n            _ => LexResult {")
m("c12_multiline_end_column", "C12", "end of a multi-line token computed against the old line start",
  "src/frontend/lexer.rs", "        let current_line_start = new_line_start.unwrap_or(self.line_start);", "        let current_line_start = self.line_start.min(new_line_start.unwrap_or(self.line_start));")
# ------------------------------------------------------------------ C13
m("c13_eol_not_enforced_after_say", "C13", "trailing tokens after an expression statement ignored up to the line end",
  "src/frontend/parser.rs",
  """    fn expect_eol(&mut self) -> Result<(), ParseError<'a>> {
        self.match_and_consume([TokenType::Comma, TokenType::Dot].as_ref());""",
  """    fn expect_eol(&mut self) -> Result<(), ParseError<'a>> {
        self.match_and_consume([TokenType::Comma, TokenType::Dot].as_ref());
        self.match_and_consume(TokenType::Back);""")
m("c13_error_line_of_next_token", "C13", "errors at a newline are attributed to the following line",
  "src/frontend/parser/display.rs",
  "            ParseErrorLocation::Token(tok) => tok.range.start().line,", "            ParseErrorLocation::Token(tok) => tok.range.end().line,")
# ------------------------------------------------------------------ C14
m("c14_isnt_on_raw_equality", "C14,C03", "`isnt` uses structural instead of coerced equality",
  "src/exec/produce_val.rs", "BinaryOperator::NotEq => Ok(Val::Boolean(!a.equals(&b(this)?))),", "BinaryOperator::NotEq => Ok(Val::Boolean(a != b(this)?)),")
m("c14_boolean_build_ignores_parity", "C14,C03", "building a boolean always flips it",
  "src/exec/val.rs", "                *b ^= x % 2 != 0;", "                *b = !*b;")
m("c14_greater_eq_on_no_order", "C14,C03", ">= true when there is no ordering (NaN)",
  "src/exec/produce_val.rs",
  """                a.compare(&b(this)?)?
                    .map(|o| o != Ordering::Less)
                    .unwrap_or(false),""",
  """                a.compare(&b(this)?)?
                    .map(|o| o != Ordering::Less)
                    .unwrap_or(true),""")
# ------------------------------------------------------------------ C15
m("c15_common_prefix_case_sensitive", "C15", "the prefix of a common name compared with its case",
  "src/exec/sym_table.rs",
  """                Lowercased::New(Self(
                    self.0.chars().map(|c| c.to_lowercase()).flatten().collect(),
                    self.1.chars().map(|c| c.to_lowercase()).flatten().collect(),
                ))""",
  """                Lowercased::New(Self(
                    self.0.clone(),
                    self.1.chars().map(|c| c.to_lowercase()).flatten().collect(),
                ))""")
m("c15_proper_only_first_word_folded", "C15", "only the first word of a proper name is case-folded",
  "src/exec/sym_table.rs",
  """                    self.0
                        .iter()
                        .map(|s| {
                            s.chars()
                                .map(|c| c.to_lowercase())
                                .flatten()
                                .collect::<String>()
                        })
                        .collect(),""",
  """                    self.0
                        .iter()
                        .enumerate()
                        .map(|(i, s)| {
                            if i > 0 {
                                return s.clone();
                            }
                            s.chars()
                                .map(|c| c.to_lowercase())
                                .flatten()
                                .collect::<String>()
                        })
                        .collect(),""")
# ------------------------------------------------------------------ C16
m("c16_mutation_param_skipped", "C16", "the `with` parameter of a mutation is not visited",
  "src/analysis/visit.rs",
  """            .combine(
                m.param
                    .as_ref()
                    .map_or_else(|| leaf(()), |param| self.visit_expression(param))?,
            ))""",
  """            )""")
m("c16_function_params_skipped", "C16,C19", "function parameters are not visited",
  "src/analysis/visit.rs",
  """        Ok(combine_all(
            f.params
                .iter()
                .map(|p| self.visit_variable_name(p.as_ref())),
        )?
        .combine(self.visit_block(&f.body)?))""",
  """        self.visit_block(&f.body)""")
m("c16_list_tail_reversed", "C16", "list tails are visited in reverse",
  "src/analysis/visit.rs",
  "                .chain(e.rest.iter().map(|e| self.visit_expression(e))),", "                .chain(e.rest.iter().rev().map(|e| self.visit_expression(e))),")
m("c16_else_skipped_in_default_program_visitor", "C16", "default VisitProgram::visit_if forgets the else block",
  "src/analysis/visit.rs",
  """    fn visit_if(&mut self, i: &If) -> Result<Self> {
        Ok(self.visit_block(&i.then_block)?.combine(
            i.else_block
                .as_ref()
                .map_or_else(|| leaf(()), |b| self.visit_block(b))?,
        ))
    }""",
  """    fn visit_if(&mut self, i: &If) -> Result<Self> {
        self.visit_block(&i.then_block)
    }""")
# ------------------------------------------------------------------ C17
m("c17_folder_minus_swapped", "C17,C18", "constant folder computes b - a",
  "src/analysis/tools.rs", "            BinaryOperator::Minus => b.map(|b| a - b),", "            BinaryOperator::Minus => b.map(|b| b - a),")
m("c17_folder_folds_first_of_list", "C17,C18", "constant folder ignores all but the first list element of an operand",
  "src/analysis/tools.rs",
  """        let mut rhs = iter::once(&e.rhs.first)
            .chain(e.rhs.rest.iter())
            .map(|e| self.visit_expression(e));""",
  """        let mut rhs = iter::once(&e.rhs.first).map(|e| self.visit_expression(e));""")
# ------------------------------------------------------------------ C18
m("c18_no_mod10", "C18", "digit 0 spelled as a zero-letter word",
  "src/linter/passes/boring_assignment.rs", "        match len {\n            0 => 10,\n            _ => len,\n        }", "        len")
m("c18_compound_reported", "C18", "compound assignments are reported too",
  "src/linter/passes/boring_assignment.rs", "        Ok(if a.operator.is_some() {", "        Ok(if false && a.operator.is_some() {")
m("c18_line_of_target", "C18", "diagnostic placed on the line of the target instead of the value",
  "src/linter/passes/boring_assignment.rs", "                Ok(x) => build_numeric_diag(&a.dest, x, a.line()),", "                Ok(x) => build_numeric_diag(&a.dest, x, a.dest.line()),")
# ------------------------------------------------------------------ C19
m("c19_unstable_reverse_ties", "C19", "ties on a line come out in reverse pass order",
  "src/linter/mod.rs", "    diags.sort_by_key(|diag| diag.line);", "    diags.reverse();\n    diags.sort_by_key(|diag| diag.line);")
m("c19_in_function_call_not_reset", "C19", "in_function_call stays set after a call",
  "src/linter/passes/missed_pronoun.rs",
  "        let name = self.visit_variable_name(f.name.as_ref());\n        self.in_function_call = false;", "        let name = self.visit_variable_name(f.name.as_ref());\n        self.in_function_call = !f.args.is_empty() && false || f.args.len() > 2;")
m("c19_last_updated_on_match", "C19", "a third repetition in a row is not reported",
  "src/linter/passes/missed_pronoun.rs",
  "        if !is_match {\n            self.last = Some(name.clone());\n        }", "        if !is_match {\n            self.last = Some(name.clone());\n        } else {\n            self.last = None;\n        }")
# ------------------------------------------------------------------ C20
m("c20_error_to_stdout", "C20", "errors printed on standard output",
  "src/cli/mod.rs", "        Err(e) => eprintln!(\"{}\", e),", "        Err(e) => println!(\"{}\", e),")
m("c20_exit_zero_on_missing_file", "C20", "exit status 0 when the file cannot be read",
  "src/lib.rs", "        Err(e) => {\n            eprintln!(\"{}\", e);\n            1\n        }", "        Err(e) => {\n            eprintln!(\"{}\", e);\n            0\n        }")
m("c20_runtime_prefix_dropped", "C20", "runtime errors lose their prefix",
  "src/cli/error.rs", '            "Runtime error: ".red().bold(),', '            "".red().bold(),')
m("c20_lint_skips_suggestions", "C20", "`rrss lint` prints only the first suggestion... here: none",
  "src/cli/linter.rs",
  """                .map(|s| once("\\n\\t".normal()).chain(once(s.normal())))
                .flatten(),""",
  """                .skip(1)
                .map(|s| once("\\n\\t".normal()).chain(once(s.normal())))
                .flatten(),""")


def main():
    os.makedirs(OUT, exist_ok=True)
    tmp = tempfile.mkdtemp(prefix="rrss_mut_")
    try:
        subprocess.run(["git", "-C", "/repo", "worktree", "add", "-q", "--detach", tmp + "/wt", "HEAD"], check=True)
        wt = tmp + "/wt"
        index = []
        for mu in M:
            ok = True
            for file, old, new in mu["edits"]:
                p = os.path.join(wt, file)
                s = open(p, encoding="utf-8").read()
                if s.count(old) != 1:
                    print(f"!! {mu['name']}: old text occurs {s.count(old)} times in {file}", file=sys.stderr)
                    ok = False
                    break
                open(p, "w", encoding="utf-8").write(s.replace(old, new))
            if ok:
                d = subprocess.run(["git", "-C", wt, "diff"], capture_output=True, text=True).stdout
                open(os.path.join(OUT, mu["name"] + ".diff"), "w").write(d)
                index.append(dict(name=mu["name"], props=mu["props"], what=mu["what"]))
            subprocess.run(["git", "-C", wt, "checkout", "-q", "--", "."], check=True)
        with open(os.path.join(OUT, "handwritten.jsonl"), "w") as f:
            for e in index:
                f.write(json.dumps(e) + "\n")
        print(f"{len(index)} of {len(M)} mutants written")
    finally:
        subprocess.run(["git", "-C", "/repo", "worktree", "remove", "--force", tmp + "/wt"])
        shutil.rmtree(tmp, ignore_errors=True)


if __name__ == "__main__":
    main()
