"""Per-property configuration of the driver: stages per tier, evidence texts, required observations."""
import json
import os
import re
import time

TRUST_BASE = [
    "Rust std: f64 arithmetic, str::parse::<f64>, f64 Display, ceil/floor/round, char::to_lowercase",
    "the harness's own alias table / grammar transcription (DESIGN.md Appendix A) is the specification of the surface language",
]


def native(profile, scale=1.0, **kw):
    d = dict(kind="native", profile=profile, builds=[profile], scale=scale, name=f"native:{profile}")
    d.update(kw)
    return d


def custom(fn, builds=(), **kw):
    d = dict(kind="custom", fn=fn, builds=list(builds), name=fn)
    d.update(kw)
    return d


# --------------------------------------------------------------------------- sanitizer stages

def miri_stage(c):
    """Run a small shard set of the same worker under Miri (dev and/or release profile).

    The H1 trap is passive there, so Miri sees the real undefined behaviour."""
    st = c["stage"]
    prop, tier, seed, merged = c["prop"], c["tier"], c["seed"], c["merged"]
    release = st.get("release", True)
    nshards = st.get("shards", c["NCPU"])
    scale = st.get("scale", 1)
    flavour = "miri-rel" if release else "miri-dev"
    outdir = os.path.join(c["outdir"], flavour)
    os.makedirs(outdir, exist_ok=True)
    env = dict(c["ENV"])
    env["MIRIFLAGS"] = "-Zmiri-disable-isolation -Zmiri-ignore-leaks"
    tdir = f"{c['TARGET']}/{flavour}"
    base = ["cargo", "+nightly", "miri", "run", "--offline", "--target-dir", tdir] + (["--release"] if release else [])
    # build once (first run compiles), then shards in parallel
    t0 = time.time()
    warm = base + ["--", "run", "NONE"]
    rc, out, err, to = c["run_proc"](warm, 1200, env=env, cwd=c["HARNESS"])
    c["log"](f"[miri warm-up {flavour}] {time.time() - t0:.0f}s rc={rc}")
    import concurrent.futures as cf

    def one(i):
        cmd = base + ["--", "run", prop, "--tier", tier, "--seed", str(seed), "--shard", str(i), "--nshards",
                      str(nshards), "--profile", flavour, "--out", outdir, "--scale", str(scale), "--passive",
                      "--stage-set", "miri"]
        rc, out, err, to = c["run_proc"](cmd, st.get("watchdog", 1500), env=env, cwd=c["HARNESS"])
        return i, rc, err.decode("utf-8", "replace"), to, cmd

    with cf.ThreadPoolExecutor(max_workers=c["NCPU"]) as ex:
        results = list(ex.map(one, range(nshards)))
    cases = 0
    for i, rc, err, to, cmd in results:
        rep_path = f"{outdir}/shard_{flavour}_{i}.json"
        if to:
            merged.inconclusive["miri_watchdog"] = merged.inconclusive.get("miri_watchdog", 0) + 1
            c["inconclusive"].append(f"miri shard {i} ({flavour}) hit the watchdog")
            continue
        m = re.search(r"error: Undefined Behavior: (.*)", err)
        if m or "error: unsupported operation" in err or (rc != 0 and not os.path.exists(rep_path)):
            if m:
                # first in-repo frame of the report (not of the compiler warnings printed before it)
                tail = err[m.start():]
                frames = re.findall(r"(?:-->|at) (/repo/src/[^\s:]+:\d+)", tail)
                frame = frames[0].replace("/repo/", "") if frames else "?"
                what = re.sub(r"<\d+>|alloc\d+|0x[0-9a-f]+|\d+", "#", m.group(1))[:90]
                sig = f"miri:{flavour}:{what}@{frame}"
                j = None
                try:
                    with open(f"{outdir}/journal_{flavour}_{i}.txt") as f:
                        j = f.readline().split()[:2]
                except Exception:
                    pass
                replay = dict(property=prop, signature=sig, detail=err[-3000:], profile=flavour, tier=tier,
                              seed=seed, stage=j[0] if j else "?", index=int(j[1]) if j else -1, case={},
                              cmd=cmd, env={"MIRIFLAGS": env["MIRIFLAGS"]}, cwd=c["HARNESS"])
                merged.add_violation(sig, err[-1500:], replay)
            else:
                c["inconclusive"].append(f"miri shard {i} ({flavour}) failed without a UB report: rc={rc} {err[-300:]}")
            continue
        if os.path.exists(rep_path):
            with open(rep_path) as f:
                rep = json.load(f)
            cases += rep.get("evaluations", 0)
            merged.add_report(rep, flavour)
            c["merged"].add_hashes(f"{outdir}/shard_{flavour}_{i}.hashes")
            for v in rep.get("violations", []):
                replay = dict(property=prop, signature=v["signature"], detail=v["detail"], profile=flavour, tier=tier,
                              seed=seed, stage=v["stage"], index=v["index"], case=v["case"], cmd=cmd,
                              env={"MIRIFLAGS": env["MIRIFLAGS"]}, cwd=c["HARNESS"])
                merged.add_violation(v["signature"], v["detail"], replay, v.get("count", 1))
    merged.counters[f"sanitizer.{flavour}.cases"] = merged.counters.get(f"sanitizer.{flavour}.cases", 0) + cases


PROPS = {}

PROPS["C01"] = dict(
    level="exploration",
    technique="outcome monitor + H1 unsafe-precondition traps + H4 lexer-step fuel over hostile generated inputs, in debug and release builds; Miri on a sample",
    level_text=("Runtime monitoring of the real lexer/parser on some 10^5 (quick) to 10^7 (thorough) generated hostile inputs per "
                "build profile: a panic, a trapped out-of-bounds slice, Miri-reported UB or exhausted logical fuel is a "
                "violation with a replayable witness. It shows totality on the inputs explored, not for all strings; the "
                "for-all claim is approached through input diversity (every prefix, token mutations, digit/underscore "
                "identifiers at every offset, `else` in every position), which unit tests cannot do."),
    level_note=("Trusted: the harness's catch_unwind outcome monitor, the H1 conditions written next to each unchecked "
                "slice, Miri for the sample it runs. Bounds: depth <= 300, inputs <= 4 KiB."),
    rule=("inputs = token soup over lexical atoms (keywords in any case, identifiers with digits/underscores at "
          "every offset, valid and invalid numbers, all ASCII punctuation, apostrophe forms, balanced and "
          "unbalanced multi-line strings/comments, exotic whitespace, emoji, control characters), rendered valid "
          "programs, their token-level mutants and their prefixes at char boundaries, and nesting shapes up to "
          "depth 300; each input is lexed and parsed under the outcome monitor with the H1 slicing preconditions "
          "trapped and 1000 lexer steps per byte of fuel (H4), in the debug and the release profile. "
          "distinct_nontrivial = distinct input texts (64-bit hash) that lex to at least 2 tokens."),
    require=["parse_ok", "parse_err", "inputs.soup", "inputs.prefix", "inputs.mutant", "inputs.nesting",
             "inputs_with_error_token_at_offset_gt_0", "inputs_with_else_at_statement_start",
             "set:error_codes:10", "set:token_types:70"],
    assumptions=TRUST_BASE + [
        "nesting depth <= 300, soup inputs <= 400 bytes, programs <= 4 KiB (the property's own bound: 'a few hundred levels')",
        "non-termination is decided on a logical clock: more than 1000 lexer steps per input byte (observed maximum is in coverage.maxima)",
    ],
    stages=dict(
        quick=[native("dbg"), native("rel"),
               custom("miri_stage", release=True, shards=16, scale=1, name="miri:release")],
        thorough=[native("dbg"), native("rel"),
                  custom("miri_stage", release=True, shards=16, scale=8, name="miri:release"),
                  custom("miri_stage", release=False, shards=16, scale=8, name="miri:dev")],
    ),
)

PROPS["C02"] = dict(
    level="exploration",
    technique="history + model: generated syntax tree is the expected tree; render under random spellings, parse with rrss, compare trees",
    level_text=("Each generated model tree is rendered under 8 (quick) / 32 (thorough) independent spellings (alias, case, "
                "noise, comments, separators, optional words, number forms, symbolic vs worded operators) and the tree rrss "
                "parses from each text must equal the generated one. Every (keyword class, alias) pair is additionally "
                "forced at least once on a program containing every construct. Held on the pairs explored; the product "
                "of trees and spellings is sampled, alias coverage is complete."),
    level_note=("The alias table and grammar rules in the harness (kw.rs, render.rs, DESIGN.md Appendix A) are the "
                "specification; expressibility restrictions of the generator (greedy calls, unary-only list elements, "
                "if/else last in a function body) bound the tree space."),
    rule=("cases = (model tree, spelling) pairs; tree from the syntax-directed generator over all 19 statement kinds and "
          "all expression forms (block depth <= 5, expression depth <= 8) or the kitchen-sink program with one alias forced; "
          "distinct_nontrivial = distinct rendered texts (64-bit hash) that were parsed and compared."),
    require=["tree_spelling_pairs", "trees", "set:statement_kinds:19", "set:operators_and_forms:18",
             "set:alias_pairs:131", "set:forced_pairs_ok:134"],
    assumptions=TRUST_BASE,
    stages=dict(quick=[native("dbg")], thorough=[native("dbg"), native("rel")]),
)

PROPS["C11"] = dict(
    level="exploration",
    technique="reference digit rule (own decimal numeral -> str::parse) vs compute_value and vs the printed value of executed programs; exact text comparison for poetic strings",
    level_text=("Generated word sequences (lengths 1-23 incl. multiples of ten, keywords as words, inner/trailing apostrophes, "
                "'s/'re suffixes, hyphenated parts, periods/commas/ignorable punctuation and comments in every position, "
                "accented letters) in assignment and `rock ... like` position; the value rrss computes and prints is compared "
                "with the correctly rounded decimal numeral of the digit rule (4 ulp, exact for integers < 2^53). Poetic "
                "strings: printed text must equal the text after `says `. Right-hand sides starting with a literal or a "
                "negative number are run against the reference interpreter."),
    level_note="Trusted: str::parse::<f64> (correct rounding) and f64 Display for reading the printed value back.",
    rule=("cases = poetic number literals / poetic string lines / literal-first right-hand sides; distinct_nontrivial = distinct "
          "(length sequence, text) pairs resp. distinct program texts. Lines that leave a quote or parenthesis open are outside "
          "the property's quantifier and are not generated; a suffix with no word before it is don't-care for the value (C09 checks it does not crash)."),
    require=["number_literals", "printed_values_compared", "strings_compared", "ordinary_expression_cases_agreed",
             "set:shapes:6"],
    assumptions=TRUST_BASE,
    stages=dict(quick=[native("dbg")], thorough=[native("dbg"), native("rel")]),
)

PROPS["C12"] = dict(
    level="exploration",
    technique="invariant monitor over the token stream: slice-of-source, order, ignorable gaps and line/column recomputed from the text; cross-check with the renderer's own position record",
    level_text=("Every token of rrss's lexer on generated texts is checked against positions recomputed from the source text "
                "alone (pointer arithmetic for the slice, newline counting for line and byte column, end position), with "
                "workloads biased to multi-line strings/comments followed by suffixes and more tokens on the same line, "
                "multi-byte characters, CR/LF and tokens at end of input; rendered programs add the renderer's record of "
                "what it emitted where as a second, independent ground truth."),
    level_note="Trusted: the recomputation (a dozen lines) and the definition of ignorable characters transcribed in c12.rs.",
    rule=("cases = source texts (token soup, multi-line-biased soup, rendered programs); distinct_nontrivial = distinct texts with >= 2 tokens."),
    require=["tokens_checked", "multi_line_tokens", "suffix_after_multi_line_token", "tokens_after_multi_byte_chars",
             "texts_with_crlf", "tokens_at_end_of_input", "renderer_maps_compared", "end_positions_checked",
             "set:token_types:70"],
    assumptions=TRUST_BASE,
    stages=dict(quick=[native("dbg"), native("rel")],
                thorough=[native("dbg"), native("rel"),
                          custom("miri_stage", release=True, shards=16, scale=4, name="miri:release")]),
)

PROPS["C13"] = dict(
    level="exploration",
    technique="fault injection into valid rendered programs at statement boundaries; oracle = parse must fail on the line known from the renderer's line map",
    level_text=("Valid generated programs (nested blocks, blank lines, multi-line comments and strings before the fault) x "
                "statement-boundary positions x a catalogue of ~80 context-independent syntax faults (missing operand, "
                "missing keyword, second statement on a line, token that cannot start a statement, invalid identifier, "
                "unterminated token). Quick samples positions and entries; thorough enumerates every position x every "
                "entry per program."),
    level_note=("The catalogue is validated on its own in every run (each entry must be rejected on line 1 and on line 4 of a "
                "three-line context). Unterminated-token faults are only injected where nothing later closes the token."),
    rule=("cases = (program, position, fault) triples; distinct_nontrivial = distinct faulty texts."),
    require=["triples", "rejected_on_the_right_line", "positions_after_multi_line_tokens",
             "fault_on_last_line_without_newline", "set:catalogue_entries_used:80", "set:error_codes:9"],
    assumptions=TRUST_BASE,
    stages=dict(quick=[native("dbg")], thorough=[native("dbg"), native("rel")]),
)

PROPS["C14"] = dict(
    level="exploration",
    technique="law monitor: the algebraic laws themselves evaluated for ALL ordered pairs of a value universe, on the Val API / binary_operator_fold and through executed programs",
    level_text=("The stated laws (symmetry of `is`, isnt / is not as negation, mirror laws of the ordering operators incl. "
                "error symmetry, (<= and >=) = equality where an ordering exists, logic vs truthiness, compound assignment = "
                "plain assignment, build k / knock k restores integers and booleans) are evaluated exhaustively over all "
                "44 x 44 ordered pairs of a universe that covers every kind and every boundary the coercions inspect. The "
                "enumeration of the universe is complete; the universe itself is a finite sample of all values."),
    level_note="No model is involved: the oracle is the relation between two observed results. The build/knock law is checked for integer-valued numbers with |x|+k < 2^53 and for booleans only (false for fractions in IEEE arithmetic for any implementation).",
    rule=("cases = ordered pairs (a, b) of the universe, each evaluated at the API layer and through 9+ programs (prelude builds "
          "arrays, NaN, -0 by statements); distinct_nontrivial = distinct ordered pairs plus distinct program texts executed."),
    exhaustive="all ordered pairs of the 44-value universe, at both layers, in every run",
    require=["ordered_pairs_api", "ordered_pairs_program", "law.is_symmetric", "law.is_not_is_negation",
             "law.less_mirrors_greater", "law.error_on_one_side_iff_other", "law.le_and_ge_is_equality",
             "law.compound_assignment_plus", "law.build_then_knock_restores", "error_symmetric_pairs",
             "pairs_without_order"],
    assumptions=TRUST_BASE,
    stages=dict(quick=[native("dbg")], thorough=[native("dbg"), native("rel")]),
)

PROPS["C03"] = dict(
    level="exploration",
    technique="history + executable reference model: Val API exhaustively over a value universe against reference tables; generated expression programs against the reference interpreter (stdout and Ok/Err)",
    level_text=("(a) every ordered pair of the 44-value universe through plus/subtract/multiply/divide/equals/compare and every "
                "value through negate/is_truthy/inc/to_string_for_output, compared with explicit reference tables (all 36 kind "
                "pairs and the value-dependent cells); printed numbers are additionally checked without the implementation's "
                "formatter (reads back to the same bits, no exponent, minimal digits). (b) random expressions (depth <= 4, list "
                "operands, Echo calls as evaluation-order / short-circuit witnesses) over universe-valued variables in say, "
                "put, compound let, if/while/until conditions, call arguments, subscripts and build/knock positions; stdout and "
                "the Ok/Err class must equal the reference interpreter's. Layer (a) is exhaustive over the universe, (b) is sampled."),
    level_note=("The reference tables (DESIGN.md Appendix B) are my reading of the property statements and of the cells pinned by "
                "rrss's unit tests; regions the statements leave open are don't-care (counted, only checked for crash-freedom)."),
    rule=("cases = API cells (operator x ordered pair) and generated programs; distinct_nontrivial = distinct ordered pairs plus "
          "distinct program texts whose stdout and outcome were compared with the model (don't-care and over-budget runs excluded)."),
    require=["ordered_pairs_api", "api_cells_checked", "api_error_cells", "number_texts_checked", "programs",
             "ok_outcomes_agreed", "error_outcomes_agreed", "programs_with_short_circuit", "programs_with_echo_witness",
             "set:api_kind_cells:240", "set:program_kind_cells:300"],
    assumptions=TRUST_BASE + ["budget: <= 20000 statements, call depth <= 64, values <= 10^5 bytes/elements (larger: discarded before rrss runs)"],
    stages=dict(quick=[native("dbg")],
                thorough=[native("dbg"), native("rel"),
                          custom("miri_stage", release=False, shards=16, scale=1, name="miri:dev")]),
)

PROPS["C04"] = dict(
    level="exploration",
    technique="history + reference model: trace of unique `say` markers, Ok/Err outcome and number of statements started (H3) against the reference interpreter; H3 invariants on the control-flow state at statement boundaries",
    level_text=("Generated terminating programs of nested if/else/while/until (depth <= 5) with break/continue (both spellings) at "
                "every depth of nested ifs, empty branches, conditions of all six value kinds and a planted failing statement; "
                "every `say` prints a unique marker so the output identifies which statements ran in which order. The marker "
                "trace, the outcome and the count of statements rrss started must equal the reference model's; the H3 log must "
                "show no loop statement completing in state Breaking/Continuing, no statement starting in a non-Normal state, "
                "and an unchanged scope depth across every statement."),
    level_note="Loops terminate by construction (own counter, bumped first thing in the body); the statement fuel (8x the model's steps + 1000) decides non-termination on a logical clock.",
    rule=("cases = generated programs; distinct_nontrivial = distinct program texts that agreed with the model AND executed >= 1 loop "
          "iteration AND (>= 1 break/continue/else branch or nesting depth >= 2)."),
    require=["programs", "markers_checked", "model.loop_iterations", "model.breaks", "model.continues", "model.else_taken",
             "runs_stopped_by_planted_error_with_output_preserved", "h3_events_checked", "statements_matched"],
    assumptions=TRUST_BASE,
    stages=dict(quick=[native("dbg")], thorough=[native("dbg"), native("rel")]),
)

PROPS["C05"] = dict(
    level="exploration",
    technique="history + reference model (scope stack, call protocol, pronoun referent with three-valued readings) over generated programs; terminal leak / pronoun / arity probes; H3 scope-depth balance",
    level_text=("Generated programs with 1-4 functions (all three name kinds, 1-4 parameters, every separator), nested and recursive "
                "calls, returns from inside ifs and loops, parameters shadowing globals, function and block locals, assignments to "
                "outer names, Echo calls as left-to-right witnesses, pronoun reads and writes after each kind of naming statement. "
                "Stdout, outcome and statement count must equal the reference model's; a terminal probe reads a local after its "
                "activation ended / a pronoun right after a block or call ended / calls with wrong arity, a variable or an unknown "
                "name and must produce the runtime error; the H3 log must show the same scope depth before and after every statement."),
    level_note=("Don't-care (not compared, counted): names that only dynamic scoping resolves, pronouns where execution-order and "
                "text-order readings disagree, pronoun at callee start / after an if that ran no block / after a loop whose condition names a variable."),
    rule=("cases = generated programs; distinct_nontrivial = distinct program texts that executed >= 1 call and agreed with the model "
          "(don't-care and over-budget runs excluded)."),
    require=["programs", "model.calls", "model.returns_through_loop", "model.returns_through_if", "model.pronoun_uses",
             "probe.leak_probe_function_local", "probe.leak_probe_parameter", "probe.leak_probe_block_local",
             "probe.pronoun_probe_after_call", "probe.pronoun_probe_after_block", "probe.wrong_arity",
             "probe.call_of_variable", "probe.read_unknown_name", "probe.call_unknown_function", "h3_events_checked"],
    assumptions=TRUST_BASE,
    stages=dict(quick=[native("dbg")], thorough=[native("dbg"), native("rel")]),
)

PROPS["C06"] = dict(
    level="exploration",
    technique="history + reference model with value semantics; the generator runs the model alongside and makes the program dump the complete stored state of every variable after every step; unique written values make reads identify writes",
    level_text=("Histories of 5-14 (quick) / 5-40 (thorough) operations over 2-5 variables: index writes incl. beyond the end, "
                "dictionary keys of every scalar kind, nested subscript writes, rock (none/one/list/poetic) on arrays, scalars and "
                "mysterious, roll as statement / into / expression / past empty, copies by assignment, by storing into another array "
                "and by argument passing followed by mutation of either side, arrays in arithmetic and comparison, compound "
                "assignment on an element, terminal error cases. After every step all variables are dumped (length, every index and "
                "one past the end, every dictionary key, nested arrays two levels deep), so stored state rather than one read is "
                "compared with the model; an alias shows as a change in a variable that was not the target."),
    level_note="Assignment into a string index and roll of a non-array are don't-care (the statements leave them open).",
    rule=("cases = operation histories; distinct_nontrivial = distinct program texts with >= 3 operations whose every dump line, outcome and statement count agreed with the model."),
    require=["histories", "operations", "copy_then_mutate_pairs", "dump_lines_compared", "op.index_write_beyond_end",
             "op.dictionary_write", "op.nested_write", "op.rock_scalar", "op.rock_mysterious", "op.roll_past_empty",
             "op.roll_into", "op.copy_by_assignment", "op.copy_by_storing_into_array", "op.argument_passing",
             "op.array_in_expression", "op.error_array_as_key_read", "op.error_array_as_key_write"],
    assumptions=TRUST_BASE,
    stages=dict(quick=[native("dbg")],
                thorough=[native("dbg"), native("rel"),
                          custom("miri_stage", release=False, shards=16, scale=1, name="miri:dev")]),
)

PROPS["C07"] = dict(
    level="exploration",
    technique="history + reference model (own splitter, radix parser, code-point rules, rounding) over a catalogue of hostile operands x parameters x statement forms, with full dumps of operand and destination",
    level_text=("Cut / join / cast / turn on catalogued operands (empty, multi-byte, delimiter at ends / repeated / overlapping / "
                "longer than the text, arrays with non-string elements or dictionary entries, numeric strings of every shape, "
                "every radix from -1 to 40 plus 1e30, 2.5, NaN, non-numbers, code points at every boundary incl. surrogates, "
                "fractions at .5, -0, huge, NaN, infinities), in place on a variable or pronoun, into a variable or a subscript, "
                "from a subscript, a literal or an unknown name. The program then dumps operand and destination; stdout, outcome "
                "and statement count must equal the reference model's (errors, never crashes or wrong values)."),
    level_note="Trusted: str::parse::<f64> for decimal casts and f64 ceil/floor/round (same std functions on both sides; a different rounding rule or parser in rrss would still differ from them).",
    rule=("cases = (operation, operand, parameter, form) programs; distinct_nontrivial = distinct program texts that agreed with the model."),
    require=["cases", "ok_outcomes_agreed", "error_outcomes_agreed", "set:radices:42", "set:model_error_kinds:10",
             "cases.cut.IntoVariable", "cases.cut.InPlaceVariable", "cases.join.IntoSubscript", "cases.cast_string.InPlacePronoun",
             "cases.cast_number.FromSubscriptInto", "cases.turn.InPlaceVariable", "cases.turn.FromSubscriptInto"],
    assumptions=TRUST_BASE,
    stages=dict(quick=[native("dbg"), native("rel")], thorough=[native("dbg"), native("rel")]),
)

PROPS["C08"] = dict(
    level="fault_enumeration",
    technique="offline checker over the merged event log (recording Write/Read + H3 statement boundaries on one sequence counter) against the reference model; injected stream faults at EVERY call position of each program's fault-free history",
    level_text=("For each generated program x input: fault-free histories (plain, short writes, Interrupted calls) are checked for "
                "exact output bytes, one complete line per say before the next statement starts, and exactly one line consumed "
                "per listen (line-at-a-time reader, with and without destination, at end of input, lines longer than the 8 KiB "
                "buffer). Then for W write calls and R read calls every k in 1..=W x {error, Ok(0)} and every k in 1..=R x {error, "
                "invalid UTF-8} is run: the result must be an error (no panic, no success), no read/write call may follow the "
                "fault, and the bytes the writer holds must be exactly what the fault-free run had written by that call. "
                "Enumeration of fault positions is complete per program; programs and inputs are sampled."),
    level_note="Faults are injected at the Read/Write boundary handed to exec_using (the same boundary the CLI wires to stdin/stdout).",
    rule=("cases = (program, input, fault plan) runs; distinct_nontrivial = distinct (program, input) pairs whose fault-free history "
          "interleaves read and write calls and for which every fault position was enumerated."),
    exhaustive="per program: every write-call and read-call position x every fault kind",
    require=["programs", "fault_plans_run", "fault_plans_held", "histories.fault_free", "histories.short_writes",
             "histories.interrupted", "histories_with_read_write_interleaving", "fault_kind.write_error",
             "fault_kind.write_zero", "fault_kind.read_error", "fault_kind.read_invalid_utf8", "events_checked"],
    assumptions=TRUST_BASE,
    stages=dict(quick=[native("dbg")], thorough=[native("dbg"), native("rel")]),
)

PROPS["C09"] = dict(
    level="exploration",
    technique="outcome monitor (catch_unwind, process-level isolation per execution with rlimits), H1 unsafe-precondition traps, H3 statement/loop fuel; ill-typed program generators; Miri on a sample",
    level_text=("Every parser-accepted program from four workloads (programs the property names and their neighbours; ~70 "
                "statement templates x all 44 universe values x 15 extreme numbers; the syntax-directed generator over a tiny "
                "pool of names used as variables AND functions; statement-level mutants of the valid programs of C03-C07) is "
                "executed in a forked child under an address-space and CPU limit, in the debug and the release profile. A panic "
                "(incl. debug assertions and overflow checks), a trapped unsafe precondition, a signal or an abort is a "
                "violation; an Ok or a rendered runtime error is the only acceptable end. The reference model is used solely to "
                "tell programs that provably terminate within the budget (fuel exhaustion = violation) from programs it cannot "
                "follow (fuel / allocation failure / CPU limit = inconclusive, counted)."),
    level_note="Bounds: <= 5000 model steps, call depth <= 64; child limits 1 GiB heap and 10 s CPU. Resource-class endings are never verdicts.",
    rule=("cases = (program, stdin) executions; distinct_nontrivial = distinct program texts that parsed and whose execution returned Ok or a runtime error."),
    require=["programs.named", "programs.template", "programs.ill_typed", "programs.mutated_valid", "returned_ok",
             "returned_runtime_error", "programs_beyond_the_model", "programs_model_follows_to_the_end",
             "set:runtime_error_variants:20", "set:templates_used:60"],
    assumptions=TRUST_BASE,
    stages=dict(
        quick=[native("dbg"), native("rel"), custom("miri_stage", release=True, shards=16, scale=1, name="miri:release")],
        thorough=[native("dbg"), native("rel"),
                  custom("miri_stage", release=True, shards=16, scale=8, name="miri:release"),
                  custom("miri_stage", release=False, shards=16, scale=8, name="miri:dev")],
    ),
)


def c10_processes(c):
    """Cross-process determinism: the shipped binary, run several times in separate processes on
    the same file, must print byte-identical stdout/stderr for exec, lint and parse."""
    st = c["stage"]
    binary = c["binaries"]["cli"]
    vcheck = c["binaries"]["dbg"]
    d = os.path.join(c["outdir"], "procs")
    os.makedirs(d, exist_ok=True)
    n = st.get("n", 40)
    reps = st.get("reps", 4)
    rc, out, err, to = c["run_proc"]([vcheck, "emit", "C10", "--out", d, "--seed", str(c["seed"]), "--n", str(n)], 300)
    if rc != 0:
        c["inconclusive"].append(f"emit failed: {err[-300:]}")
        return
    import concurrent.futures as cf
    merged = c["merged"]

    def one(i):
        path = f"{d}/case_{i}.rock"
        res = []
        for sub in ("exec", "lint", "parse"):
            obs = []
            for _ in range(reps):
                rc, out, err, to = c["run_proc"]([binary, sub, path], 60, stdin=b"line\n")
                if to:
                    return i, "timeout", None
                obs.append((rc, out, err))
            res.append((sub, obs))
        return i, "ok", res

    with cf.ThreadPoolExecutor(max_workers=c["NCPU"]) as ex:
        results = list(ex.map(one, range(n)))
    runs = 0
    for i, status, res in results:
        if status != "ok":
            merged.inconclusive["cli_watchdog"] = merged.inconclusive.get("cli_watchdog", 0) + 1
            continue
        for sub, obs in res:
            runs += len(obs)
            if any(o != obs[0] for o in obs[1:]):
                k = next(j for j, o in enumerate(obs) if o != obs[0])
                src = open(f"{d}/case_{i}.rock").read()
                sig = f"process_repeat_differs:{sub}"
                detail = (f"`rrss {sub}` run #{k} differs from run #0:\n first: {obs[0]}\n  this: {obs[k]}")
                replay = dict(property="C10", signature=sig, detail=detail, case=dict(src=src), tier=c["tier"],
                              seed=c["seed"], cmd=[binary, sub, f"{d}/case_{i}.rock"], note="run the command several times")
                merged.add_violation(sig, detail, replay)
    merged.evaluations += runs
    merged.counters["process_runs"] = merged.counters.get("process_runs", 0) + runs
    merged.counters["process_level_programs"] = merged.counters.get("process_level_programs", 0) + n


PROPS["C10"] = dict(
    level="exploration",
    technique="metamorphic equality between recorded runs: repeated in one process (fresh hasher seeds) and in separate processes of the shipped binary; H2 dictionary-order log proves the runs differed underneath",
    level_text=("Programs that build dictionaries with 2-8 non-numeric keys and then join them, print them, compare them, nest "
                "them or put them into error messages (plus the corpora of C04-C07) are parsed, linted and executed 8 (quick) / "
                "32 (thorough) times in one process and, for a sample, 4 times in separate processes of the release binary: the "
                "debug rendering of the tree, the diagnostics, stdout, the Ok/Err and the error text must be byte-identical. "
                "The H2 hook records the raw HashMap iteration order at join/display; the evidence counts the programs for "
                "which two or more distinct raw orders were actually observed while the visible result stayed the same."),
    level_note="No model involved. Time and addresses never enter rrss's outputs on these paths; hasher seeds are the varying input.",
    rule=("cases = (program, repetition) executions; distinct_nontrivial = distinct programs for which >= 2 distinct raw hash orders "
          "of the dictionary keys were observed across the repetitions (the non-trivial ones) and all repetitions agreed."),
    require=["comparisons", "programs.dictionary", "programs.corpus", "programs_with_two_or_more_dictionary_entries",
             "programs_with_distinct_raw_hash_orders_observed", "process_runs"],
    assumptions=TRUST_BASE,
    stages=dict(
        quick=[native("dbg"), custom("c10_processes", builds=["cli", "dbg"], n=48, reps=4)],
        thorough=[native("dbg"), native("rel"), custom("c10_processes", builds=["cli", "dbg"], n=400, reps=8)],
    ),
)
