"""Per-property configuration of the driver: stages per tier, evidence texts, required observations."""
import json
import os
import re
import time

TRUST_BASE = [
    "Rust std: f64 arithmetic, str::parse::<f64>, f64 Display, ceil/floor/round, char::to_lowercase",
    "the harness's own alias table / grammar transcription (DESIGN.md Appendix A) is the specification of the surface language",
]


def native(profile, scale=1.0, **kw):
    d = dict(kind="native", profile=profile, builds=[profile], scale=scale, name=f"native:{profile}")
    d.update(kw)
    return d


def custom(fn, builds=(), **kw):
    d = dict(kind="custom", fn=fn, builds=list(builds), name=fn)
    d.update(kw)
    return d


# --------------------------------------------------------------------------- sanitizer stages

def miri_stage(c):
    """Run a small shard set of the same worker under Miri (dev and/or release profile).

    The H1 trap is passive there, so Miri sees the real undefined behaviour."""
    st = c["stage"]
    prop, tier, seed, merged = c["prop"], c["tier"], c["seed"], c["merged"]
    release = st.get("release", True)
    nshards = st.get("shards", c["NCPU"])
    scale = st.get("scale", 1)
    flavour = "miri-rel" if release else "miri-dev"
    outdir = os.path.join(c["outdir"], flavour)
    os.makedirs(outdir, exist_ok=True)
    env = dict(c["ENV"])
    # deterministic floats: Miri otherwise adds random rounding error to powi & co. (the poetic-literal
    # value 103 came out as 102.99999999999994 in one thorough run - an artifact of the interpreter, not of rrss)
    env["MIRIFLAGS"] = "-Zmiri-disable-isolation -Zmiri-ignore-leaks -Zmiri-deterministic-floats"
    tdir = f"{c['TARGET']}/{flavour}"
    base = ["cargo", "+nightly", "miri", "run", "--offline", "--target-dir", tdir] + c["CARGO_REPO"] + (["--release"] if release else [])
    # build once (first run compiles), then shards in parallel
    t0 = time.time()
    warm = base + ["--", "run", "NONE"]
    rc, out, err, to = c["run_proc"](warm, 1200, env=env, cwd=c["HARNESS"])
    c["log"](f"[miri warm-up {flavour}] {time.time() - t0:.0f}s rc={rc}")
    import concurrent.futures as cf

    def one(i):
        cmd = base + ["--", "run", prop, "--tier", tier, "--seed", str(seed), "--shard", str(i), "--nshards",
                      str(nshards), "--profile", flavour, "--out", outdir, "--scale", str(scale), "--passive",
                      "--stage-set", "miri"]
        rc, out, err, to = c["run_proc"](cmd, st.get("watchdog", 1500), env=env, cwd=c["HARNESS"])
        return i, rc, err.decode("utf-8", "replace"), to, cmd

    with cf.ThreadPoolExecutor(max_workers=c["NCPU"]) as ex:
        results = list(ex.map(one, range(nshards)))
    cases = 0
    for i, rc, err, to, cmd in results:
        rep_path = f"{outdir}/shard_{flavour}_{i}.json"
        if to:
            merged.inconclusive["miri_watchdog"] = merged.inconclusive.get("miri_watchdog", 0) + 1
            c["inconclusive"].append(f"miri shard {i} ({flavour}) hit the watchdog")
            continue
        m = re.search(r"error: Undefined Behavior: (.*)", err)
        if m or "error: unsupported operation" in err or (rc != 0 and not os.path.exists(rep_path)):
            if m:
                # first in-repo frame of the report (not of the compiler warnings printed before it)
                tail = err[m.start():]
                frames = re.findall(r"(?:-->|at) %s/(src/[^\s:]+:\d+)" % re.escape(c["REPO"]), tail)
                frame = frames[0] if frames else "?"
                what = re.sub(r"<\d+>|alloc\d+|0x[0-9a-f]+|\d+", "#", m.group(1))[:90]
                sig = f"miri:{flavour}:{what}@{frame}"
                j = None
                try:
                    with open(f"{outdir}/journal_{flavour}_{i}.txt") as f:
                        j = f.readline().split()[:2]
                except Exception:
                    pass
                replay = dict(property=prop, signature=sig, detail=err[-3000:], profile=flavour, tier=tier,
                              seed=seed, stage=j[0] if j else "?", index=int(j[1]) if j else -1, case={},
                              cmd=cmd, env={"MIRIFLAGS": env["MIRIFLAGS"]}, cwd=c["HARNESS"])
                merged.add_violation(sig, err[-1500:], replay)
            else:
                c["inconclusive"].append(f"miri shard {i} ({flavour}) failed without a UB report: rc={rc} {err[-300:]}")
            continue
        if os.path.exists(rep_path):
            with open(rep_path) as f:
                rep = json.load(f)
            cases += rep.get("evaluations", 0)
            merged.add_report(rep, flavour)
            c["merged"].add_hashes(f"{outdir}/shard_{flavour}_{i}.hashes")
            for v in rep.get("violations", []):
                replay = dict(property=prop, signature=v["signature"], detail=v["detail"], profile=flavour, tier=tier,
                              seed=seed, stage=v["stage"], index=v["index"], case=v["case"], cmd=cmd,
                              env={"MIRIFLAGS": env["MIRIFLAGS"]}, cwd=c["HARNESS"])
                merged.add_violation(v["signature"], v["detail"], replay, v.get("count", 1))
    merged.counters[f"sanitizer.{flavour}.cases"] = merged.counters.get(f"sanitizer.{flavour}.cases", 0) + cases


PROPS = {}

PROPS["C01"] = dict(
    level="exploration",
    technique="outcome monitor + H1 unsafe-precondition traps + H4 lexer-step fuel over hostile generated inputs, in debug and release builds; Miri on a sample",
    level_text=("Runtime monitoring of the real lexer/parser on some 10^5 (quick) to 10^7 (thorough) generated hostile inputs per "
                "build profile: a panic, a trapped out-of-bounds slice, Miri-reported UB or exhausted logical fuel is a "
                "violation with a replayable witness. It shows totality on the inputs explored, not for all strings; the "
                "for-all claim is approached through input diversity (every prefix, token mutations, digit/underscore "
                "identifiers at every offset, `else` in every position), which unit tests cannot do."),
    level_note=("Trusted: the harness's catch_unwind outcome monitor, the H1 conditions written next to each unchecked "
                "slice, Miri for the sample it runs. Bounds: depth <= 300, inputs <= 4 KiB."),
    rule=("inputs = token soup over lexical atoms (keywords in any case, identifiers with digits/underscores at "
          "every offset, valid and invalid numbers, all ASCII punctuation, apostrophe forms, balanced and "
          "unbalanced multi-line strings/comments, exotic whitespace, emoji, control characters), rendered valid "
          "programs, their token-level mutants and their prefixes at char boundaries, and nesting shapes up to "
          "depth 300; each input is lexed and parsed under the outcome monitor with the H1 slicing preconditions "
          "trapped and 1000 lexer steps per byte of fuel (H4), in the debug and the release profile. "
          "distinct_nontrivial = distinct input texts (64-bit hash) that lex to at least 2 tokens."),
    require=["parse_ok", "parse_err", "inputs.soup", "inputs.prefix", "inputs.mutant", "inputs.nesting",
             "inputs_with_error_token_at_offset_gt_0", "inputs_with_else_at_statement_start",
             "set:error_codes:10", "set:token_types:70"],
    assumptions=TRUST_BASE + [
        "nesting depth <= 300, soup inputs <= 400 bytes, programs <= 4 KiB (the property's own bound: 'a few hundred levels')",
        "non-termination is decided on a logical clock: more than 1000 lexer steps per input byte (observed maximum is in coverage.maxima)",
    ],
    stages=dict(
        quick=[native("dbg"), native("rel"),
               custom("miri_stage", release=True, shards=16, scale=1, name="miri:release")],
        thorough=[native("dbg"), native("rel"),
                  custom("miri_stage", release=True, shards=16, scale=8, name="miri:release"),
                  custom("miri_stage", release=False, shards=16, scale=8, name="miri:dev"),
                  custom("asan_stage", builds=["asan"], scale=0.05, name="asan"),
                  custom("fuzz_stage", builds=["dbg", "rel"], target="parse_total", seconds=240, name="libfuzzer:parse_total")],
    ),
)

PROPS["C02"] = dict(
    level="exploration",
    technique="history + model: generated syntax tree is the expected tree; render under random spellings, parse with rrss, compare trees",
    level_text=("Each generated model tree is rendered under 8 (quick) / 32 (thorough) independent spellings (alias, case, "
                "noise, comments, separators, optional words, number forms, symbolic vs worded operators) and the tree rrss "
                "parses from each text must equal the generated one. Every (keyword class, alias) pair is additionally "
                "forced at least once on a program containing every construct. Held on the pairs explored; the product "
                "of trees and spellings is sampled, alias coverage is complete."),
    level_note=("The alias table and grammar rules in the harness (kw.rs, render.rs, DESIGN.md Appendix A) are the "
                "specification; expressibility restrictions of the generator (greedy calls, unary-only list elements, "
                "if/else last in a function body) bound the tree space."),
    rule=("cases = (model tree, spelling) pairs; tree from the syntax-directed generator over all 19 statement kinds and "
          "all expression forms (block depth <= 5, expression depth <= 8) or the kitchen-sink program with one alias forced; "
          "distinct_nontrivial = distinct rendered texts (64-bit hash) that were parsed and compared."),
    require=["tree_spelling_pairs", "trees", "set:statement_kinds:19", "set:operators_and_forms:18",
             "set:alias_pairs:131", "set:forced_pairs_ok:134"],
    assumptions=TRUST_BASE,
    stages=dict(quick=[native("dbg", scale=15)], thorough=[native("dbg", scale=2), native("rel", scale=2)]),
)

PROPS["C11"] = dict(
    level="exploration",
    technique="reference digit rule (own decimal numeral -> str::parse) vs compute_value and vs the printed value of executed programs; exact text comparison for poetic strings",
    level_text=("Generated word sequences (lengths 1-23 incl. multiples of ten, keywords as words, inner/trailing apostrophes, "
                "'s/'re suffixes, hyphenated parts, periods/commas/ignorable punctuation and comments in every position, "
                "accented letters) in assignment and `rock ... like` position; the value rrss computes and prints is compared "
                "with the correctly rounded decimal numeral of the digit rule (8 ulp, exact for integers < 2^53). Poetic "
                "strings: printed text must equal the text after `says `. Right-hand sides starting with a literal or a "
                "negative number are run against the reference interpreter."),
    level_note="Trusted: str::parse::<f64> (correct rounding) and f64 Display for reading the printed value back.",
    rule=("cases = poetic number literals / poetic string lines / literal-first right-hand sides; distinct_nontrivial = distinct "
          "(length sequence, text) pairs resp. distinct program texts. Lines that leave a quote or parenthesis open are outside "
          "the property's quantifier and are not generated; a suffix with no word before it is don't-care for the value (C09 checks it does not crash)."),
    require=["number_literals", "printed_values_compared", "strings_compared", "ordinary_expression_cases_agreed",
             "set:shapes:6"],
    assumptions=TRUST_BASE,
    stages=dict(quick=[native("dbg", scale=40)], thorough=[native("dbg", scale=20), native("rel", scale=20)]),
)

PROPS["C12"] = dict(
    level="exploration",
    technique="invariant monitor over the token stream: slice-of-source, order, ignorable gaps and line/column recomputed from the text; cross-check with the renderer's own position record",
    level_text=("Every token of rrss's lexer on generated texts is checked against positions recomputed from the source text "
                "alone (pointer arithmetic for the slice, newline counting for line and byte column, end position), with "
                "workloads biased to multi-line strings/comments followed by suffixes and more tokens on the same line, "
                "multi-byte characters, CR/LF and tokens at end of input; rendered programs add the renderer's record of "
                "what it emitted where as a second, independent ground truth."),
    level_note="Trusted: the recomputation (a dozen lines) and the definition of ignorable characters transcribed in c12.rs.",
    rule=("cases = source texts (token soup, multi-line-biased soup, rendered programs); distinct_nontrivial = distinct texts with >= 2 tokens."),
    require=["tokens_checked", "multi_line_tokens", "suffix_after_multi_line_token", "tokens_after_multi_byte_chars",
             "texts_with_crlf", "tokens_at_end_of_input", "renderer_maps_compared", "end_positions_checked", "ast_ranges_checked",
             "set:token_types:70"],
    assumptions=TRUST_BASE,
    stages=dict(quick=[native("dbg", scale=9), native("rel", scale=9)],
                thorough=[native("dbg", scale=10), native("rel", scale=10),
                          custom("miri_stage", release=True, shards=16, scale=4, name="miri:release")]),
)

PROPS["C13"] = dict(
    level="exploration",
    technique="fault injection into valid rendered programs at statement boundaries; oracle = parse must fail on the line known from the renderer's line map",
    level_text=("Valid generated programs (nested blocks, blank lines, multi-line comments and strings before the fault) x "
                "statement-boundary positions x a catalogue of ~80 context-independent syntax faults (missing operand, "
                "missing keyword, second statement on a line, token that cannot start a statement, invalid identifier, "
                "unterminated token). Quick samples positions and entries; thorough enumerates every position x every "
                "entry per program."),
    level_note=("The catalogue is validated on its own in every run (each entry must be rejected on line 1 and on line 4 of a "
                "three-line context). Unterminated-token faults are only injected where nothing later closes the token."),
    rule=("cases = (program, position, fault) triples; distinct_nontrivial = distinct faulty texts."),
    require=["triples", "rejected_on_the_right_line", "positions_after_multi_line_tokens",
             "fault_on_last_line_without_newline", "set:catalogue_entries_used:80", "set:error_codes:9"],
    assumptions=TRUST_BASE,
    stages=dict(quick=[native("dbg", scale=18)], thorough=[native("dbg", scale=3), native("rel", scale=3)]),
)

PROPS["C14"] = dict(
    level="exploration",
    technique="law monitor: the algebraic laws themselves evaluated for ALL ordered pairs of a value universe, on the Val API / binary_operator_fold and through executed programs",
    level_text=("The stated laws (symmetry of `is`, isnt / is not as negation, mirror laws of the ordering operators incl. "
                "error symmetry, (<= and >=) = equality where an ordering exists, logic vs truthiness, compound assignment = "
                "plain assignment, build k / knock k restores integers and booleans) are evaluated exhaustively over all "
                "70 x 70 ordered pairs of a universe that covers every kind and every boundary the coercions inspect. The "
                "enumeration of the universe is complete; the universe itself is a finite sample of all values."),
    level_note="No model is involved: the oracle is the relation between two observed results. The build/knock law is checked for integer-valued numbers with |x|+k < 2^53 and for booleans only (false for fractions in IEEE arithmetic for any implementation).",
    rule=("cases = ordered pairs (a, b) of the universe, each evaluated at the API layer and through 9+ programs (prelude builds "
          "arrays, NaN, -0 by statements); distinct_nontrivial = distinct ordered pairs plus distinct program texts executed."),
    exhaustive="all ordered pairs of the 70-value universe, at both layers, in every run",
    require=["ordered_pairs_api", "ordered_pairs_program", "law.is_symmetric", "law.is_not_is_negation",
             "law.less_mirrors_greater", "law.error_on_one_side_iff_other", "law.le_and_ge_is_equality",
             "law.compound_assignment_plus", "law.build_then_knock_restores", "error_symmetric_pairs",
             "pairs_without_order"],
    assumptions=TRUST_BASE,
    stages=dict(quick=[native("dbg", scale=80)], thorough=[native("dbg"), native("rel")]),
)

PROPS["C03"] = dict(
    level="exploration",
    technique="history + executable reference model: Val API exhaustively over a value universe against reference tables; generated expression programs against the reference interpreter (stdout and Ok/Err)",
    level_text=("(a) every ordered pair of the 70-value universe through plus/subtract/multiply/divide/equals/compare and every "
                "value through negate/is_truthy/inc/to_string_for_output, compared with explicit reference tables (all 36 kind "
                "pairs and the value-dependent cells); printed numbers are additionally checked without the implementation's "
                "formatter (reads back to the same bits, no exponent, minimal digits). (b) random expressions (depth <= 4, list "
                "operands, Echo calls as evaluation-order / short-circuit witnesses) over universe-valued variables in say, "
                "put, compound let, if/while/until conditions, call arguments, subscripts and build/knock positions; stdout and "
                "the Ok/Err class must equal the reference interpreter's. Layer (a) is exhaustive over the universe, (b) is sampled."),
    level_note=("The reference tables (DESIGN.md Appendix B) are my reading of the property statements and of the cells pinned by "
                "rrss's unit tests; regions the statements leave open are don't-care (counted, only checked for crash-freedom)."),
    rule=("cases = API cells (operator x ordered pair) and generated programs; distinct_nontrivial = distinct ordered pairs plus "
          "distinct program texts whose stdout and outcome were compared with the model (don't-care and over-budget runs excluded)."),
    require=["ordered_pairs_api", "api_cells_checked", "api_error_cells", "number_texts_checked", "programs",
             "ok_outcomes_agreed", "error_outcomes_agreed", "programs_with_short_circuit", "programs_with_echo_witness",
             "set:api_kind_cells:240", "set:program_kind_cells:300"],
    assumptions=TRUST_BASE + ["budget: <= 20000 statements, call depth <= 64, values <= 10^5 bytes/elements (larger: discarded before rrss runs)"],
    stages=dict(quick=[native("dbg", scale=30)],
                thorough=[native("dbg", scale=6), native("rel", scale=6),
                          custom("miri_stage", release=False, shards=16, scale=1, name="miri:dev")]),
)

PROPS["C04"] = dict(
    level="exploration",
    technique="history + reference model: trace of unique `say` markers, Ok/Err outcome and number of statements started (H3) against the reference interpreter; H3 invariants on the control-flow state at statement boundaries",
    level_text=("Generated terminating programs of nested if/else/while/until (depth <= 5) with break/continue (both spellings) at "
                "every depth of nested ifs, empty branches, conditions of all six value kinds and a planted failing statement; "
                "every `say` prints a unique marker so the output identifies which statements ran in which order. The marker "
                "trace, the outcome and the count of statements rrss started must equal the reference model's; the H3 log must "
                "show no loop statement completing in state Breaking/Continuing, no statement starting in a non-Normal state, "
                "and an unchanged scope depth across every statement."),
    level_note="Loops terminate by construction (own counter, bumped first thing in the body); the statement fuel (8x the model's steps + 1000) decides non-termination on a logical clock.",
    rule=("cases = generated programs; distinct_nontrivial = distinct program texts that agreed with the model AND executed >= 1 loop "
          "iteration AND (>= 1 break/continue/else branch or nesting depth >= 2)."),
    require=["programs", "markers_checked", "model.loop_iterations", "model.breaks", "model.continues", "model.else_taken",
             "runs_stopped_by_planted_error_with_output_preserved", "h3_events_checked", "statements_matched"],
    assumptions=TRUST_BASE,
    stages=dict(quick=[native("dbg", scale=14)], thorough=[native("dbg", scale=10), native("rel", scale=10)]),
)

PROPS["C05"] = dict(
    level="exploration",
    technique="history + reference model (scope stack, call protocol, pronoun referent with three-valued readings) over generated programs; terminal leak / pronoun / arity probes; H3 scope-depth balance",
    level_text=("Generated programs with 1-4 functions (all three name kinds, 1-4 parameters, every separator), nested and recursive "
                "calls, returns from inside ifs and loops, parameters shadowing globals, function and block locals, assignments to "
                "outer names, Echo calls as left-to-right witnesses, pronoun reads and writes after each kind of naming statement. "
                "Stdout, outcome and statement count must equal the reference model's; a terminal probe reads a local after its "
                "activation ended / a pronoun right after a block or call ended / calls with wrong arity, a variable or an unknown "
                "name and must produce the runtime error; the H3 log must show the same scope depth before and after every statement."),
    level_note=("Don't-care (not compared, counted): names that only dynamic scoping resolves, pronouns where execution-order and "
                "text-order readings disagree, pronoun at callee start / after an if that ran no block / after a loop whose condition names a variable."),
    rule=("cases = generated programs; distinct_nontrivial = distinct program texts that executed >= 1 call and agreed with the model "
          "(don't-care and over-budget runs excluded)."),
    require=["programs", "model.calls", "model.returns_through_loop", "model.returns_through_if", "model.pronoun_uses",
             "probe.leak_probe_function_local", "probe.leak_probe_parameter", "probe.leak_probe_block_local",
             "probe.pronoun_probe_after_call", "probe.pronoun_probe_after_block", "probe.wrong_arity",
             "probe.call_of_variable", "probe.read_unknown_name", "probe.call_unknown_function", "h3_events_checked"],
    assumptions=TRUST_BASE,
    stages=dict(quick=[native("dbg", scale=12)], thorough=[native("dbg", scale=6), native("rel", scale=6)]),
)

PROPS["C06"] = dict(
    level="exploration",
    technique="history + reference model with value semantics; the generator runs the model alongside and makes the program dump the complete stored state of every variable after every step; unique written values make reads identify writes",
    level_text=("Histories of 5-14 (quick) / 5-40 (thorough) operations over 2-5 variables: index writes incl. beyond the end, "
                "dictionary keys of every scalar kind, nested subscript writes, rock (none/one/list/poetic) on arrays, scalars and "
                "mysterious, roll as statement / into / expression / past empty, copies by assignment, by storing into another array "
                "and by argument passing followed by mutation of either side, arrays in arithmetic and comparison, compound "
                "assignment on an element, terminal error cases. After every step all variables are dumped (length, every index and "
                "one past the end, every dictionary key, nested arrays two levels deep), so stored state rather than one read is "
                "compared with the model; an alias shows as a change in a variable that was not the target."),
    level_note="Assignment into a string index and roll of a non-array are don't-care (the statements leave them open).",
    rule=("cases = operation histories; distinct_nontrivial = distinct program texts with >= 3 operations whose every dump line, outcome and statement count agreed with the model."),
    require=["histories", "operations", "copy_then_mutate_pairs", "dump_lines_compared", "op.index_write_beyond_end",
             "op.dictionary_write", "op.nested_write", "op.rock_scalar", "op.rock_mysterious", "op.roll_past_empty",
             "op.roll_into", "op.copy_by_assignment", "op.copy_by_storing_into_array", "op.argument_passing",
             "op.array_in_expression", "op.error_array_as_key_read", "op.error_array_as_key_write"],
    assumptions=TRUST_BASE,
    stages=dict(quick=[native("dbg", scale=40)],
                thorough=[native("dbg", scale=3), native("rel", scale=3),
                          custom("miri_stage", release=False, shards=16, scale=1, name="miri:dev")]),
)

PROPS["C07"] = dict(
    level="exploration",
    technique="history + reference model (own splitter, radix parser, code-point rules, rounding) over a catalogue of hostile operands x parameters x statement forms, with full dumps of operand and destination",
    level_text=("Cut / join / cast / turn on catalogued operands (empty, multi-byte, delimiter at ends / repeated / overlapping / "
                "longer than the text, arrays with non-string elements or dictionary entries, numeric strings of every shape, "
                "every radix from -1 to 40 plus 1e30, 2.5, NaN, non-numbers, code points at every boundary incl. surrogates, "
                "fractions at .5, -0, huge, NaN, infinities), in place on a variable or pronoun, into a variable or a subscript, "
                "from a subscript, a literal or an unknown name. The program then dumps operand and destination; stdout, outcome "
                "and statement count must equal the reference model's (errors, never crashes or wrong values)."),
    level_note="Trusted: str::parse::<f64> for decimal casts and f64 ceil/floor/round (same std functions on both sides; a different rounding rule or parser in rrss would still differ from them).",
    rule=("cases = (operation, operand, parameter, form) programs; distinct_nontrivial = distinct program texts that agreed with the model."),
    require=["cases", "ok_outcomes_agreed", "error_outcomes_agreed", "set:radices:42", "set:model_error_kinds:10",
             "cases.cut.IntoVariable", "cases.cut.InPlaceVariable", "cases.join.IntoSubscript", "cases.cast_string.InPlacePronoun",
             "cases.cast_number.FromSubscriptInto", "cases.turn.InPlaceVariable", "cases.turn.FromSubscriptInto"],
    assumptions=TRUST_BASE,
    stages=dict(quick=[native("dbg", scale=30), native("rel", scale=30)], thorough=[native("dbg", scale=15), native("rel", scale=15)]),
)

PROPS["C08"] = dict(
    level="fault_enumeration",
    technique="offline checker over the merged event log (recording Write/Read + H3 statement boundaries on one sequence counter) against the reference model; injected stream faults at EVERY call position of each program's fault-free history",
    level_text=("For each generated program x input: fault-free histories (plain, short writes, Interrupted calls) are checked for "
                "exact output bytes, one complete line per say before the next statement starts, and exactly one line consumed "
                "per listen (line-at-a-time reader, with and without destination, at end of input, lines longer than the 8 KiB "
                "buffer). Then for W write calls and R read calls every k in 1..=W x {error, Ok(0)} and every k in 1..=R x {error, "
                "invalid UTF-8} is run: the result must be an error (no panic, no success), no read/write call may follow the "
                "fault, and the bytes the writer holds must be exactly what the fault-free run had written by that call. "
                "Enumeration of fault positions is complete per program; programs and inputs are sampled."),
    level_note="Faults are injected at the Read/Write boundary handed to exec_using (the same boundary the CLI wires to stdin/stdout).",
    rule=("cases = (program, input, fault plan) runs; distinct_nontrivial = distinct (program, input) pairs whose fault-free history "
          "interleaves read and write calls and for which every fault position was enumerated."),
    exhaustive="per program: every write-call and read-call position x every fault kind",
    require=["programs", "fault_plans_run", "fault_plans_held", "histories.fault_free", "histories.short_writes",
             "histories.interrupted", "histories_with_read_write_interleaving", "fault_kind.write_error",
             "fault_kind.write_zero", "fault_kind.read_error", "fault_kind.read_invalid_utf8", "events_checked",
             "cli_fault.stdout_device_full", "cli_fault.stdout_closed_pipe", "cli_fault.stdin_is_a_directory",
             "cli_fault.stdin_invalid_utf8", "cli_fault_runs_held"],
    assumptions=TRUST_BASE,
    stages=dict(quick=[native("dbg", scale=72), custom("c08_cli_faults", builds=["cli", "dbg"], n=48)],
                thorough=[native("dbg", scale=30), native("rel", scale=30), custom("c08_cli_faults", builds=["cli", "dbg"], n=600)]),
)

PROPS["C09"] = dict(
    level="exploration",
    technique="outcome monitor (catch_unwind, process-level isolation per execution with rlimits), H1 unsafe-precondition traps, H3 statement/loop fuel; ill-typed program generators; Miri on a sample",
    level_text=("Every parser-accepted program from four workloads (programs the property names and their neighbours; ~70 "
                "statement templates x all 70 universe values x 15 extreme numbers; the syntax-directed generator over a tiny "
                "pool of names used as variables AND functions; statement-level mutants of the valid programs of C03-C07) is "
                "executed in a forked child under an address-space and CPU limit, in the debug and the release profile. A panic "
                "(incl. debug assertions and overflow checks), a trapped unsafe precondition, a signal or an abort is a "
                "violation; an Ok or a rendered runtime error is the only acceptable end. The reference model is used solely to "
                "tell programs that provably terminate within the budget (fuel exhaustion = violation) from programs it cannot "
                "follow (fuel / allocation failure / CPU limit = inconclusive, counted)."),
    level_note="Bounds: <= 5000 model steps, call depth <= 64; child limits 1 GiB heap and 10 s CPU. Resource-class endings are never verdicts.",
    rule=("cases = (program, stdin) executions; distinct_nontrivial = distinct program texts that parsed and whose execution returned Ok or a runtime error."),
    require=["programs.named", "programs.template", "programs.ill_typed", "programs.mutated_valid", "returned_ok",
             "returned_runtime_error", "programs_beyond_the_model", "programs_model_follows_to_the_end",
             "set:runtime_error_variants:20", "set:templates_used:60"],
    assumptions=TRUST_BASE,
    stages=dict(
        quick=[native("dbg"), native("rel"), custom("miri_stage", release=True, shards=16, scale=1, name="miri:release")],
        thorough=[native("dbg", scale=2), native("rel", scale=2),
                  custom("miri_stage", release=True, shards=16, scale=8, name="miri:release"),
                  custom("miri_stage", release=False, shards=16, scale=8, name="miri:dev"),
                  custom("asan_stage", builds=["asan"], scale=0.08, name="asan"),
                  custom("fuzz_stage", builds=["dbg", "rel"], target="exec_total", seconds=240, name="libfuzzer:exec_total")],
    ),
)


def c10_processes(c):
    """Cross-process determinism: the shipped binary, run several times in separate processes on
    the same file, must print byte-identical stdout/stderr for exec, lint and parse."""
    st = c["stage"]
    binary = c["binaries"]["cli"]
    vcheck = c["binaries"]["dbg"]
    d = os.path.join(c["outdir"], "procs")
    os.makedirs(d, exist_ok=True)
    n = st.get("n", 40)
    reps = st.get("reps", 4)
    rc, out, err, to = c["run_proc"]([vcheck, "emit", "C10", "--out", d, "--seed", str(c["seed"]), "--n", str(n)], 300)
    if rc != 0:
        c["inconclusive"].append(f"emit failed: {err[-300:]}")
        return
    import concurrent.futures as cf
    merged = c["merged"]

    def one(i):
        path = f"{d}/case_{i}.rock"
        res = []
        for sub in ("exec", "lint", "parse"):
            obs = []
            for _ in range(reps):
                rc, out, err, to = c["run_proc"]([binary, sub, path], 60, stdin=b"line\n")
                if to:
                    return i, "timeout", None
                obs.append((rc, out, err))
            res.append((sub, obs))
        return i, "ok", res

    with cf.ThreadPoolExecutor(max_workers=c["NCPU"]) as ex:
        results = list(ex.map(one, range(n)))
    runs = 0
    for i, status, res in results:
        if status != "ok":
            merged.inconclusive["cli_watchdog"] = merged.inconclusive.get("cli_watchdog", 0) + 1
            continue
        for sub, obs in res:
            runs += len(obs)
            if any(o != obs[0] for o in obs[1:]):
                k = next(j for j, o in enumerate(obs) if o != obs[0])
                src = open(f"{d}/case_{i}.rock").read()
                sig = f"process_repeat_differs:{sub}"
                detail = (f"`rrss {sub}` run #{k} differs from run #0:\n first: {obs[0]}\n  this: {obs[k]}")
                replay = dict(property="C10", signature=sig, detail=detail, case=dict(src=src), tier=c["tier"],
                              seed=c["seed"], cmd=[binary, sub, f"{d}/case_{i}.rock"], note="run the command several times")
                merged.add_violation(sig, detail, replay)
    merged.evaluations += runs
    merged.counters["process_runs"] = merged.counters.get("process_runs", 0) + runs
    merged.counters["process_level_programs"] = merged.counters.get("process_level_programs", 0) + n


PROPS["C10"] = dict(
    level="exploration",
    technique="metamorphic equality between recorded runs: repeated in one process (fresh hasher seeds) and in separate processes of the shipped binary; H2 dictionary-order log proves the runs differed underneath",
    level_text=("Programs that build dictionaries with 2-8 non-numeric keys and then join them, print them, compare them, nest "
                "them or put them into error messages (plus the corpora of C04-C07) are parsed, linted and executed 8 (quick) / "
                "32 (thorough) times in one process and, for a sample, 4 times in separate processes of the release binary: the "
                "debug rendering of the tree, the diagnostics, stdout, the Ok/Err and the error text must be byte-identical. "
                "The H2 hook records the raw HashMap iteration order at join/display; the evidence counts the programs for "
                "which two or more distinct raw orders were actually observed while the visible result stayed the same."),
    level_note="No model involved. Time and addresses never enter rrss's outputs on these paths; hasher seeds are the varying input.",
    rule=("cases = (program, repetition) executions; distinct_nontrivial = distinct programs for which >= 2 distinct raw hash orders "
          "of the dictionary keys were observed across the repetitions (the non-trivial ones) and all repetitions agreed."),
    require=["comparisons", "programs.dictionary", "programs.corpus", "programs_with_two_or_more_dictionary_entries",
             "programs_with_distinct_raw_hash_orders_observed", "process_runs"],
    assumptions=TRUST_BASE,
    stages=dict(
        quick=[native("dbg", scale=5), custom("c10_processes", builds=["cli", "dbg"], n=48, reps=4)],
        thorough=[native("dbg", scale=1.5), native("rel", scale=1.5), custom("c10_processes", builds=["cli", "dbg"], n=400, reps=8)],
    ),
)


def _strip_ws(s):
    return "".join(s.split())


def c20_cli(c):
    """Differential: recorded behaviour of the freshly built `rrss` binary vs recorded library behaviour."""
    import concurrent.futures as cf
    import subprocess
    st = c["stage"]
    flavour = st.get("cli", "cli")
    binary = c["binaries"][flavour]
    vcheck = c["binaries"]["dbg"]
    merged = c["merged"]
    d = os.path.join(c["outdir"], f"cases_{flavour}")
    os.makedirs(d, exist_ok=True)
    n = st.get("n", 200)
    rc, out, err, to = c["run_proc"]([vcheck, "emit", "C20", "--out", d, "--seed", str(c["seed"]), "--n", str(n)], 1200)
    if rc != 0:
        c["inconclusive"].append(f"emit C20 failed: {err[-300:]}")
        return

    def viol(sig, detail, i, cmd):
        src = open(f"{d}/case_{i}.rock", encoding="utf-8").read()
        replay = dict(property="C20", signature=sig, detail=detail, case=dict(src=src, stdin_file=f"{d}/case_{i}.stdin"),
                      tier=c["tier"], seed=c["seed"], cmd=["/bin/sh", "-c", f"{' '.join(cmd)} < {d}/case_{i}.stdin"],
                      note="compare with the library-side record next to the case file (case_N.lib.json)")
        merged.add_violation(sig, detail, replay)

    def one(i):
        base = f"{d}/case_{i}"
        if not os.path.exists(base + ".lib.json"):
            return None
        lib = json.load(open(base + ".lib.json", encoding="utf-8"))
        stdin = open(base + ".stdin", "rb").read()
        res = {}
        for sub in ("exec", "lint", "parse"):
            cmd = [binary, sub, base + ".rock"]
            rc, out, err, to = c["run_proc"](cmd, 60, stdin=stdin)
            if to:
                return ("timeout", i)
            res[sub] = (rc, out, err)
        # merged stream: stdout and stderr on ONE pipe
        p = subprocess.run([binary, "exec", base + ".rock"], input=stdin, stdout=subprocess.PIPE, stderr=subprocess.STDOUT,
                           env=c["ENV"], timeout=60)
        res["merged"] = p.stdout
        return ("ok", i, lib, res)

    with cf.ThreadPoolExecutor(max_workers=c["NCPU"]) as ex:
        results = [r for r in ex.map(one, range(n)) if r is not None]
    runs = 0
    classes = {}
    nontrivial = 0
    for r in results:
        if r[0] == "timeout":
            merged.inconclusive["cli_watchdog"] = merged.inconclusive.get("cli_watchdog", 0) + 1
            continue
        _, i, lib, res = r
        runs += 4
        base = f"{d}/case_{i}"
        rc, out, err = res["exec"]
        outs = out.decode("utf-8", "replace")
        errs = err.decode("utf-8", "replace")
        if not lib["parse_ok"]:
            cls = "parse_error"
            msg = lib["parse_error"]
            for sub in ("exec", "lint", "parse"):
                rc2, out2, err2 = res[sub]
                e2 = err2.decode("utf-8", "replace")
                if out2 != b"":
                    viol(f"cli:{sub}:stdout_on_parse_error", f"stdout {out2[:200]!r} although the file does not parse", i, [binary, sub, base + ".rock"])
                if "Parse error: " not in e2 or msg not in e2:
                    viol(f"cli:{sub}:parse_error_not_reported_on_stderr", f"stderr {e2[:300]!r}, library message {msg!r}", i, [binary, sub, base + ".rock"])
        else:
            want = lib["stdout"]
            if outs != want:
                viol("cli:exec:stdout_differs", f"binary wrote {outs[:300]!r}, library wrote {want[:300]!r}", i, [binary, "exec", base + ".rock"])
            if lib["exec_error"] is None:
                cls = "success"
                if errs != "":
                    viol("cli:exec:stderr_on_success", f"stderr {errs[:300]!r}", i, [binary, "exec", base + ".rock"])
                if rc != 0:
                    viol("cli:exec:nonzero_exit_on_success", f"exit status {rc}", i, [binary, "exec", base + ".rock"])
            else:
                cls = "runtime_error_after_output" if want else "runtime_error"
                if "Runtime error: " not in errs or lib["exec_error"] not in errs:
                    viol("cli:exec:runtime_error_not_reported_on_stderr", f"stderr {errs[:300]!r}, library message {lib['exec_error']!r}", i, [binary, "exec", base + ".rock"])
                m = res["merged"].decode("utf-8", "replace")
                if not m.startswith(want) or "Runtime error: " not in m[len(want):]:
                    viol("cli:exec:error_not_after_output", f"merged stream {m[:300]!r}, program output {want[:200]!r}", i, [binary, "exec", base + ".rock"])
            # lint
            rc2, out2, err2 = res["lint"]
            o2 = out2.decode("utf-8", "replace")
            if not lib["lint"]:
                if "No lint issues found" not in o2:
                    viol("cli:lint:no_issue_message_missing", f"stdout {o2[:300]!r}", i, [binary, "lint", base + ".rock"])
            else:
                pos = 0
                for dg in lib["lint"]:
                    for piece in [f"(line {dg['line']})", dg["issue"]] + dg["suggestions"]:
                        k = o2.find(piece, pos)
                        if k < 0:
                            viol("cli:lint:diagnostic_missing_or_out_of_order",
                                 f"{piece[:120]!r} not found (in order) in {o2[:400]!r}", i, [binary, "lint", base + ".rock"])
                            break
                        pos = k + len(piece)
                    else:
                        continue
                    break
                if o2.count("Lint issue: ") != len(lib["lint"]):
                    viol("cli:lint:number_of_diagnostics_differs", f"{o2.count('Lint issue: ')} printed, library has {len(lib['lint'])}", i, [binary, "lint", base + ".rock"])
            # parse
            rc3, out3, err3 = res["parse"]
            if _strip_ws(out3.decode("utf-8", "replace")) != _strip_ws(lib["tree_pretty"]):
                viol("cli:parse:tree_differs", f"binary printed {out3[:200]!r}", i, [binary, "parse", base + ".rock"])
            if want and lib["stdout"]:
                nontrivial += 1
        classes[cls] = classes.get(cls, 0) + 1
        merged.hashes.add(hash((flavour, i, lib.get("stdout", ""), lib.get("parse_error", ""))) & 0xFFFFFFFFFFFFFFFF)
    # usage errors
    usage = [
        ([binary, "exec", f"{d}/definitely_missing_file.rock"], "missing_file"),
        ([binary, "lint", f"{d}/definitely_missing_file.rock"], "missing_file"),
        ([binary, "parse", f"{d}/definitely_missing_file.rock"], "missing_file"),
        ([binary, "exec"], "missing_argument"),
        ([binary, "frobnicate", f"{d}/case_0.rock"], "unknown_subcommand"),
        ([binary, "--no-such-flag"], "unknown_flag"),
        ([binary], "no_subcommand"),
        ([binary, "--"], "no_subcommand"),
        # a missing file among several arguments (whether or not several files are usage at all)
        ([binary, "lint", f"{d}/definitely_missing_file.rock", f"{d}/case_0.rock"], "missing_file_first_of_two"),
        ([binary, "lint", f"{d}/case_0.rock", f"{d}/definitely_missing_file.rock"], "missing_file_second_of_two"),
        ([binary, "exec", f"{d}/definitely_missing_file.rock", f"{d}/case_0.rock"], "missing_file_first_of_two"),
        ([binary, "parse", f"{d}/definitely_missing_file.rock", f"{d}/case_0.rock"], "missing_file_first_of_two"),
    ]
    # a file that is missing although a sibling with the same stem exists
    import shutil as _sh
    try:
        _sh.copy(f"{d}/case_0.rock", f"{d}/sibling_stem.rock")
        usage.append(([binary, "exec", f"{d}/sibling_stem.txt"], "missing_file_with_a_sibling_of_the_same_stem"))
        usage.append(([binary, "lint", f"{d}/sibling_stem.txt"], "missing_file_with_a_sibling_of_the_same_stem"))
    except OSError:
        pass
    # large programs: nothing is cut off (the last line printed is the last statement's)
    for size_name, lines in (("70_kB", 5_000), ("1.2_MB", 80_000)) + ((("17_MB", 1_200_000),) if c["tier"] == "thorough" else ()):
        path = f"{d}/large_{size_name}.rock"
        with open(path, "w") as f:
            f.write("say 123456789\n" * lines)
            f.write("say \"the end\"\n")
        rc, out, err, to = c["run_proc"]([binary, "exec", path], 600, stdin=b"")
        runs += 1
        merged.counters[f"large_program.{size_name}"] = merged.counters.get(f"large_program.{size_name}", 0) + 1
        if to:
            c["inconclusive"].append(f"large program {size_name} hit the watchdog")
        elif rc != 0 or out.count(b"\n") != lines + 1 or not out.endswith(b"the end\n"):
            sig = "cli:exec:large_program_cut_or_failed"
            nl = out.count(b"\n")
            tail, head = out[-30:], err[:200]
            detail = (f"{size_name}: exit {rc}, {nl} lines of output (expected {lines + 1}), "
                      f"ends with {tail!r}, stderr {head!r}")
            replay = dict(property="C20", signature=sig, detail=detail, case=dict(lines=lines), cmd=[binary, "exec", path],
                          tier=c["tier"], seed=c["seed"])
            merged.add_violation(sig, detail, replay)
        try:
            os.remove(path)
        except OSError:
            pass
    for cmd, what in usage:
        rc, out, err, to = c["run_proc"](cmd, 60, stdin=b"")
        runs += 1
        merged.counters[f"usage.{what}"] = merged.counters.get(f"usage.{what}", 0) + 1
        if rc == 0:
            replay = dict(property="C20", signature=f"cli:usage:{what}:exit_0", detail=f"{cmd} exited 0", case={}, cmd=cmd,
                          tier=c["tier"], seed=c["seed"])
            merged.add_violation(f"cli:usage:{what}:exit_0", f"`{' '.join(cmd[1:])}` exited with status 0", replay)
    merged.evaluations += runs
    pe = merged.profiles.setdefault(f"binary:{flavour}", dict(evaluations=0, shards=0))
    pe["evaluations"] += runs
    merged.counters[f"process_runs.{flavour}"] = merged.counters.get(f"process_runs.{flavour}", 0) + runs
    for k, v in classes.items():
        merged.counters[f"outcome.{k}"] = merged.counters.get(f"outcome.{k}", 0) + v
    merged.counters["cases"] = merged.counters.get("cases", 0) + len(results)
    if len(merged.samples) < 3 and results:
        for r in results[:2]:
            if r[0] == "ok":
                _, i, lib, res = r
                merged.samples.append(dict(src=open(f"{d}/case_{i}.rock", encoding="utf-8").read()[:600],
                                           library_stdout=lib.get("stdout", "")[:200], library_error=lib.get("exec_error"),
                                           binary_stdout=res["exec"][1].decode("utf-8", "replace")[:200],
                                           binary_stderr=res["exec"][2].decode("utf-8", "replace")[:200]))


def c20_valgrind(c):
    """valgrind memcheck on the shipped release binary (thorough only)."""
    st = c["stage"]
    binary = c["binaries"]["cli"]
    d = os.path.join(c["outdir"], "cases_cli")
    n = st.get("n", 50)
    merged = c["merged"]
    import concurrent.futures as cf

    def one(i):
        base = f"{d}/case_{i}"
        if not os.path.exists(base + ".rock"):
            return None
        stdin = open(base + ".stdin", "rb").read()
        cmd = ["valgrind", "--quiet", "--error-exitcode=99", "--leak-check=no", binary, "exec", base + ".rock"]
        rc, out, err, to = c["run_proc"](cmd, 300, stdin=stdin)
        return i, rc, err.decode("utf-8", "replace"), to, cmd

    with cf.ThreadPoolExecutor(max_workers=c["NCPU"]) as ex:
        results = [r for r in ex.map(one, range(n)) if r is not None]
    for i, rc, err, to, cmd in results:
        if to:
            merged.inconclusive["valgrind_watchdog"] = merged.inconclusive.get("valgrind_watchdog", 0) + 1
            continue
        if rc == 99:
            m = re.search(r"==\d+== (Invalid|Conditional|Use of|Mismatched|Source and)[^\n]*", err)
            what = m.group(0).split("== ", 1)[1][:60] if m else "memcheck error"
            sig = f"valgrind:{what}"
            replay = dict(property="C20", signature=sig, detail=err[-2000:], case={}, cmd=cmd, tier=c["tier"], seed=c["seed"])
            merged.add_violation(sig, err[-1500:], replay)
    merged.counters["sanitizer.valgrind.runs"] = len(results)
    merged.evaluations += len(results)


PROPS["C15"] = dict(
    level="exploration",
    technique="metamorphic relation between two recorded runs of rrss: program vs injectively renamed + re-cased program (keyword/pronoun case and aliases through the spelling)",
    level_text=("Every name of a program (variables, parameters, functions) is replaced injectively by a fresh name of a random kind "
                "(simple, common with any prefix, proper with 2-4 words; ASCII and accented letters with one-to-one case mappings), "
                "every mention is re-cased, and the text is re-rendered with varying keyword aliases and cases; stdout and the "
                "outcome class (Ok / error variant with names erased) of the transformed program must equal the original's. "
                "Corpus: the valid and erroring programs of C03-C07's generators; 4 (quick) / 16 (thorough) transforms each."),
    level_note="Only programs the reference model follows to the end within the budget are used (others may need unbounded resources). Letters whose case mapping is not one-to-one are excluded: 'without regard to case' is not well defined there.",
    rule=("cases = executions of original and transformed programs; distinct_nontrivial = distinct transformed program texts whose stdout and outcome equalled the original's."),
    require=["transforms", "mentions_renamed_and_recased", "programs.c03", "programs.c04", "programs.c05", "programs.c06",
             "programs.c07", "set:kind_to_kind:9", "set:mention_positions:16", "set:base_outcomes:8"],
    assumptions=TRUST_BASE,
    stages=dict(quick=[native("dbg", scale=12)], thorough=[native("dbg", scale=2), native("rel", scale=2)]),
)

PROPS["C16"] = dict(
    level="exploration",
    technique="recording visitors implemented outside the crate (leaf recorder + 15 single-node-type probe recorders + a statement recorder) vs an own model traversal; failure injection at every callback index",
    level_text=("For each parsed tree the event log of a walk with ExprVisitorRunner must be exactly the model traversal (a node missing, "
                "presented twice or out of order is a mismatch); 15 further recorders each override one inner-node callback without "
                "descending, so every node type is observed exactly where it is presented; the folded result must be the left-to-right "
                "concatenation of the callback results; with a failure injected at callback k (every k for the leaf recorder, "
                "sampled k for the probes) exactly k callbacks may happen and the injected error must come back unchanged. The default "
                "VisitProgram traversal is checked the same way at statement level. At BinaryExpression and Assignment both field order "
                "and source order of the children are accepted."),
    level_note="Failure positions are enumerated completely per tree for the leaf recorder.",
    rule=("cases = walks (tree x recorder x failure position); distinct_nontrivial = distinct program texts for which all 16 recorders and the statement recorder matched."),
    exhaustive="per tree: every failure position k of the leaf recorder",
    require=["trees", "walks_matched", "events_compared", "failure_injection_runs", "partial_visitor_walks_matched", "marked_default_walks_matched", "combine_all_calls_matched", "set:node_types_observed:15",
             "set:statement_kinds:19", "set:event_types:9"],
    assumptions=TRUST_BASE,
    stages=dict(quick=[native("dbg", scale=15)], thorough=[native("dbg", scale=8), native("rel", scale=8)]),
)

PROPS["C17"] = dict(
    level="exploration",
    technique="differential between two recorded components of rrss (constant folder result vs executed output) plus syntactic classification of generated expressions",
    level_text=("Generated all-constant arithmetic (number literals incl. 0, fractions, 1e308, 2^53+1; unary minus; + - * / with list "
                "operands; depth <= 6; division by zero giving inf/NaN) must fold, and the interpreter - run on the same expression "
                "after a prelude of disturbing definitions - must print exactly the folded value; the same expression with one leaf "
                "replaced by a variable of any kind, a pronoun, an array element, a call or a pop must not fold. Poetic literals "
                "(assignment and `rock like`) are folded and compared with execution; the string folder is checked on every literal form."),
    level_note="Number texts are compared as text (f64 Display on both sides).",
    rule=("cases = expressions; distinct_nontrivial = distinct program texts that were classified and, if folded, compared with execution."),
    require=["constant_expressions", "non_constant_expressions", "folded_values_compared_with_execution", "non_constants_rejected",
             "non_finite_results", "poetic_literals", "string_folder_cases", "set:leaf_forms:8", "set:string_forms:12"],
    assumptions=TRUST_BASE,
    stages=dict(quick=[native("dbg", scale=50)], thorough=[native("dbg", scale=20), native("rel", scale=20)]),
)

PROPS["C18"] = dict(
    level="exploration",
    technique="reference model of WHICH statements are reported (own constant evaluation over the model tree) + C11's digit rule for the suggested words + rrss itself re-parsing and executing every suggestion",
    level_text=("Generated programs with all assignment forms (put/let, compound, lists, poetic with ordinary expression, rock with "
                "list / poetic) at every nesting depth, constants of every class (zero digits, fractions, 10^k, 1e21, tiny, negative, "
                "-0, inf, NaN, strings with spaces / punctuation / balanced parentheses / line breaks) and near-miss non-constants, "
                "all three target forms. The set of (statement, target, value) the pass reports must equal the model's; the line must "
                "be the statement's (single-line statements); the words of every suggestion must spell the printed value digit by "
                "digit; for a plain-variable target the suggested line must parse, run and give the value back (8 ulp / exact "
                "integers; 9 significant digits for numerals longer than 25 digits); values without a poetic spelling must get no "
                "suggestion; the linter must not panic (debug and release)."),
    level_note="Statements stretched over several lines by a multi-line string have no single correct line: their line is not checked.",
    rule=("cases = linted programs; distinct_nontrivial = distinct program texts with >= 1 expected diagnostic whose diagnostics all matched."),
    require=["programs", "candidate_statements", "diagnostics_matched", "diagnostic_lines_checked", "suggestions_spelling_checked",
             "suggestions_round_tripped", "values_without_poetic_spelling_handled", "set:value_classes:11"],
    assumptions=TRUST_BASE,
    stages=dict(quick=[native("dbg", scale=20), native("rel", scale=20)], thorough=[native("dbg", scale=20), native("rel", scale=20)]),
)

PROPS["C19"] = dict(
    level="exploration",
    technique="metamorphic (combined linter vs single passes, program rendering before vs after), reference rule over recorded variable mentions, outcome monitor on every parsed program",
    level_text=("Every parsed program of four corpora (programs dense in repeated mentions with mixed kinds and cases, programs dense in "
                "constant assignments, accepted token soup / text mutants, ill-typed mutants) is linted under the outcome monitor: no "
                "panic, the program's debug rendering unchanged, standard_linter() output == stable sort by line of the two passes run "
                "alone (ties in pass order). The repeated-identifier pass is compared with the rule evaluated over the recorded "
                "traversal of variable mentions: must-report (same spelling as the previous mention, neither a callee), must-not "
                "(different name), don't-care (case differs only, previous is a callee name, either is a definition-header name)."),
    level_note="Mention lines come from the parser's ranges (C12 checks token positions).",
    rule=("cases = linted programs; distinct_nontrivial = distinct program texts with >= 1 diagnostic for which all checks passed."),
    require=["programs_linted.repeats", "programs_linted.boring", "programs_linted.accepted_soup_or_mutant",
             "programs_linted.ill_typed", "diagnostics", "line_ties_between_passes", "mentions.must_report",
             "mentions.must_not_report", "mentions.dont_care", "programs_rule_checked"],
    assumptions=TRUST_BASE,
    stages=dict(quick=[native("dbg", scale=12), native("rel", scale=12)], thorough=[native("dbg", scale=12), native("rel", scale=12)]),
)

PROPS["C20"] = dict(
    level="exploration",
    technique="end-to-end differential: recorded process behaviour (stdout, stderr, merged stream, exit status) of the freshly built rrss binary vs recorded library behaviour in the harness; valgrind memcheck in thorough",
    level_text=("For generated files (succeeding, failing at parse time, failing at run time after output, reading stdin; contents "
                "from the other corpora and their mutants) x stdin contents (empty, no final newline, blank lines, non-ASCII, more "
                "lines than consumed): `rrss exec` stdout must equal the bytes the library wrote, errors must be on stderr with their "
                "prefix and the library's message and - on one merged pipe - after all program output, stderr must be empty on "
                "success; `rrss lint` must print every library diagnostic in order (or the no-issue message); `rrss parse` must "
                "print the library tree modulo whitespace; a missing file, missing argument or unknown subcommand must give a "
                "non-zero exit status. Thorough adds the dev-profile binary and valgrind memcheck on the release binary."),
    level_note="The binary is the shipped artifact: built from /repo without the verif feature.",
    rule=("cases = process runs; distinct_nontrivial = distinct (file, stdin) cases compared on all four observations."),
    require=["cases", "process_runs.cli", "outcome.success", "outcome.parse_error", "outcome.runtime_error_after_output",
             "usage.missing_file", "usage.missing_argument", "usage.unknown_subcommand"],
    assumptions=TRUST_BASE,
    stages=dict(
        quick=[custom("c20_cli", builds=["cli", "dbg"], n=700, cli="cli")],
        thorough=[custom("c20_cli", builds=["cli", "dbg"], n=12000, cli="cli"),
                  custom("c20_cli", builds=["cli-dev", "dbg"], n=3000, cli="cli-dev"),
                  custom("c20_valgrind", builds=["cli"], n=60)],
    ),
)


# --------------------------------------------------------------------------- ASan and libFuzzer stages (thorough)

def asan_stage(c):
    """The same worker built with -Zsanitizer=address (release profile, unchecked paths live, H1 passive)."""
    import concurrent.futures as cf
    st = c["stage"]
    prop, tier, seed, merged = c["prop"], c["tier"], c["seed"], c["merged"]
    binary = c["binaries"]["asan"]
    outdir = os.path.join(c["outdir"], "asan")
    os.makedirs(outdir, exist_ok=True)
    nshards = c["NCPU"]
    env = dict(c["ENV"])
    env["ASAN_OPTIONS"] = "halt_on_error=1:abort_on_error=1:detect_leaks=0:hard_rss_limit_mb=3000:allocator_may_return_null=0"

    def one(i):
        cmd = [binary, "run", prop, "--tier", tier, "--seed", str(seed), "--shard", str(i), "--nshards", str(nshards),
               "--profile", "asan", "--out", outdir, "--scale", str(st.get("scale", 0.1)), "--passive", "--no-as-limit"]
        import subprocess
        try:
            p = subprocess.run(cmd, env=env, capture_output=True, timeout=st.get("watchdog", 3000), preexec_fn=c["no_limit"])
            return i, p.returncode, p.stderr.decode("utf-8", "replace"), False, cmd
        except subprocess.TimeoutExpired:
            return i, -9, "", True, cmd

    with cf.ThreadPoolExecutor(max_workers=c["NCPU"]) as ex:
        results = list(ex.map(one, range(nshards)))
    cases = 0
    for i, rc, err, to, cmd in results:
        rep_path = f"{outdir}/shard_asan_{i}.json"
        if to:
            merged.inconclusive["asan_watchdog"] = merged.inconclusive.get("asan_watchdog", 0) + 1
            c["inconclusive"].append(f"asan shard {i} hit the watchdog")
            continue
        m = re.search(r"ERROR: AddressSanitizer: ([a-zA-Z\-]+)", err)
        if m:
            if "hard rss limit" in err or "allocation-size-too-big" in err or "out-of-memory" in err:
                merged.inconclusive["asan_resource"] = merged.inconclusive.get("asan_resource", 0) + 1
                c["inconclusive"].append(f"asan shard {i} was lost to a resource limit")
                continue
            frames = re.findall(r"#\d+ 0x[0-9a-f]+ in [^\n]*?%s/(src/[^\s:]+:\d+)" % re.escape(c["REPO"]), err)
            frame = frames[0] if frames else "?"
            sig = f"asan:{m.group(1)}@{frame}"
            j = None
            try:
                with open(f"{outdir}/journal_asan_{i}.txt") as f:
                    j = f.readline().split()[:2]
            except Exception:
                pass
            rcmd = [binary, "replay", prop, "--tier", tier, "--seed", str(seed), "--profile", "asan", "--stage",
                    j[0] if j else "?", "--index", j[1] if j else "0", "--passive", "--no-as-limit"]
            replay = dict(property=prop, signature=sig, detail=err[-3000:], profile="asan", tier=tier, seed=seed,
                          stage=j[0] if j else "?", index=int(j[1]) if j else -1, case={}, cmd=rcmd,
                          env={"ASAN_OPTIONS": env["ASAN_OPTIONS"]})
            merged.add_violation(sig, err[-1500:], replay)
            continue
        if os.path.exists(rep_path):
            with open(rep_path) as f:
                rep = json.load(f)
            cases += rep.get("evaluations", 0)
            merged.add_report(rep, "asan")
            merged.add_hashes(f"{outdir}/shard_asan_{i}.hashes")
            for v in rep.get("violations", []):
                replay = dict(property=prop, signature=v["signature"], detail=v["detail"], profile="asan", tier=tier,
                              seed=seed, stage=v["stage"], index=v["index"], case=v["case"], cmd=cmd,
                              env={"ASAN_OPTIONS": env["ASAN_OPTIONS"]})
                merged.add_violation(v["signature"], v["detail"], replay, v.get("count", 1))
        else:
            c["inconclusive"].append(f"asan shard {i} exited {rc} without a report: {err[-300:]}")
    merged.counters["sanitizer.asan.cases"] = merged.counters.get("sanitizer.asan.cases", 0) + cases


def fuzz_stage(c):
    """libFuzzer (+ASan) as a workload amplifier; every crash artifact is re-run through `vcheck file`,
    so the verdict still comes from the monitors."""
    import glob
    import subprocess
    st = c["stage"]
    if c["CARGO_REPO"]:
        c["inconclusive"].append("the fuzz project is bound to /repo; stage not run for another checkout")
        return
    prop, tier, seed, merged = c["prop"], c["tier"], c["seed"], c["merged"]
    target = st["target"]
    vcheck = c["binaries"]["dbg"]
    vcheck_rel = c["binaries"].get("rel", vcheck)
    fdir = os.path.join(c["ROOT"], "fuzz")
    tdir = f"{c['TARGET']}/fuzz"
    work = os.path.join(c["outdir"], f"fuzz_{target}")
    corpus = os.path.join(work, "corpus")
    arts = os.path.join(work, "artifacts")
    os.makedirs(corpus, exist_ok=True)
    os.makedirs(arts, exist_ok=True)
    env = dict(c["ENV"])
    env["CARGO_NET_OFFLINE"] = "true"
    lock = os.path.join(fdir, "Cargo.lock")
    if not os.path.exists(lock):
        import shutil
        shutil.copy(c["REPO"] + "/Cargo.lock", lock)
    b = subprocess.run(["cargo", "+nightly", "fuzz", "build", "--fuzz-dir", fdir, "--target-dir", tdir, target],
                       env=env, capture_output=True, text=True, cwd=fdir)
    if b.returncode != 0:
        c["inconclusive"].append("cargo fuzz build failed: " + b.stderr[-400:])
        return
    c["run_proc"]([vcheck, "emit", prop, "--out", corpus, "--seed", str(seed), "--n", "400"], 600)
    c["run_proc"]([vcheck, "emit", "DICT", "--out", os.path.join(work, "dict.txt")], 60)
    secs = st.get("seconds", 240)
    cmd = ["cargo", "+nightly", "fuzz", "run", "--fuzz-dir", fdir, "--target-dir", tdir, target, corpus, "--",
           f"-max_total_time={secs}", "-timeout=10", "-rss_limit_mb=2048", f"-fork={c['NCPU']}", "-ignore_crashes=1",
           "-ignore_ooms=1", "-ignore_timeouts=1", f"-dict={work}/dict.txt", f"-artifact_prefix={arts}/",
           f"-seed={seed}", "-len_control=0", "-max_len=2048"]
    try:
        p = subprocess.run(cmd, env=env, capture_output=True, text=True, cwd=fdir, timeout=secs + 600,
                           preexec_fn=c["no_limit"])
        out = p.stderr
    except subprocess.TimeoutExpired:
        c["inconclusive"].append("libFuzzer campaign hit the watchdog")
        return
    execs = 0
    for m in re.finditer(r"#(\d+): cov:", out):
        execs = max(execs, int(m.group(1)))
    for m in re.finditer(r"Done (\d+) runs", out):
        execs = max(execs, int(m.group(1)))
    merged.counters[f"fuzz.{target}.execs"] = execs
    merged.evaluations += execs
    crashes = sorted(glob.glob(os.path.join(arts, "crash-*")))
    merged.counters[f"fuzz.{target}.crash_artifacts"] = len(crashes)
    merged.counters[f"fuzz.{target}.oom_or_timeout_artifacts_ignored"] = len(glob.glob(os.path.join(arts, "oom-*"))) + len(glob.glob(os.path.join(arts, "timeout-*")))
    confirmed = 0
    for a in crashes[:200]:
        for vb, prof in ((vcheck, "dbg"), (vcheck_rel, "rel")):
            rc, o, e, to = c["run_proc"]([vb, "file", prop, a, "--profile", prof], 120)
            if to:
                continue
            try:
                rep = json.loads(o.decode("utf-8", "replace").strip().splitlines()[-1])
            except Exception:
                continue
            for v in rep.get("violations", []):
                confirmed += 1
                keep = os.path.join(c["ROOT"], "replays", prop)
                os.makedirs(keep, exist_ok=True)
                import shutil
                dst = os.path.join(keep, "fuzz_" + os.path.basename(a))
                shutil.copy(a, dst)
                replay = dict(property=prop, signature=v["signature"], detail=v["detail"], profile=prof, tier=tier, seed=seed,
                              case=v["case"], cmd=[vb, "file", prop, dst, "--profile", prof], found_by=f"libFuzzer {target}")
                merged.add_violation(v["signature"], v["detail"], replay, v.get("count", 1))
    merged.counters[f"fuzz.{target}.artifacts_confirmed_by_monitors"] = confirmed
    if execs == 0:
        c["inconclusive"].append("libFuzzer reported no executions")


def c08_cli_faults(c):
    """Stream faults at the process boundary of the shipped binary: a full device / closed pipe on
    stdout, a directory / invalid UTF-8 on stdin. `rrss exec` must report a runtime error on stderr and
    must not panic (exit 101, 'panicked')."""
    import concurrent.futures as cf
    import subprocess
    st = c["stage"]
    binary = c["binaries"]["cli"]
    vcheck = c["binaries"]["dbg"]
    merged = c["merged"]
    d = os.path.join(c["outdir"], "cli_faults")
    os.makedirs(d, exist_ok=True)
    n = st.get("n", 40)
    rc, out, err, to = c["run_proc"]([vcheck, "emit", "C08", "--out", d, "--seed", str(c["seed"]), "--n", str(n)], 600)
    if rc != 0:
        c["inconclusive"].append(f"emit C08 failed: {err[-300:]}")
        return

    def run(cmd, stdin, stdout):
        try:
            p = subprocess.run(cmd, stdin=stdin, stdout=stdout, stderr=subprocess.PIPE, env=c["ENV"], timeout=60)
            return p.returncode, p.stderr.decode("utf-8", "replace")
        except subprocess.TimeoutExpired:
            return None, ""

    def one(i):
        path = f"{d}/case_{i}.rock"
        if not os.path.exists(path):
            return None
        info = json.load(open(f"{d}/case_{i}.json"))
        res = []
        cmd = [binary, "exec", path]
        stdin_path = f"{d}/case_{i}.stdin"
        if info["writes"] > 0:
            with open(stdin_path, "rb") as fin, open("/dev/full", "wb") as full:
                res.append(("stdout_device_full", True) + run(cmd, fin, full))
            r, w = os.pipe()
            os.close(r)
            # The pipe is only broken once NO process holds its read end. Another thread of this driver may have
            # forked a child between pipe() and close(r); until that child has exec'ed it holds a copy, and writes
            # succeed. Wait until a write really fails before using the pipe (seen once in 600 cases on a loaded
            # machine: all five lines of a program went into the pipe and no error was due).
            broken = False
            for _ in range(500):
                try:
                    os.write(w, b"x")
                except BrokenPipeError:
                    broken = True
                    break
                except OSError:
                    break
                time.sleep(0.01)
            with open(stdin_path, "rb") as fin:
                try:
                    if broken:
                        res.append(("stdout_closed_pipe", True) + run(cmd, fin, w))
                finally:
                    os.close(w)
        if info["reads"] > 0:
            fd = os.open(d, os.O_RDONLY)
            try:
                res.append(("stdin_is_a_directory", info["reads_before_writes"]) + run(cmd, fd, subprocess.DEVNULL))
            finally:
                os.close(fd)
            bad = f"{d}/case_{i}.bad"
            open(bad, "wb").write(b"\xff\xfe\xfd\n" * 4)
            with open(bad, "rb") as fin:
                res.append(("stdin_invalid_utf8", True) + run(cmd, fin, subprocess.DEVNULL))
        return i, res

    with cf.ThreadPoolExecutor(max_workers=c["NCPU"]) as ex:
        results = [r for r in ex.map(one, range(n)) if r is not None]
    runs = 0
    for i, res in results:
        for what, must_fail, rc, err in res:
            runs += 1
            merged.counters[f"cli_fault.{what}"] = merged.counters.get(f"cli_fault.{what}", 0) + 1
            if rc is None:
                merged.inconclusive["cli_watchdog"] = merged.inconclusive.get("cli_watchdog", 0) + 1
                continue
            src = open(f"{d}/case_{i}.rock", encoding="utf-8").read()
            cmd = [binary, "exec", f"{d}/case_{i}.rock"]
            if rc == 101 or "panicked" in err or rc < 0:
                sig = f"cli_fault:{what}:panic_or_signal"
                merged.add_violation(sig, f"exit {rc}; stderr {err[-400:]!r}", dict(property="C08", signature=sig, case=dict(src=src), cmd=cmd,
                                     note=f"run with {what}", tier=c["tier"], seed=c["seed"]))
            elif must_fail is True and "Runtime error: " not in err:
                sig = f"cli_fault:{what}:no_runtime_error_reported"
                merged.add_violation(sig, f"exit {rc}; stderr {err[-400:]!r}", dict(property="C08", signature=sig, case=dict(src=src), cmd=cmd,
                                     note=f"run with {what}", tier=c["tier"], seed=c["seed"]))
            else:
                merged.counters["cli_fault_runs_held"] = merged.counters.get("cli_fault_runs_held", 0) + 1
    merged.evaluations += runs
    merged.counters["cli_fault_runs"] = merged.counters.get("cli_fault_runs", 0) + runs
