#!/usr/bin/env python3
"""Regenerate /verif/MANIFEST.json from driver/propcfg.py (kept valid at all times)."""
import json
import os
import subprocess
import sys

ROOT = os.path.dirname(os.path.dirname(os.path.abspath(__file__)))
sys.path.insert(0, os.path.join(ROOT, "driver"))
import propcfg  # noqa: E402

props = [json.loads(l) for l in open(os.path.join(ROOT, "properties.jsonl"))]
hook_commits = subprocess.run(
    ["git", "-C", "/repo", "log", "--format=%H %s", "--grep", "^verif hooks"], capture_output=True, text=True
).stdout.strip().splitlines()

checks = []
not_applicable = []
for p in props:
    pid = p["id"]
    cfg = propcfg.PROPS.get(pid)
    if cfg is None or cfg.get("disabled"):
        not_applicable.append(dict(property_id=pid, reason=(cfg or {}).get(
            "disabled", "check not built yet in this round (runtime monitoring does apply; see DESIGN.md section 4)")))
        continue
    checks.append(dict(
        property_id=pid,
        quick_cmd=f"./check {pid} quick",
        thorough_cmd=f"./check {pid} thorough",
        evidence_file=f"/verif/evidence/{pid}.json",
        replay_cmd_template="./check replay {path}",
        engine="rrss-verif harness",
        level_claimed=dict(category=cfg["level"], text=cfg["level_text"], design_ref=f"DESIGN.md section 4, {pid}"),
        level_note=cfg["level_note"],
        technique=cfg["technique"],
    ))

manifest = dict(
    version=1,
    setup_cmd="./check setup",
    hooks=dict(
        guard="cargo feature `verif` of rrss (off by default)",
        enable="the harness crate depends on rrss by path (/repo) with features = [\"verif\"] through its own default feature `hooks`; every check runs `cargo build --offline` first, so /repo's working tree is rebuilt",
        baseline_off_cmd="cd /repo && cargo test --workspace --no-fail-fast --offline",
        source_commits=[l.split()[0] for l in hook_commits],
        add_only=True,
    ),
    engines=[
        dict(name="rrss-verif harness", path="/verif/harness",
             serves_properties=[c["property_id"] for c in checks],
             kind_free_text="Rust worker (`vcheck`): generators, spelling renderer, reference interpreter with "
                            "three-valued oracle, boundary recorders, hook sinks; python driver `./check` shards it over "
                            "16 processes per build profile (debug semantics / release / Miri / ASan), merges "
                            "counters, writes evidence and replay files"),
    ],
    checks=checks,
    notes="Runtime monitoring and sanitizers only. Verdicts are three-valued: exit 0 held on everything observed, "
          "exit 1 VIOLATION (with replay file), exit 2 INCONCLUSIVE (build failure, watchdog, a monitor that observed nothing). "
          "VERIF_SEED seeds every random choice.",
    not_applicable=not_applicable,
)
with open(os.path.join(ROOT, "MANIFEST.json"), "w") as f:
    json.dump(manifest, f, indent=1)
print(f"MANIFEST.json: {len(checks)} checks, {len(not_applicable)} not claimed")
