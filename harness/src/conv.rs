//! Converter: `rrss::frontend::ast::Program` (public fields) -> model tree, erasing positions.

use crate::mast as m;
use rrss::frontend::ast as a;

pub fn program(p: &a::Program) -> m::Program {
    m::Program {
        blocks: p.code.iter().map(block).collect(),
    }
}

pub fn block(b: &a::Block) -> Vec<m::Stmt> {
    match b {
        a::Block::Empty(_) => Vec::new(),
        a::Block::NonEmpty(ss) => ss.iter().map(stmt).collect(),
    }
}

pub fn name(n: &a::VariableName) -> m::Name {
    match n {
        a::VariableName::Simple(s) => m::Name::Simple(s.0.clone()),
        a::VariableName::Common(c) => m::Name::Common(c.0.clone(), c.1.clone()),
        a::VariableName::Proper(p) => m::Name::Proper(p.0.clone()),
    }
}

pub fn ident(i: &a::Identifier) -> m::Ident {
    match i {
        a::Identifier::VariableName(n) => m::Ident::Name(name(n)),
        a::Identifier::Pronoun => m::Ident::Pronoun,
    }
}

pub fn lit(l: &a::LiteralExpression) -> m::Lit {
    match l {
        a::LiteralExpression::Mysterious => m::Lit::Mysterious,
        a::LiteralExpression::Boolean(b) => m::Lit::Bool(*b),
        a::LiteralExpression::Null => m::Lit::Null,
        a::LiteralExpression::Number(n) => m::Lit::Num(*n),
        a::LiteralExpression::String(s) => m::Lit::Str(s.clone()),
    }
}

pub fn prim(p: &a::PrimaryExpression) -> m::Prim {
    match p {
        a::PrimaryExpression::Literal(l) => m::Prim::Lit(lit(&l.0)),
        a::PrimaryExpression::Identifier(i) => m::Prim::Ident(ident(&i.0)),
        a::PrimaryExpression::ArraySubscript(s) => {
            m::Prim::Sub(Box::new(prim(&s.array)), Box::new(prim(&s.subscript)))
        }
        a::PrimaryExpression::FunctionCall(f) => {
            m::Prim::Call(name(&f.name.0), f.args.iter().map(expr).collect())
        }
        a::PrimaryExpression::ArrayPop(p) => m::Prim::Pop(Box::new(prim(&p.array))),
    }
}

pub fn binop(o: a::BinaryOperator) -> m::BinOp {
    match o {
        a::BinaryOperator::Plus => m::BinOp::Plus,
        a::BinaryOperator::Minus => m::BinOp::Minus,
        a::BinaryOperator::Multiply => m::BinOp::Multiply,
        a::BinaryOperator::Divide => m::BinOp::Divide,
        a::BinaryOperator::And => m::BinOp::And,
        a::BinaryOperator::Or => m::BinOp::Or,
        a::BinaryOperator::Nor => m::BinOp::Nor,
        a::BinaryOperator::Eq => m::BinOp::Eq,
        a::BinaryOperator::NotEq => m::BinOp::NotEq,
        a::BinaryOperator::Greater => m::BinOp::Greater,
        a::BinaryOperator::GreaterEq => m::BinOp::GreaterEq,
        a::BinaryOperator::Less => m::BinOp::Less,
        a::BinaryOperator::LessEq => m::BinOp::LessEq,
    }
}

pub fn list(l: &a::ExpressionList) -> Vec<m::Expr> {
    std::iter::once(&l.first).chain(l.rest.iter()).map(expr).collect()
}

pub fn expr(e: &a::Expression) -> m::Expr {
    match e {
        a::Expression::PrimaryExpression(p) => m::Expr::Prim(prim(p)),
        a::Expression::BinaryExpression(b) => {
            m::Expr::Bin(binop(b.operator), Box::new(expr(&b.lhs)), list(&b.rhs))
        }
        a::Expression::UnaryExpression(u) => m::Expr::Un(
            match u.operator {
                a::UnaryOperator::Minus => m::UnOp::Minus,
                a::UnaryOperator::Not => m::UnOp::Not,
            },
            Box::new(expr(&u.operand)),
        ),
    }
}

pub fn lhs(l: &a::AssignmentLHS) -> m::Lhs {
    match l {
        a::AssignmentLHS::Identifier(i) => m::Lhs::Ident(ident(&i.0)),
        a::AssignmentLHS::ArraySubscript(s) => {
            m::Lhs::Sub(Box::new(prim(&s.array)), Box::new(prim(&s.subscript)))
        }
    }
}

pub fn poetic(p: &a::PoeticNumberLiteral) -> Vec<m::PoeticElem> {
    p.elems
        .iter()
        .map(|e| match e {
            a::PoeticNumberLiteralElem::Word(w) => m::PoeticElem::Word(w.clone()),
            a::PoeticNumberLiteralElem::WordSuffix(w) => m::PoeticElem::Suffix(w.clone()),
            a::PoeticNumberLiteralElem::Dot => m::PoeticElem::Dot,
        })
        .collect()
}

pub fn stmt(s: &a::Statement) -> m::Stmt {
    match s {
        a::Statement::Assignment(x) => m::Stmt::Assign {
            dest: lhs(&x.dest),
            op: x.operator.map(binop),
            value: match &x.value {
                a::AssignmentRHS::ExpressionList(l) => list(l),
            },
        },
        a::Statement::PoeticAssignment(a::PoeticAssignment::Number(x)) => m::Stmt::PoeticNum {
            dest: lhs(&x.dest),
            rhs: match &x.rhs {
                a::PoeticNumberAssignmentRHS::Expression(e) => m::PoeticRhs::Expr(expr(e)),
                a::PoeticNumberAssignmentRHS::PoeticNumberLiteral(p) => {
                    m::PoeticRhs::Lit(poetic(p))
                }
            },
        },
        a::Statement::PoeticAssignment(a::PoeticAssignment::String(x)) => m::Stmt::PoeticStr {
            dest: lhs(&x.dest),
            text: x.rhs.clone(),
        },
        a::Statement::If(x) => m::Stmt::If {
            cond: expr(&x.condition),
            then: block(&x.then_block),
            els: x.else_block.as_ref().map(block),
        },
        a::Statement::While(x) => m::Stmt::While {
            cond: expr(&x.condition),
            body: block(&x.block),
        },
        a::Statement::Until(x) => m::Stmt::Until {
            cond: expr(&x.condition),
            body: block(&x.block),
        },
        a::Statement::Inc(x) => m::Stmt::Inc {
            dest: ident(&x.dest.0),
            n: x.amount as usize,
        },
        a::Statement::Dec(x) => m::Stmt::Dec {
            dest: ident(&x.dest.0),
            n: x.amount as usize,
        },
        a::Statement::Input(x) => m::Stmt::Input {
            dest: x.dest.opt().map(lhs),
        },
        a::Statement::Output(x) => m::Stmt::Output {
            value: expr(&x.value),
        },
        a::Statement::Mutation(x) => m::Stmt::Mutation {
            op: match x.operator {
                a::MutationOperator::Cut => m::MutOp::Cut,
                a::MutationOperator::Join => m::MutOp::Join,
                a::MutationOperator::Cast => m::MutOp::Cast,
            },
            operand: prim(&x.operand),
            dest: x.dest.as_ref().map(lhs),
            param: x.param.as_ref().map(expr),
        },
        a::Statement::Rounding(x) => m::Stmt::Rounding {
            dir: match x.direction {
                a::RoundingDirection::Up => m::RoundDir::Up,
                a::RoundingDirection::Down => m::RoundDir::Down,
                a::RoundingDirection::Nearest => m::RoundDir::Nearest,
            },
            operand: expr(&x.operand),
        },
        a::Statement::Continue(_) => m::Stmt::Continue,
        a::Statement::Break(_) => m::Stmt::Break,
        a::Statement::ArrayPush(x) => m::Stmt::Push {
            array: prim(&x.array),
            value: x.value.as_ref().map(|v| match v {
                a::ArrayPushRHS::ExpressionList(l) => m::PushRhs::List(list(l)),
                a::ArrayPushRHS::PoeticNumberLiteral(p) => m::PushRhs::Poetic(poetic(p)),
            }),
        },
        a::Statement::ArrayPop(x) => m::Stmt::Pop {
            array: prim(&x.expr.array),
            dest: x.dest.as_ref().map(lhs),
        },
        a::Statement::Return(x) => m::Stmt::Return {
            value: expr(&x.value),
        },
        a::Statement::Function(x) => m::Stmt::Function {
            name: name(&x.name.0),
            params: x.data.params.iter().map(|p| name(&p.0)).collect(),
            body: block(&x.data.body),
        },
        a::Statement::FunctionCall(x) => m::Stmt::Call {
            name: name(&x.name.0),
            args: x.args.iter().map(expr).collect(),
        },
    }
}

/// every statement of the program in source (pre-)order: the order in which the renderer numbers them
pub fn statements_preorder(p: &a::Program) -> Vec<&a::Statement> {
    fn blk<'x>(b: &'x a::Block, out: &mut Vec<&'x a::Statement>) {
        if let a::Block::NonEmpty(ss) = b {
            for s in ss {
                out.push(s);
                match s {
                    a::Statement::If(x) => {
                        blk(&x.then_block, out);
                        if let Some(e) = &x.else_block {
                            blk(e, out);
                        }
                    }
                    a::Statement::While(x) => blk(&x.block, out),
                    a::Statement::Until(x) => blk(&x.block, out),
                    a::Statement::Function(x) => blk(&x.data.body, out),
                    _ => {}
                }
            }
        }
    }
    let mut out = Vec::new();
    for b in &p.code {
        blk(b, &mut out);
    }
    out
}
