//! Value universe (C03 / C14) and the bridge between model values and `rrss::exec::val::Val`.

use crate::mast::*;
use crate::refi::{ArrV, Key, V};
use rrss::exec::val::{Array, Val};
use std::collections::VecDeque;

/// One element of the universe: the model value, a label, and (for program-level use) the
/// statements that build it in variable `target`.
#[derive(Clone, Debug)]
pub struct UVal {
    pub label: &'static str,
    pub v: V,
}

fn s(x: &str) -> V {
    V::Str(x.to_string())
}

pub fn universe() -> Vec<UVal> {
    let n = |x: f64| V::Num(x);
    let dict_only = V::Arr(Box::new(ArrV {
        seq: vec![],
        dict: vec![(Key::Str("k".into()), V::Num(1.0))],
    }));
    let mixed = V::Arr(Box::new(ArrV {
        seq: vec![V::Num(1.0), s("a")],
        dict: vec![(Key::Null, V::Bool(true))],
    }));
    vec![
        UVal { label: "mysterious", v: V::Mys },
        UVal { label: "null", v: V::Null },
        UVal { label: "true", v: V::Bool(true) },
        UVal { label: "false", v: V::Bool(false) },
        UVal { label: "0", v: n(0.0) },
        UVal { label: "-0", v: n(-0.0) },
        UVal { label: "1", v: n(1.0) },
        UVal { label: "-1", v: n(-1.0) },
        UVal { label: "2", v: n(2.0) },
        UVal { label: "0.5", v: n(0.5) },
        UVal { label: "-2.5", v: n(-2.5) },
        UVal { label: "3", v: n(3.0) },
        UVal { label: "2^53", v: n(9007199254740992.0) },
        UVal { label: "1e21", v: n(1e21) },
        UVal { label: "1e-7", v: n(1e-7) },
        UVal { label: "NaN", v: n(f64::NAN) },
        UVal { label: "inf", v: n(f64::INFINITY) },
        UVal { label: "-inf", v: n(f64::NEG_INFINITY) },
        UVal { label: "\"\"", v: s("") },
        UVal { label: "\"0\"", v: s("0") },
        UVal { label: "\"1\"", v: s("1") },
        UVal { label: "\" 1\"", v: s(" 1") },
        UVal { label: "\"1e1\"", v: s("1e1") },
        UVal { label: "\"2\"", v: s("2") },
        UVal { label: "\"-0\"", v: s("-0") },
        UVal { label: "\"abc\"", v: s("abc") },
        UVal { label: "\"abd\"", v: s("abd") },
        UVal { label: "\"true\"", v: s("true") },
        UVal { label: "\"null\"", v: s("null") },
        UVal { label: "\"mysterious\"", v: s("mysterious") },
        UVal { label: "\"é\"", v: s("é") },
        UVal { label: "\"NaN\"", v: s("NaN") },
        UVal { label: "\"inf\"", v: s("inf") },
        UVal { label: "[]", v: V::arr(vec![]) },
        UVal { label: "[1]", v: V::arr(vec![n(1.0)]) },
        UVal { label: "[\"1\"]", v: V::arr(vec![s("1")]) },
        UVal { label: "[mysterious]", v: V::arr(vec![V::Mys]) },
        UVal { label: "[1,2]", v: V::arr(vec![n(1.0), n(2.0)]) },
        UVal { label: "[2,1]", v: V::arr(vec![n(2.0), n(1.0)]) },
        UVal { label: "[1,2,3]", v: V::arr(vec![n(1.0), n(2.0), n(3.0)]) },
        UVal { label: "[[1]]", v: V::arr(vec![V::arr(vec![n(1.0)])]) },
        UVal { label: "[[],[]]", v: V::arr(vec![V::arr(vec![]), V::arr(vec![])]) },
        UVal { label: "{k:1}", v: dict_only },
        UVal { label: "[1,a|null:true]", v: mixed },
        // second ring: more boundaries of the numeric-string grammar, magnitudes and array shapes
        UVal { label: "0.1", v: n(0.1) },
        UVal { label: "100", v: n(100.0) },
        UVal { label: "-1e21", v: n(-1e21) },
        UVal { label: "1e-320", v: n(1e-320) },
        UVal { label: "f64::MAX", v: n(f64::MAX) },
        UVal { label: "2^32", v: n(4294967296.0) },
        UVal { label: "\"+1\"", v: s("+1") },
        UVal { label: "\"1.\"", v: s("1.") },
        UVal { label: "\".5\"", v: s(".5") },
        UVal { label: "\"0.0\"", v: s("0.0") },
        UVal { label: "\"-1\"", v: s("-1") },
        UVal { label: "\"1e21\"", v: s("1e21") },
        UVal { label: "\"infinity\"", v: s("infinity") },
        UVal { label: "\" \"", v: s(" ") },
        UVal { label: "\"1 \"", v: s("1 ") },
        UVal { label: "\"false\"", v: s("false") },
        UVal { label: "\"ABC\"", v: s("ABC") },
        UVal { label: "\"ab\"", v: s("ab") },
        UVal { label: "[0]", v: V::arr(vec![n(0.0)]) },
        UVal { label: "[\"\"]", v: V::arr(vec![s("")]) },
        UVal { label: "[null]", v: V::arr(vec![V::Null]) },
        UVal { label: "[true]", v: V::arr(vec![V::Bool(true)]) },
        UVal { label: "[a,b]", v: V::arr(vec![s("a"), s("b")]) },
        UVal { label: "[NaN]", v: V::arr(vec![n(f64::NAN)]) },
        UVal {
            label: "{k:1,j:2}",
            v: V::Arr(Box::new(ArrV {
                seq: vec![],
                dict: vec![(Key::Str("k".into()), V::Num(1.0)), (Key::Str("j".into()), V::Num(2.0))],
            })),
        },
        UVal {
            label: "[1|k:1]",
            v: V::Arr(Box::new(ArrV { seq: vec![V::Num(1.0)], dict: vec![(Key::Str("k".into()), V::Num(1.0))] })),
        },
    ]
}

/// A random value beyond the fixed universe: doubles from raw bit patterns and near the boundaries, strings
/// around the numeric-string grammar, small nested arrays with dictionary parts.
pub fn random_value(rng: &mut crate::rng::Rng, depth: usize) -> V {
    match rng.below(if depth >= 2 { 8 } else { 10 }) {
        0 => rng.pick(&[V::Mys, V::Null, V::Bool(true), V::Bool(false)]).clone(),
        1 => V::Num(f64::from_bits(rng.next_u64())),
        2 => V::Num(rng.range(0, 20) as f64 - 10.0),
        3 => {
            let m = rng.range(0, 2000) as f64 - 1000.0;
            V::Num(m / *rng.pick(&[1.0, 2.0, 3.0, 8.0, 10.0, 1e-3, 1e3, 1e17]))
        }
        4 => V::Num(*rng.pick(&[0.0, -0.0, f64::NAN, f64::INFINITY, f64::NEG_INFINITY, f64::MIN_POSITIVE, f64::EPSILON, 4503599627370496.5, 9007199254740993.0, -1e-310])),
        5 => {
            // numeric-looking text
            let sign = *rng.pick(&["", "", "-", "+", " "]);
            let int = rng.range(0, 120).to_string();
            let frac = *rng.pick(&["", "", ".", ".0", ".5", ".25"]);
            let exp = *rng.pick(&["", "", "", "e0", "e1", "E2", "e-1", "e+1", "e"]);
            let tail = *rng.pick(&["", "", "", " ", "x", "\n", "_"]);
            V::Str(format!("{}{}{}{}{}", sign, int, frac, exp, tail))
        }
        6 => V::Str(rng.pstr(&["nan", "NaN", "inf", "-inf", "Infinity", "infinity", "-Infinity", "+inf", "1_0", "0x10", "١", "1e400", "-1e400", "1e-400", "00", "-0.0", ".", "-", "+", "e1"]).to_string()),
        7 => {
            let n = rng.below(4);
            // (the last five: characters above and below the surrogate range, which UTF-16 order and
            // code-point order sort differently)
            let alphabet = ["a", "b", "A", "é", " ", "z", "0", "ß", "日", "ﬁ", "𝄞", "\u{ffff}", "\u{e000}", "😀"];
            V::Str((0..n).map(|_| rng.pstr(&alphabet)).collect())
        }
        _ => {
            let n = rng.below(4);
            let seq = (0..n).map(|_| random_value(rng, depth + 1)).collect();
            let mut dict = Vec::new();
            if rng.chance(1, 3) {
                for _ in 0..rng.range(1, 2) {
                    let k = match rng.below(4) {
                        0 => Key::Null,
                        1 => Key::Bool(rng.coin()),
                        2 => Key::Mys,
                        _ => Key::Str(rng.pstr(&["k", "j", "", "1x"]).to_string()),
                    };
                    if !dict.iter().any(|(k2, _)| *k2 == k) {
                        dict.push((k, random_value(rng, depth + 1)));
                    }
                }
            }
            V::Arr(Box::new(ArrV { seq, dict }))
        }
    }
}

/// a value that differs from `v` as little as possible
pub fn near_miss(rng: &mut crate::rng::Rng, v: &V) -> Option<V> {
    match v {
        V::Num(n) if n.is_finite() => Some(match rng.below(5) {
            0 => V::Num(f64::from_bits(n.to_bits().wrapping_add(1))),
            1 => V::Num(f64::from_bits(n.to_bits().wrapping_sub(1))),
            2 => V::Num(n * (1.0 + f64::EPSILON)),
            3 => V::Str(format!("{}", f64::from_bits(n.to_bits().wrapping_add(1)))),
            _ => V::Str(format!("{}", n)),
        }),
        V::Num(_) => None,
        V::Str(s) => Some(match rng.below(4) {
            0 => V::Str(format!("{} ", s)),
            1 => V::Str(s.to_uppercase()),
            2 => match s.trim().parse::<f64>() {
                Ok(x) if x.is_finite() => V::Num(f64::from_bits(x.to_bits().wrapping_add(1))),
                _ => V::Str(format!("{}a", s)),
            },
            _ => V::arr(vec![V::Str(s.clone())]),
        }),
        V::Arr(a) => {
            let mut b = (**a).clone();
            match rng.below(4) {
                0 => {
                    // one more dictionary entry
                    let k = Key::Str("extra".into());
                    if b.dict.iter().any(|(k2, _)| *k2 == k) {
                        return None;
                    }
                    b.dict.push((k, V::Num(1.0)));
                }
                1 => {
                    if b.dict.is_empty() {
                        return None;
                    }
                    b.dict.pop();
                }
                2 => b.seq.push(V::Mys),
                _ => {
                    if b.dict.is_empty() {
                        return None;
                    }
                    let last = b.dict.len() - 1;
                    b.dict[last].1 = V::Str("changed".into());
                }
            }
            Some(V::Arr(Box::new(b)))
        }
        V::Bool(b) => Some(V::Str(if *b { "true".into() } else { "false".into() })),
        V::Null => Some(V::Num(-0.0)),
        V::Mys => Some(V::Null),
    }
}

/// model value -> rrss value (through the public API only)
pub fn to_val(v: &V) -> Val {
    match v {
        V::Mys => Val::Undefined,
        V::Null => Val::Null,
        V::Bool(b) => Val::Boolean(*b),
        V::Num(n) => Val::Number(*n),
        V::Str(s) => Val::from(s.clone()),
        V::Arr(a) => {
            let seq: VecDeque<Val> = a.seq.iter().map(to_val).collect();
            let mut val: Val = Array::with_arr(seq).into();
            for (k, x) in &a.dict {
                let kv = match k {
                    Key::Mys => Val::Undefined,
                    Key::Null => Val::Null,
                    Key::Bool(b) => Val::Boolean(*b),
                    Key::Str(s) => Val::from(s.clone()),
                };
                *val.index_or_insert(&kv).expect("dictionary key") = to_val(x);
            }
            val
        }
    }
}

/// Statements that leave the model value `v` in variable `target` (using `tmp` as scratch),
/// built only from forms whose meaning the properties fix.
pub fn build_stmts(v: &V, target: &Name, tmp_prefix: &str, out: &mut Vec<Stmt>) {
    let t = Lhs::Ident(Ident::Name(target.clone()));
    match v {
        V::Mys => out.push(Stmt::Assign {
            dest: t,
            op: None,
            value: vec![Expr::Prim(Prim::Lit(Lit::Mysterious))],
        }),
        V::Null => out.push(Stmt::Assign {
            dest: t,
            op: None,
            value: vec![Expr::Prim(Prim::Lit(Lit::Null))],
        }),
        V::Bool(b) => out.push(Stmt::Assign {
            dest: t,
            op: None,
            value: vec![Expr::Prim(Prim::Lit(Lit::Bool(*b)))],
        }),
        V::Num(n) => out.push(Stmt::Assign {
            dest: t,
            op: None,
            value: vec![num_expr(*n)],
        }),
        V::Str(s) => out.push(Stmt::Assign {
            dest: t,
            op: None,
            value: vec![strlit(s)],
        }),
        V::Arr(a) => {
            // start from an empty array: `rock target` on a fresh (mysterious) variable
            out.push(Stmt::Assign {
                dest: t.clone(),
                op: None,
                value: vec![Expr::Prim(Prim::Lit(Lit::Mysterious))],
            });
            out.push(Stmt::Push {
                array: pvar(target),
                value: None,
            });
            for (i, x) in a.seq.iter().enumerate() {
                let tmp = Name::Simple(format!("{}{}", tmp_prefix, letters(i)));
                build_stmts(x, &tmp, &format!("{}{}", tmp_prefix, letters(i)), out);
                out.push(Stmt::Assign {
                    dest: Lhs::Sub(
                        Box::new(pvar(target)),
                        Box::new(Prim::Lit(Lit::Num(i as f64))),
                    ),
                    op: None,
                    value: vec![var(&tmp)],
                });
            }
            for (j, (k, x)) in a.dict.iter().enumerate() {
                let tmp = Name::Simple(format!("{}k{}", tmp_prefix, letters(j)));
                build_stmts(x, &tmp, &format!("{}k{}", tmp_prefix, letters(j)), out);
                let key = match k {
                    Key::Mys => Lit::Mysterious,
                    Key::Null => Lit::Null,
                    Key::Bool(b) => Lit::Bool(*b),
                    Key::Str(s) => Lit::Str(s.clone()),
                };
                out.push(Stmt::Assign {
                    dest: Lhs::Sub(Box::new(pvar(target)), Box::new(Prim::Lit(key))),
                    op: None,
                    value: vec![var(&tmp)],
                });
            }
        }
    }
}

fn letters(i: usize) -> String {
    // digits are not allowed in identifiers
    let mut s = String::new();
    let mut i = i;
    loop {
        s.push((b'a' + (i % 26) as u8) as char);
        i /= 26;
        if i == 0 {
            break;
        }
    }
    s
}

/// an expression denoting the number `n` (literals are non-negative; NaN and infinities are computed)
pub fn num_expr(n: f64) -> Expr {
    if n.is_nan() {
        bin(BinOp::Divide, num(0.0), num(0.0))
    } else if n == f64::INFINITY {
        bin(BinOp::Divide, num(1.0), num(0.0))
    } else if n == f64::NEG_INFINITY {
        bin(
            BinOp::Divide,
            Expr::Un(UnOp::Minus, Box::new(num(1.0))),
            num(0.0),
        )
    } else if n.is_sign_negative() {
        Expr::Un(UnOp::Minus, Box::new(num(-n)))
    } else {
        num(n)
    }
}

/// an expression denoting the scalar model value (arrays need statements: use a variable)
pub fn scalar_expr(v: &V) -> Option<Expr> {
    match v {
        V::Mys => Some(Expr::Prim(Prim::Lit(Lit::Mysterious))),
        V::Null => Some(Expr::Prim(Prim::Lit(Lit::Null))),
        V::Bool(b) => Some(Expr::Prim(Prim::Lit(Lit::Bool(*b)))),
        V::Num(n) => Some(num_expr(*n)),
        V::Str(s) => Some(strlit(s)),
        V::Arr(_) => None,
    }
}
