//! `vcheck` — worker process of the verification harness.
//!
//!   vcheck run <PROP> --tier quick|thorough --seed N --shard I --nshards N --profile NAME
//!              --out DIR [--scale F] [--deadline-s S]
//!   vcheck replay <PROP> --stage NAME --index K --seed N --tier T --profile NAME

use rrss_verif::ctx::{Ctx, ReplaySpec, Tier};
use rrss_verif::props;
use std::time::{Duration, Instant};

fn arg<'a>(args: &'a [String], name: &str) -> Option<&'a str> {
    args.iter()
        .position(|a| a == name)
        .and_then(|i| args.get(i + 1))
        .map(|s| s.as_str())
}

fn main() {
    let args: Vec<String> = std::env::args().collect();
    if args.len() < 3 {
        eprintln!("usage: vcheck run|replay <PROP> ...");
        std::process::exit(2);
    }
    let mode = args[1].clone();
    let prop = args[2].clone();
    if mode == "observe" {
        // vcheck observe <file> [reps]: print what C10's in-process observer sees (debugging aid)
        let src = std::fs::read_to_string(&prop).expect("read file");
        let reps: usize = args.get(3).and_then(|s| s.parse().ok()).unwrap_or(4);
        let mut ctx = Ctx::new("C10", Tier::Quick, 1, 0, 1, "dbg");
        for _ in 0..reps {
            let o = rrss_verif::props::c10::observe(&src, b"", &mut ctx);
            if let Some((obs, orders)) = o {
                println!("{:?} {} raw={:?}", String::from_utf8_lossy(&obs.stdout), obs.result, orders);
            }
        }
        return;
    }
    if mode == "file" {
        // vcheck file <PROP> <path> [--profile P]: run one input file through the property's monitors
        // (used to re-check fuzzer artifacts: the verdict always comes from the monitors)
        let path = args.get(3).cloned().unwrap_or_default();
        let data = std::fs::read(&path).unwrap_or_default();
        let profile = arg(&args, "--profile").unwrap_or("dbg").to_string();
        let handle = std::thread::Builder::new()
            .stack_size(2 << 30)
            .spawn(move || {
                let mut ctx = Ctx::new(&prop, Tier::Quick, 1, 0, 1, &profile);
                ctx.verbose = true;
                match std::str::from_utf8(&data) {
                    Ok(src) => match prop.as_str() {
                        "C01" => rrss_verif::props::c01::check_input(&mut ctx, src, "file"),
                        "C09" => rrss_verif::props::c09::check_case(&mut ctx, src, b"5\nabc\n", "file"),
                        "C12" => rrss_verif::props::c12::check_text(&mut ctx, src, None),
                        _ => eprintln!("file: unsupported property {}", prop),
                    },
                    Err(_) => eprintln!("not UTF-8: outside every property's quantifier"),
                }
                println!("{}", ctx.report().to_text());
                if ctx.violations.is_empty() { 0 } else { 1 }
            })
            .expect("spawn");
        std::process::exit(handle.join().unwrap_or(3));
    }
    if mode == "emit" {
        // vcheck emit <PROP> --out DIR --seed N --n K : write case files for process-level stages
        let dir = arg(&args, "--out").unwrap_or(".").to_string();
        let seed: u64 = arg(&args, "--seed").and_then(|s| s.parse().ok()).unwrap_or(1);
        let n: usize = arg(&args, "--n").and_then(|s| s.parse().ok()).unwrap_or(10);
        match prop.as_str() {
            "C01" => rrss_verif::props::c01::emit(&dir, seed, n),
            "C08" => rrss_verif::props::c08::emit(&dir, seed, n),
            "C09" => rrss_verif::props::c09::emit(&dir, seed, n),
            "DICT" => rrss_verif::props::c01::emit_dict(&dir),
            "C10" => rrss_verif::props::c10::emit(&dir, seed, n),
            "C20" => rrss_verif::props::c20::emit(&dir, seed, n),
            _ => {
                eprintln!("emit: unknown property {}", prop);
                std::process::exit(2);
            }
        }
        return;
    }
    let tier = match arg(&args, "--tier").unwrap_or("quick") {
        "thorough" => Tier::Thorough,
        _ => Tier::Quick,
    };
    let seed: u64 = arg(&args, "--seed").and_then(|s| s.parse().ok()).unwrap_or(1);
    let shard: usize = arg(&args, "--shard").and_then(|s| s.parse().ok()).unwrap_or(0);
    let nshards: usize = arg(&args, "--nshards").and_then(|s| s.parse().ok()).unwrap_or(1);
    let profile = arg(&args, "--profile").unwrap_or("dbg").to_string();
    let out = arg(&args, "--out").map(|s| s.to_string());
    let scale: f64 = arg(&args, "--scale").and_then(|s| s.parse().ok()).unwrap_or(1.0);
    let deadline_s: u64 = arg(&args, "--deadline-s")
        .and_then(|s| s.parse().ok())
        .unwrap_or(3600);

    // everything runs on a thread with a large (lazily committed) stack so that the nesting
    // depths the properties allow never hit the default 8 MiB
    let handle = std::thread::Builder::new()
        .stack_size(2 << 30)
        .spawn(move || {
            let mut ctx = Ctx::new(&prop, tier, seed, shard, nshards, &profile);
            ctx.scale = scale;
            ctx.miri = args.iter().any(|a| a == "--stage-set") && arg(&args, "--stage-set") == Some("miri");
            if args.iter().any(|a| a == "--passive") {
                rrss_verif::mon::set_passive(true);
            }
            if args.iter().any(|a| a == "--no-as-limit") {
                rrss_verif::mon::set_no_as_limit(true);
            }
            ctx.deadline = Instant::now() + Duration::from_secs(deadline_s);
            if mode == "replay" {
                let stage = arg(&args, "--stage").unwrap_or("").to_string();
                let index: u64 = arg(&args, "--index").and_then(|s| s.parse().ok()).unwrap_or(0);
                ctx.replay = Some(ReplaySpec { stage, index });
                ctx.verbose = true;
            } else if let Some(dir) = &out {
                ctx.set_journal(&format!("{}/journal_{}_{}.txt", dir, ctx.profile, shard));
            }
            if !props::run(&mut ctx) {
                eprintln!("unknown property {}", ctx.prop);
                return 2;
            }
            ctx.journal_done();
            let report = ctx.report();
            if mode == "replay" {
                println!("{}", report.to_text());
                return if ctx.violations.is_empty() { 0 } else { 1 };
            }
            match &out {
                Some(dir) => {
                    let base = format!("{}/shard_{}_{}", dir, ctx.profile, shard);
                    std::fs::write(format!("{}.json", base), report.to_text()).expect("write report");
                    std::fs::write(format!("{}.hashes", base), ctx.distinct_bytes())
                        .expect("write hashes");
                }
                None => println!("{}", report.to_text()),
            }
            0
        })
        .expect("spawn worker thread");
    let code = handle.join().unwrap_or(3);
    std::process::exit(code);
}
