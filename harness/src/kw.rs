//! Keyword alias table, transcribed from the language definition as implemented at the pinned
//! commit (DESIGN.md Appendix A). It is part of the specification the checks use: a removed or
//! altered alias in rrss shows up as a C02 violation.

#[derive(Clone, Copy, Debug, PartialEq, Eq, Hash, PartialOrd, Ord)]
pub enum Kw {
    Mysterious,
    Null,
    True,
    False,
    Empty,
    Pronoun,
    Plus,  // "plus" | "with" | "+"
    Minus, // "minus" | "without" | "-"
    Times,
    Over,
    Into,
    Is,
    Isnt,
    Says,
    Bigger,
    Smaller,
    Big,
    Small,
    Say, // say | shout | whisper | scream
    Cut,
    Join,
    Cast,
    Round,
    Takes,
    Return, // return | give | send (optional words handled by the renderer)
    Put,
    Let,
    Be,
    With,
    And,
    Or,
    Nor,
    Not,
    As,
    Than,
    If,
    Else,
    While,
    Until,
    Build,
    Knock,
    Up,
    Down,
    Listen,
    To,
    Turn,
    Continue,
    Break,
    Take,
    Top,
    Rock,
    Roll,
    At,
    Like,
    Taking,
    Back,
    Prefix, // a an the my your our (only via identifiers)
    It,     // the literal word "it" in `break it down` / `take it to the top`
    The,    // the literal word "the" in `take it to the top`
}

pub fn aliases(k: Kw) -> &'static [&'static str] {
    match k {
        Kw::Mysterious => &["mysterious"],
        Kw::Null => &["null", "nothing", "nowhere", "nobody", "gone"],
        Kw::True => &["true", "right", "yes", "ok"],
        Kw::False => &["false", "wrong", "no", "lies"],
        Kw::Empty => &["empty", "silent", "silence"],
        Kw::Pronoun => &[
            "it", "he", "she", "him", "her", "they", "them", "ze", "hir", "zie", "zir", "xe",
            "xem", "ve", "ver",
        ],
        Kw::Plus => &["plus", "with", "+"],
        Kw::Minus => &["minus", "without", "-"],
        Kw::Times => &["times", "of", "*"],
        Kw::Over => &["over", "between", "/"],
        Kw::Into => &["into", "in"],
        Kw::Is => &["is", "are", "was", "were"],
        Kw::Isnt => &[
            "isnt", "isn't", "aint", "ain't", "arent", "aren't", "wasnt", "wasn't", "werent",
            "weren't",
        ],
        Kw::Says => &["says", "said"],
        Kw::Bigger => &["higher", "greater", "bigger", "stronger"],
        Kw::Smaller => &["lower", "less", "smaller", "weaker"],
        Kw::Big => &["high", "great", "big", "strong"],
        Kw::Small => &["low", "little", "small", "weak"],
        Kw::Say => &["say", "shout", "whisper", "scream"],
        Kw::Cut => &["cut", "split", "shatter"],
        Kw::Join => &["join", "unite"],
        Kw::Cast => &["cast", "burn"],
        Kw::Round => &["round", "around"],
        Kw::Takes => &["takes", "wants"],
        Kw::Return => &["return", "give", "send"],
        Kw::Put => &["put"],
        Kw::Let => &["let"],
        Kw::Be => &["be"],
        Kw::With => &["with"],
        Kw::And => &["and"],
        Kw::Or => &["or"],
        Kw::Nor => &["nor"],
        Kw::Not => &["not"],
        Kw::As => &["as"],
        Kw::Than => &["than"],
        Kw::If => &["if"],
        Kw::Else => &["else"],
        Kw::While => &["while"],
        Kw::Until => &["until"],
        Kw::Build => &["build"],
        Kw::Knock => &["knock"],
        Kw::Up => &["up"],
        Kw::Down => &["down"],
        Kw::Listen => &["listen"],
        Kw::To => &["to"],
        Kw::Turn => &["turn"],
        Kw::Continue => &["continue"],
        Kw::Break => &["break"],
        Kw::Take => &["take"],
        Kw::Top => &["top"],
        Kw::Rock => &["rock"],
        Kw::Roll => &["roll"],
        Kw::At => &["at"],
        Kw::Like => &["like"],
        Kw::Taking => &["taking"],
        Kw::Back => &["back"],
        Kw::Prefix => &["a", "an", "the", "my", "your", "our"],
        Kw::It => &["it"],
        Kw::The => &["the"],
    }
}

pub const ALL_KW: &[Kw] = &[
    Kw::Mysterious,
    Kw::Null,
    Kw::True,
    Kw::False,
    Kw::Empty,
    Kw::Pronoun,
    Kw::Plus,
    Kw::Minus,
    Kw::Times,
    Kw::Over,
    Kw::Into,
    Kw::Is,
    Kw::Isnt,
    Kw::Says,
    Kw::Bigger,
    Kw::Smaller,
    Kw::Big,
    Kw::Small,
    Kw::Say,
    Kw::Cut,
    Kw::Join,
    Kw::Cast,
    Kw::Round,
    Kw::Takes,
    Kw::Return,
    Kw::Put,
    Kw::Let,
    Kw::Be,
    Kw::With,
    Kw::And,
    Kw::Or,
    Kw::Nor,
    Kw::Not,
    Kw::As,
    Kw::Than,
    Kw::If,
    Kw::Else,
    Kw::While,
    Kw::Until,
    Kw::Build,
    Kw::Knock,
    Kw::Up,
    Kw::Down,
    Kw::Listen,
    Kw::To,
    Kw::Turn,
    Kw::Continue,
    Kw::Break,
    Kw::Take,
    Kw::Top,
    Kw::Rock,
    Kw::Roll,
    Kw::At,
    Kw::Like,
    Kw::Taking,
    Kw::Back,
    Kw::Prefix,
];

/// Every reserved word (lower case), i.e. every word that is not usable as a variable name.
pub fn all_words() -> &'static [&'static str] {
    use std::sync::OnceLock;
    static WORDS: OnceLock<Vec<&'static str>> = OnceLock::new();
    WORDS.get_or_init(|| {
        let mut v = Vec::new();
        for k in ALL_KW {
            for a in aliases(*k) {
                if a.chars().all(|c| c.is_alphabetic() || c == '\'') {
                    v.push(*a);
                }
            }
        }
        v.sort();
        v.dedup();
        v
    })
}

pub fn is_keyword(word: &str) -> bool {
    use std::collections::HashSet;
    use std::sync::OnceLock;
    static SET: OnceLock<HashSet<String>> = OnceLock::new();
    let set = SET.get_or_init(|| all_words().iter().map(|w| w.to_string()).collect());
    let lw: String = word.chars().flat_map(|c| c.to_lowercase()).collect();
    set.contains(&lw)
}

/// Words that are literal words (start an ordinary expression after `is`).
pub fn is_literal_word(word: &str) -> bool {
    let lw = word.to_lowercase();
    [Kw::Mysterious, Kw::Null, Kw::True, Kw::False, Kw::Empty]
        .iter()
        .any(|k| aliases(*k).contains(&lw.as_str()))
}

/// (class, alias) pairs the renderer can be asked to cover.
pub fn all_alias_pairs() -> Vec<(Kw, &'static str)> {
    let mut v = Vec::new();
    for k in ALL_KW {
        if *k == Kw::With {
            continue; // same spelling as the `with` alias of Plus; covered by statement forms
        }
        for a in aliases(*k) {
            v.push((*k, *a));
        }
    }
    v
}
