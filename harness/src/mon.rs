//! Monitors at the API boundary of rrss: panic capture, guarded parse / exec / lint with the
//! hooks armed, recording (and fault-injecting) Read / Write.

use std::cell::RefCell;
use std::collections::BTreeMap;
use std::io::{Read, Write};
use std::panic::{catch_unwind, AssertUnwindSafe};
use std::rc::Rc;
use std::sync::Once;

use rrss::frontend::ast::Program;

#[derive(Clone, Copy, Debug, PartialEq, Eq)]
pub enum PanicClass {
    /// logical-step fuel of a hook ran out (non-termination within the budget)
    Fuel,
    /// an H1 unsafe precondition was violated (the trap fired before the UB)
    Precondition,
    /// allocation failure / capacity overflow: outside "modest resource bounds"
    Resource,
    Other,
}

#[derive(Clone, Debug)]
pub struct PanicInfo {
    pub msg: String,
    pub loc: String,
    pub class: PanicClass,
}

impl PanicInfo {
    /// stable signature: location + message with digits and quoted payloads removed
    pub fn signature(&self) -> String {
        let mut m = String::new();
        let mut in_tick = false;
        for c in self.msg.chars() {
            if c == '`' || c == '"' {
                in_tick = !in_tick;
                continue;
            }
            if in_tick || c.is_ascii_digit() {
                continue;
            }
            m.push(c);
        }
        let m: String = m.chars().take(80).collect();
        format!("panic@{}:{}", self.loc, m.trim())
    }
}

static PASSIVE: std::sync::atomic::AtomicBool = std::sync::atomic::AtomicBool::new(false);

/// Passive mode (sanitizer builds): the H1 monitor only records, so the sanitizer sees the real UB.
pub fn set_passive(on: bool) {
    PASSIVE.store(on, std::sync::atomic::Ordering::Relaxed);
}
pub fn passive() -> bool {
    PASSIVE.load(std::sync::atomic::Ordering::Relaxed)
}
static NO_AS_LIMIT: std::sync::atomic::AtomicBool = std::sync::atomic::AtomicBool::new(false);
/// AddressSanitizer needs a huge virtual address space: children must not get an RLIMIT_AS there
pub fn set_no_as_limit(on: bool) {
    NO_AS_LIMIT.store(on, std::sync::atomic::Ordering::Relaxed);
}
fn set_trap(on: bool) {
    rrss::verif::set_trap(on && !passive());
}

thread_local! {
    static LAST_PANIC: RefCell<Option<(String, String)>> = RefCell::new(None);
}

static HOOK: Once = Once::new();

pub fn install_panic_hook() {
    HOOK.call_once(|| {
        std::panic::set_hook(Box::new(|info| {
            let msg = if let Some(s) = info.payload().downcast_ref::<&str>() {
                s.to_string()
            } else if let Some(s) = info.payload().downcast_ref::<String>() {
                s.clone()
            } else {
                "<non-string panic payload>".to_string()
            };
            let loc = info
                .location()
                .map(|l| {
                    let f = l.file();
                    // keep the path from `src/` on so signatures do not depend on where the tree lives
                    let f = match f.rfind("/src/") {
                        Some(i) => &f[i + 1..],
                        None => f,
                    };
                    format!("{}:{}", f, l.line())
                })
                .unwrap_or_else(|| "?".to_string());
            LAST_PANIC.with(|p| *p.borrow_mut() = Some((msg, loc)));
        }));
    });
}

pub fn classify(msg: &str) -> PanicClass {
    if msg.contains(rrss::verif::FUEL_PANIC) {
        PanicClass::Fuel
    } else if msg.contains(rrss::verif::PRE_PANIC) {
        PanicClass::Precondition
    } else if msg.contains("capacity overflow")
        || msg.contains("memory allocation")
        || msg.contains("alloc")
        || msg.contains("Layout")
    {
        PanicClass::Resource
    } else {
        PanicClass::Other
    }
}

/// Run `f`, turning a panic into a value. The panic hook must be installed.
pub fn guarded<T>(f: impl FnOnce() -> T) -> Result<T, PanicInfo> {
    install_panic_hook();
    LAST_PANIC.with(|p| *p.borrow_mut() = None);
    match catch_unwind(AssertUnwindSafe(f)) {
        Ok(v) => Ok(v),
        Err(_) => {
            let (msg, loc) = LAST_PANIC
                .with(|p| p.borrow_mut().take())
                .unwrap_or_else(|| ("<no message captured>".to_string(), "?".to_string()));
            let class = classify(&msg);
            Err(PanicInfo { msg, loc, class })
        }
    }
}

// --------------------------------------------------------------------------- sites

#[derive(Clone, Debug, Default)]
pub struct SiteCounters(pub BTreeMap<String, (u64, u64)>);

impl SiteCounters {
    pub fn absorb(&mut self) {
        for s in rrss::verif::take_sites() {
            let e = self.0.entry(s.name.to_string()).or_insert((0, 0));
            e.0 += s.reached;
            e.1 += s.violated;
        }
    }
    pub fn violated(&self) -> Vec<String> {
        self.0
            .iter()
            .filter(|(_, v)| v.1 > 0)
            .map(|(k, _)| k.clone())
            .collect()
    }
}

// --------------------------------------------------------------------------- parse

#[derive(Clone, Debug)]
pub struct ParseErr {
    /// `ParseError::to_string()`
    pub text: String,
    /// variant name of the error code
    pub code: String,
    /// line named by the rendered message (`Parse error (line N): ...`), i.e. what a user sees;
    /// 0 if the message does not have that shape
    pub line: u32,
    /// line of the error's location value
    pub loc_line: u32,
    /// spelling of the offending token, if the location is a token
    pub token: Option<String>,
}

pub struct ParseRun {
    pub result: Result<Program, ParseErr>,
    pub lex_ticks: u64,
}

fn code_name(code: &rrss::frontend::parser::ParseErrorCode) -> String {
    let d = format!("{:?}", code);
    d.split(|c: char| !c.is_alphanumeric())
        .next()
        .unwrap_or("")
        .to_string()
}

/// Parse under the outcome monitor with lexer fuel (H4) and the H1 trap armed (`trap`).
pub fn parse_guarded(src: &str, fuel_per_byte: u64, trap: bool) -> Result<ParseRun, PanicInfo> {
    rrss::verif::arm_lex(fuel_per_byte.saturating_mul(src.len() as u64 + 16));
    set_trap(trap);
    let r = guarded(|| {
        let result = match rrss::frontend::parser::parse(src) {
            Ok(p) => Ok(p),
            Err(e) => {
                let text = e.to_string();
                let (line, token) = match &e.loc {
                    rrss::frontend::parser::ParseErrorLocation::Token(t) => {
                        (t.range.start().line, Some(t.spelling.to_string()))
                    }
                    rrss::frontend::parser::ParseErrorLocation::Line(l) => (*l, None),
                };
                let shown = text
                    .strip_prefix("Parse error (line ")
                    .and_then(|r| r.split(')').next())
                    .and_then(|n| n.parse::<u32>().ok())
                    .unwrap_or(0);
                Err(ParseErr {
                    text,
                    code: code_name(&e.code),
                    line: shown,
                    loc_line: line,
                    token,
                })
            }
        };
        result
    });
    let ticks = rrss::verif::lex_ticks();
    rrss::verif::arm_lex(u64::MAX);
    rrss::verif::set_trap(false);
    r.map(|result| ParseRun {
        result,
        lex_ticks: ticks,
    })
}

/// Plain parse for harness-internal use (panics are still caught and reported as Err text).
pub fn parse_quiet(src: &str) -> Result<Program, String> {
    match parse_guarded(src, 1000, true) {
        Ok(r) => r.result.map_err(|e| e.text),
        Err(p) => Err(format!("PANIC {} at {}", p.msg, p.loc)),
    }
}

// --------------------------------------------------------------------------- exec

#[derive(Clone)]
pub struct SharedBuf(pub Rc<RefCell<Vec<u8>>>);

impl SharedBuf {
    pub fn new() -> Self {
        SharedBuf(Rc::new(RefCell::new(Vec::new())))
    }
    pub fn take(&self) -> Vec<u8> {
        std::mem::take(&mut *self.0.borrow_mut())
    }
}

impl Write for SharedBuf {
    fn write(&mut self, buf: &[u8]) -> std::io::Result<usize> {
        self.0.borrow_mut().extend_from_slice(buf);
        Ok(buf.len())
    }
    fn flush(&mut self) -> std::io::Result<()> {
        Ok(())
    }
}

#[derive(Clone, Debug)]
pub struct ExecRun {
    /// Ok or the error's display text
    pub result: Result<(), String>,
    /// variant path of the error (Debug, truncated at the first payload)
    pub err_kind: Option<String>,
    pub stdout: Vec<u8>,
    pub stmts: u64,
    pub events: Vec<rrss::verif::StmtEvent>,
    pub dict_orders: Vec<(&'static str, Vec<String>)>,
}

#[derive(Clone, Debug)]
pub enum ExecOutcome {
    Done(ExecRun),
    /// panic (with whatever output was produced before it)
    Panicked(PanicInfo, Vec<u8>),
}

pub fn err_kind(e: &rrss::exec::RuntimeError) -> String {
    // e.g. "ValError(InvalidComparison" -> "ValError.InvalidComparison"
    let d = format!("{:?}", e);
    let mut parts = Vec::new();
    let mut cur = String::new();
    for c in d.chars() {
        if c.is_alphanumeric() || c == '_' {
            cur.push(c);
        } else {
            if !cur.is_empty() {
                parts.push(std::mem::take(&mut cur));
            }
            if parts.len() >= 3 {
                break;
            }
        }
    }
    if !cur.is_empty() && parts.len() < 3 {
        parts.push(cur);
    }
    // keep enum path: RuntimeError variant, inner variant (and SymTableError variant)
    let keep = if parts.get(1).map(|s| s.as_str()) == Some("SymTableError") {
        3
    } else {
        2
    };
    parts.truncate(keep);
    parts.join(".")
}

pub struct ExecOpts {
    pub fuel: u64,
    pub log_events: bool,
    pub log_dict: bool,
    pub trap: bool,
}

impl Default for ExecOpts {
    fn default() -> Self {
        ExecOpts {
            fuel: 200_000,
            log_events: false,
            log_dict: false,
            trap: true,
        }
    }
}

/// Execute under the outcome monitor with statement fuel (H3) and the H1 trap armed.
pub fn exec_guarded(prog: &Program, stdin: &[u8], opts: &ExecOpts) -> ExecOutcome {
    let out = SharedBuf::new();
    exec_guarded_io(prog, std::io::Cursor::new(stdin.to_vec()), out.clone(), opts, &out)
}

pub fn exec_guarded_io<I: Read, O: Write>(
    prog: &Program,
    input: I,
    output: O,
    opts: &ExecOpts,
    captured: &SharedBuf,
) -> ExecOutcome {
    rrss::verif::reset_seq();
    rrss::verif::arm_stmt(opts.fuel, opts.log_events);
    rrss::verif::arm_dict_log(opts.log_dict);
    set_trap(opts.trap);
    let r = guarded(|| {
        let res = rrss::exec::exec_using(input, output, prog);
        match res {
            Ok(()) => (Ok(()), None),
            Err(e) => {
                let kind = err_kind(&e);
                (Err(e.to_string()), Some(kind))
            }
        }
    });
    let stmts = rrss::verif::stmt_count();
    let events = rrss::verif::take_stmt_log();
    let dict_orders = rrss::verif::take_dict_log();
    rrss::verif::arm_stmt(u64::MAX, false);
    rrss::verif::arm_dict_log(false);
    rrss::verif::set_trap(false);
    match r {
        Ok((result, err_kind)) => ExecOutcome::Done(ExecRun {
            result,
            err_kind,
            stdout: captured.take(),
            stmts,
            events,
            dict_orders,
        }),
        Err(p) => ExecOutcome::Panicked(p, captured.take()),
    }
}

/// Several programs run one after another on ONE `Environment` and ONE `ExecStmt` (the public API a REPL would
/// use: `ExecStmt::new(&env)`, `visit_program(&mut self, ..)`). Returns, per program, what it printed and how it
/// ended; `Err` if anything panicked.
pub fn exec_sequence_guarded(progs: &[&Program], fuel: u64) -> Result<Vec<(Vec<u8>, Result<(), String>)>, PanicInfo> {
    use rrss::analysis::visit::VisitProgram;
    let captured = SharedBuf::new();
    let out = captured.clone();
    rrss::verif::reset_seq();
    rrss::verif::arm_stmt(fuel, false);
    set_trap(true);
    let r = guarded(|| {
        let env = rrss::exec::environment::Environment::refcell_raw(&b""[..], out);
        let mut exec = rrss::exec::exec_stmt::ExecStmt::new(&env);
        let mut res = Vec::new();
        for p in progs {
            let r = exec.visit_program(p).map_err(|e| e.to_string());
            res.push((captured.take(), r));
        }
        res
    });
    rrss::verif::arm_stmt(u64::MAX, false);
    rrss::verif::set_trap(false);
    r
}

// --------------------------------------------------------------------------- recording I/O (C08)

#[derive(Clone, Debug, PartialEq, Eq)]
pub enum IoEvent {
    Write {
        seq: u64,
        offered: Vec<u8>,
        accepted: usize,
        fault: Option<&'static str>,
    },
    Flush {
        seq: u64,
    },
    Read {
        seq: u64,
        capacity: usize,
        returned: Vec<u8>,
        fault: Option<&'static str>,
    },
}

impl IoEvent {
    pub fn seq(&self) -> u64 {
        match self {
            IoEvent::Write { seq, .. } | IoEvent::Flush { seq } | IoEvent::Read { seq, .. } => *seq,
        }
    }
}

/// The error kind of an injected stream fault varies with the position of the fault: every kind other than
/// `Interrupted` (which `std` retries, and which is injected separately as a non-fault) is a fault.
pub fn fault_kind(k: usize) -> std::io::ErrorKind {
    use std::io::ErrorKind::*;
    const KINDS: &[std::io::ErrorKind] = &[
        Other, UnexpectedEof, BrokenPipe, TimedOut, WouldBlock, InvalidData, WriteZero, PermissionDenied, ConnectionReset,
        InvalidInput, NotFound, Unsupported,
    ];
    KINDS[k % KINDS.len()]
}

#[derive(Clone, Copy, Debug, PartialEq, Eq)]
pub enum WriteFault {
    /// k-th write call (1-based) returns an error
    ErrorAt(usize),
    /// k-th write call returns Ok(0)
    ZeroAt(usize),
}

#[derive(Clone, Copy, Debug, PartialEq, Eq)]
pub enum ReadFault {
    ErrorAt(usize),
    /// k-th read returns bytes that are not UTF-8
    InvalidUtf8At(usize),
}

#[derive(Clone, Debug, Default)]
pub struct IoPlan {
    pub write_fault: Option<WriteFault>,
    pub read_fault: Option<ReadFault>,
    /// non-faults that must be survived
    pub short_writes: bool,
    pub interrupted_writes: bool,
    pub interrupted_reads: bool,
}

pub type IoLog = Rc<RefCell<Vec<IoEvent>>>;

pub struct RecWriter {
    pub log: IoLog,
    pub plan: IoPlan,
    calls: usize,
    interrupted_last: bool,
    /// after a fault every further call is recorded as such
    pub faulted: bool,
}

impl RecWriter {
    pub fn new(log: IoLog, plan: IoPlan) -> Self {
        RecWriter {
            log,
            plan,
            calls: 0,
            interrupted_last: false,
            faulted: false,
        }
    }
}

impl Write for RecWriter {
    fn write(&mut self, buf: &[u8]) -> std::io::Result<usize> {
        let seq = rrss::verif::next_seq();
        if self.plan.interrupted_writes && !self.interrupted_last && !buf.is_empty() {
            // Interrupted is not a failure: callers must retry
            self.interrupted_last = true;
            self.log.borrow_mut().push(IoEvent::Write {
                seq,
                offered: buf.to_vec(),
                accepted: 0,
                fault: Some("interrupted"),
            });
            return Err(std::io::Error::new(
                std::io::ErrorKind::Interrupted,
                "interrupted (injected, not a fault)",
            ));
        }
        self.interrupted_last = false;
        self.calls += 1;
        match self.plan.write_fault {
            Some(WriteFault::ErrorAt(k)) if self.calls >= k => {
                self.faulted = true;
                self.log.borrow_mut().push(IoEvent::Write {
                    seq,
                    offered: buf.to_vec(),
                    accepted: 0,
                    fault: Some("error"),
                });
                return Err(std::io::Error::new(fault_kind(k), "injected write fault"));
            }
            Some(WriteFault::ZeroAt(k)) if self.calls >= k => {
                self.faulted = true;
                self.log.borrow_mut().push(IoEvent::Write {
                    seq,
                    offered: buf.to_vec(),
                    accepted: 0,
                    fault: Some("zero"),
                });
                return Ok(0);
            }
            _ => {}
        }
        let n = if self.plan.short_writes && buf.len() > 1 {
            (buf.len() + 1) / 2
        } else {
            buf.len()
        };
        self.log.borrow_mut().push(IoEvent::Write {
            seq,
            offered: buf.to_vec(),
            accepted: n,
            fault: None,
        });
        Ok(n)
    }
    fn flush(&mut self) -> std::io::Result<()> {
        let seq = rrss::verif::next_seq();
        self.log.borrow_mut().push(IoEvent::Flush { seq });
        Ok(())
    }
}

pub struct RecReader {
    pub log: IoLog,
    pub plan: IoPlan,
    data: Vec<u8>,
    pos: usize,
    calls: usize,
    interrupted_last: bool,
    /// each read returns at most one input line
    pub line_at_a_time: bool,
}

impl RecReader {
    pub fn new(log: IoLog, plan: IoPlan, data: &[u8], line_at_a_time: bool) -> Self {
        RecReader {
            log,
            plan,
            data: data.to_vec(),
            pos: 0,
            calls: 0,
            interrupted_last: false,
            line_at_a_time,
        }
    }
}

impl Read for RecReader {
    fn read(&mut self, buf: &mut [u8]) -> std::io::Result<usize> {
        let seq = rrss::verif::next_seq();
        if self.plan.interrupted_reads && !self.interrupted_last {
            self.interrupted_last = true;
            self.log.borrow_mut().push(IoEvent::Read {
                seq,
                capacity: buf.len(),
                returned: Vec::new(),
                fault: Some("interrupted"),
            });
            return Err(std::io::Error::new(
                std::io::ErrorKind::Interrupted,
                "interrupted (injected, not a fault)",
            ));
        }
        self.interrupted_last = false;
        self.calls += 1;
        match self.plan.read_fault {
            Some(ReadFault::ErrorAt(k)) if self.calls >= k => {
                self.log.borrow_mut().push(IoEvent::Read {
                    seq,
                    capacity: buf.len(),
                    returned: Vec::new(),
                    fault: Some("error"),
                });
                return Err(std::io::Error::new(fault_kind(k), "injected read fault"));
            }
            Some(ReadFault::InvalidUtf8At(k)) if self.calls >= k => {
                let bad = [0xffu8, 0xfe, b'\n'];
                let n = bad.len().min(buf.len());
                buf[..n].copy_from_slice(&bad[..n]);
                self.log.borrow_mut().push(IoEvent::Read {
                    seq,
                    capacity: buf.len(),
                    returned: bad[..n].to_vec(),
                    fault: Some("invalid_utf8"),
                });
                return Ok(n);
            }
            _ => {}
        }
        let rest = &self.data[self.pos..];
        let mut n = rest.len().min(buf.len());
        if self.line_at_a_time {
            if let Some(i) = rest[..n].iter().position(|b| *b == b'\n') {
                n = i + 1;
            }
        }
        buf[..n].copy_from_slice(&rest[..n]);
        self.pos += n;
        self.log.borrow_mut().push(IoEvent::Read {
            seq,
            capacity: buf.len(),
            returned: rest[..n].to_vec(),
            fault: None,
        });
        Ok(n)
    }
}

// --------------------------------------------------------------------------- lint

#[derive(Clone, Debug, PartialEq, Eq)]
pub struct DiagRec {
    pub line: u32,
    pub issue: String,
    pub suggestions: Vec<String>,
}

pub fn lint_guarded(prog: &Program, which: LintWhich) -> Result<Vec<DiagRec>, PanicInfo> {
    set_trap(true);
    let r = guarded(|| {
        use rrss::linter::passes::{BoringAssignmentPass, MissedPronounPass};
        use rrss::linter::{standard_linter, Linter};
        let mut linter = match which {
            LintWhich::Standard => standard_linter(),
            LintWhich::Boring => Linter::new(vec![Box::new(BoringAssignmentPass)]),
            LintWhich::Pronoun => Linter::new(vec![Box::new(MissedPronounPass::new())]),
        };
        linter
            .run(prog)
            .diags
            .into_iter()
            .map(|d| DiagRec {
                line: d.line,
                issue: d.issue,
                suggestions: d.suggestions,
            })
            .collect::<Vec<_>>()
    });
    rrss::verif::set_trap(false);
    r
}

/// A `Linter` value that is kept and used for one program after another (the API allows it: `Linter::run`
/// takes `&mut self`). What it reports for a program must be what a fresh linter reports.
pub struct ReusedLinter(rrss::linter::Linter);

impl ReusedLinter {
    pub fn new() -> Self {
        ReusedLinter(rrss::linter::standard_linter())
    }
    pub fn run(&mut self, prog: &Program) -> Result<Vec<DiagRec>, PanicInfo> {
        set_trap(true);
        let l = &mut self.0;
        let r = guarded(|| {
            l.run(prog)
                .diags
                .into_iter()
                .map(|d| DiagRec { line: d.line, issue: d.issue, suggestions: d.suggestions })
                .collect::<Vec<_>>()
        });
        rrss::verif::set_trap(false);
        if r.is_err() {
            // a linter that panicked is not used again
            self.0 = rrss::linter::standard_linter();
        }
        r
    }
}

#[derive(Clone, Copy, Debug, PartialEq, Eq)]
pub enum LintWhich {
    Standard,
    Boring,
    Pronoun,
}

// --------------------------------------------------------------------------- isolated children

/// Result of running a closure in a forked child process.
#[derive(Clone, Debug)]
pub struct ChildResult {
    pub exit_code: Option<i32>,
    pub signal: Option<i32>,
    /// everything the child wrote to its report pipe and to stderr (one pipe)
    pub output: Vec<u8>,
}

#[repr(C)]
struct RLimit {
    cur: u64,
    max: u64,
}

extern "C" {
    fn fork() -> i32;
    fn waitpid(pid: i32, status: *mut i32, options: i32) -> i32;
    fn pipe(fds: *mut i32) -> i32;
    fn dup2(old: i32, new: i32) -> i32;
    fn close(fd: i32) -> i32;
    fn read(fd: i32, buf: *mut u8, count: usize) -> isize;
    fn write(fd: i32, buf: *const u8, count: usize) -> isize;
    fn _exit(code: i32) -> !;
    fn setrlimit(resource: i32, rlim: *const RLimit) -> i32;
}

const RLIMIT_CPU: i32 = 0;
const RLIMIT_AS: i32 = 9;
const RLIMIT_CORE: i32 = 4;

pub struct PipeWriter(i32);

impl Write for PipeWriter {
    fn write(&mut self, buf: &[u8]) -> std::io::Result<usize> {
        let n = unsafe { write(self.0, buf.as_ptr(), buf.len()) };
        if n < 0 {
            Err(std::io::Error::last_os_error())
        } else {
            Ok(n as usize)
        }
    }
    fn flush(&mut self) -> std::io::Result<()> {
        Ok(())
    }
}

/// Run `f` in a forked child with an address-space and a CPU-time limit, so that a segfault,
/// abort, allocation failure or runaway loop in rrss cannot take the worker with it. The child
/// reports through the writer it is given; its stderr goes to the same pipe.
pub fn run_in_child(as_limit: u64, cpu_secs: u64, f: impl FnOnce(&mut PipeWriter)) -> ChildResult {
    let mut fds = [0i32; 2];
    if unsafe { pipe(fds.as_mut_ptr()) } != 0 {
        return ChildResult { exit_code: Some(125), signal: None, output: b"pipe failed".to_vec() };
    }
    let pid = unsafe { fork() };
    if pid < 0 {
        unsafe {
            close(fds[0]);
            close(fds[1]);
        }
        return ChildResult { exit_code: Some(125), signal: None, output: b"fork failed".to_vec() };
    }
    if pid == 0 {
        // child
        unsafe {
            close(fds[0]);
            dup2(fds[1], 2);
            if !NO_AS_LIMIT.load(std::sync::atomic::Ordering::Relaxed) {
                let l = RLimit { cur: as_limit, max: as_limit };
                setrlimit(RLIMIT_AS, &l);
            }
            let c = RLimit { cur: cpu_secs, max: cpu_secs + 1 };
            setrlimit(RLIMIT_CPU, &c);
            let z = RLimit { cur: 0, max: 0 };
            setrlimit(RLIMIT_CORE, &z);
        }
        let mut w = PipeWriter(fds[1]);
        // a panic escaping `f` must not unwind into the parent's frames
        let r = catch_unwind(AssertUnwindSafe(|| f(&mut w)));
        unsafe { _exit(if r.is_ok() { 0 } else { 101 }) }
    }
    // parent
    unsafe { close(fds[1]) };
    let mut output = Vec::new();
    let mut buf = [0u8; 4096];
    loop {
        let n = unsafe { read(fds[0], buf.as_mut_ptr(), buf.len()) };
        if n <= 0 {
            break;
        }
        if output.len() < 1 << 20 {
            output.extend_from_slice(&buf[..n as usize]);
        }
    }
    unsafe { close(fds[0]) };
    let mut status = 0i32;
    unsafe { waitpid(pid, &mut status, 0) };
    let sig = status & 0x7f;
    if sig == 0 {
        ChildResult { exit_code: Some((status >> 8) & 0xff), signal: None, output }
    } else {
        ChildResult { exit_code: None, signal: Some(sig), output }
    }
}

pub fn signal_name(sig: i32) -> String {
    match sig {
        4 => "SIGILL".into(),
        6 => "SIGABRT".into(),
        7 => "SIGBUS".into(),
        8 => "SIGFPE".into(),
        9 => "SIGKILL".into(),
        11 => "SIGSEGV".into(),
        24 => "SIGXCPU".into(),
        n => format!("signal{}", n),
    }
}
