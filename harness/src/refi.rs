//! REFERENCE interpreter over the model tree (DESIGN.md 3.3, Appendix B): an independent
//! executable semantics with a three-valued verdict per run (must-equal / must-error /
//! don't-care) and a resource budget.

use crate::mast::*;
use std::cmp::Ordering;
use std::collections::BTreeMap;
use std::rc::Rc;

// ------------------------------------------------------------------------- values

#[derive(Clone, Debug, PartialEq)]
pub enum Key {
    Mys,
    Null,
    Bool(bool),
    Str(String),
}

#[derive(Clone, Debug, Default)]
pub struct ArrV {
    pub seq: Vec<V>,
    /// insertion-ordered association list
    pub dict: Vec<(Key, V)>,
}

#[derive(Clone, Debug)]
pub enum V {
    Mys,
    Null,
    Bool(bool),
    Num(f64),
    Str(String),
    Arr(Box<ArrV>),
}

#[derive(Clone, Copy, Debug, PartialEq, Eq, Hash, PartialOrd, Ord)]
pub enum Kind {
    Mys,
    Null,
    Bool,
    Num,
    Str,
    Arr,
}

impl Kind {
    pub const ALL: [Kind; 6] = [Kind::Mys, Kind::Null, Kind::Bool, Kind::Num, Kind::Str, Kind::Arr];
    pub fn letter(self) -> &'static str {
        match self {
            Kind::Mys => "M",
            Kind::Null => "N",
            Kind::Bool => "B",
            Kind::Num => "#",
            Kind::Str => "S",
            Kind::Arr => "A",
        }
    }
}

impl V {
    pub fn kind(&self) -> Kind {
        match self {
            V::Mys => Kind::Mys,
            V::Null => Kind::Null,
            V::Bool(_) => Kind::Bool,
            V::Num(_) => Kind::Num,
            V::Str(_) => Kind::Str,
            V::Arr(_) => Kind::Arr,
        }
    }
    pub fn arr(seq: Vec<V>) -> V {
        V::Arr(Box::new(ArrV {
            seq,
            dict: Vec::new(),
        }))
    }
    pub fn str(s: &str) -> V {
        V::Str(s.to_string())
    }

    /// strict structural identity (used for arrays inside arrays and for comparing dumps)
    pub fn same(&self, o: &V) -> bool {
        match (self, o) {
            (V::Mys, V::Mys) | (V::Null, V::Null) => true,
            (V::Bool(a), V::Bool(b)) => a == b,
            (V::Num(a), V::Num(b)) => a == b, // NaN != NaN, -0 == 0 (as the derived PartialEq)
            (V::Str(a), V::Str(b)) => a == b,
            (V::Arr(a), V::Arr(b)) => {
                a.seq.len() == b.seq.len()
                    && a.seq.iter().zip(b.seq.iter()).all(|(x, y)| x.same(y))
                    && a.dict.len() == b.dict.len()
                    && a.dict.iter().all(|(k, v)| {
                        b.dict
                            .iter()
                            .find(|(k2, _)| k2 == k)
                            .map_or(false, |(_, v2)| v.same(v2))
                    })
            }
            _ => false,
        }
    }

    pub fn truthy(&self) -> bool {
        match self {
            V::Mys | V::Null => false,
            V::Bool(b) => *b,
            V::Num(n) => *n != 0.0,
            V::Str(_) => true,
            V::Arr(_) => true,
        }
    }

    /// canonical text (what `say` prints)
    pub fn text(&self) -> String {
        match self {
            V::Mys => "mysterious".to_string(),
            V::Null => "null".to_string(),
            V::Bool(b) => (if *b { "true" } else { "false" }).to_string(),
            V::Num(n) => num_text(*n),
            V::Str(s) => s.clone(),
            V::Arr(a) => num_text(a.seq.len() as f64),
        }
    }

    /// rendering used in error messages (`Display for Val`): strings quoted, arrays spelled out
    /// with the dictionary part sorted by its rendered "key: value" text
    pub fn display(&self) -> String {
        match self {
            V::Str(s) => format!("\"{}\"", s),
            V::Arr(a) => {
                let mut parts: Vec<String> = a.seq.iter().map(|v| v.display()).collect();
                let mut d: Vec<String> = a
                    .dict
                    .iter()
                    .map(|(k, v)| {
                        let ks = match k {
                            Key::Mys => "mysterious".to_string(),
                            Key::Null => "null".to_string(),
                            Key::Bool(b) => (if *b { "true" } else { "false" }).to_string(),
                            Key::Str(s) => format!("\"{}\"", s),
                        };
                        format!("{}: {}", ks, v.display())
                    })
                    .collect();
                d.sort();
                parts.extend(d);
                format!("[{}]", parts.join(", "))
            }
            other => other.text(),
        }
    }

    pub fn size(&self) -> usize {
        match self {
            V::Str(s) => s.len(),
            V::Arr(a) => {
                1 + a.seq.iter().map(|v| v.size()).sum::<usize>()
                    + a.dict.iter().map(|(_, v)| 1 + v.size()).sum::<usize>()
            }
            _ => 1,
        }
    }
}

/// Trusted base: Rust's shortest round-trip `Display` for f64 (no exponent).
pub fn num_text(n: f64) -> String {
    format!("{}", n)
}

#[derive(Clone, Debug, PartialEq)]
pub enum Cmp {
    Ord(Ordering),
    /// comparable kinds but no ordering (NaN, unparsable numeric string): all four operators false
    NoOrder,
    Error,
}

pub fn equals(a: &V, b: &V) -> bool {
    use V::*;
    match (a, b) {
        (Mys, Mys) | (Null, Null) | (Mys, Null) | (Null, Mys) => true,
        (Mys, _) | (_, Mys) => false,
        (Bool(x), Bool(y)) => x == y,
        (Num(x), Num(y)) => x == y,
        (Str(x), Str(y)) => x == y,
        (Arr(_), Arr(_)) => a.same(b),
        (Arr(x), Num(n)) | (Num(n), Arr(x)) => (x.seq.len() as f64) == *n,
        (Arr(x), Null) | (Null, Arr(x)) => x.seq.is_empty(),
        (Arr(_), _) | (_, Arr(_)) => false,
        (Null, Bool(x)) | (Bool(x), Null) => !*x,
        (Null, Num(n)) | (Num(n), Null) => *n == 0.0,
        (Null, Str(s)) | (Str(s), Null) => s.is_empty(),
        (Bool(x), Num(n)) | (Num(n), Bool(x)) => (*n != 0.0) == *x,
        (Bool(x), Str(s)) | (Str(s), Bool(x)) => (!s.is_empty()) == *x,
        (Num(n), Str(s)) | (Str(s), Num(n)) => match s.parse::<f64>() {
            Ok(m) => m == *n,
            Err(_) => false,
        },
    }
}

fn pc(a: f64, b: f64) -> Cmp {
    match a.partial_cmp(&b) {
        Some(o) => Cmp::Ord(o),
        None => Cmp::NoOrder,
    }
}

/// ordering of `a` relative to `b`
pub fn compare(a: &V, b: &V) -> Cmp {
    use V::*;
    match (a, b) {
        (Num(x), Num(y)) => pc(*x, *y),
        (Str(x), Str(y)) => Cmp::Ord(x.as_bytes().cmp(y.as_bytes())),
        (Mys, Mys) | (Null, Null) | (Mys, Null) | (Null, Mys) => Cmp::Ord(Ordering::Equal),
        (Null, Num(n)) => pc(0.0, *n),
        (Num(n), Null) => pc(*n, 0.0),
        (Null, Str(s)) => Cmp::Ord("".as_bytes().cmp(s.as_bytes())),
        (Str(s), Null) => Cmp::Ord(s.as_bytes().cmp("".as_bytes())),
        (Arr(x), Num(n)) => pc(x.seq.len() as f64, *n),
        (Num(n), Arr(x)) => pc(*n, x.seq.len() as f64),
        (Arr(x), Null) => pc(x.seq.len() as f64, 0.0),
        (Null, Arr(x)) => pc(0.0, x.seq.len() as f64),
        (Num(n), Str(s)) => match s.parse::<f64>() {
            Ok(m) => pc(*n, m),
            Err(_) => Cmp::NoOrder,
        },
        (Str(s), Num(n)) => match s.parse::<f64>() {
            Ok(m) => pc(m, *n),
            Err(_) => Cmp::NoOrder,
        },
        _ => Cmp::Error,
    }
}

/// Value-or-"over budget" result of an arithmetic operator.
pub enum Ar {
    Val(V),
    TooBig,
}

pub const MAX_VALUE_SIZE: usize = 100_000;

pub fn plus(a: &V, b: &V) -> Ar {
    use V::*;
    let strish = |v: &V| -> Option<String> {
        match v {
            Arr(_) => None,
            other => Some(other.text()),
        }
    };
    match (a, b) {
        (Str(_), _) | (_, Str(_)) => match (strish(a), strish(b)) {
            (Some(x), Some(y)) => {
                if x.len() + y.len() > MAX_VALUE_SIZE {
                    Ar::TooBig
                } else {
                    Ar::Val(Str(x + &y))
                }
            }
            _ => Ar::Val(Mys),
        },
        (Num(x), Num(y)) => Ar::Val(Num(x + y)),
        (Null, Num(y)) => Ar::Val(Num(0.0 + y)),
        (Num(x), Null) => Ar::Val(Num(x + 0.0)),
        (Arr(x), Num(y)) => Ar::Val(Num(x.seq.len() as f64 + y)),
        (Num(x), Arr(y)) => Ar::Val(Num(x + y.seq.len() as f64)),
        (Arr(x), Arr(y)) => Ar::Val(Num(x.seq.len() as f64 + y.seq.len() as f64)),
        _ => Ar::Val(Mys),
    }
}

fn arith_nums(a: &V, b: &V) -> Option<(f64, f64)> {
    use V::*;
    match (a, b) {
        (Num(x), Num(y)) => Some((*x, *y)),
        (Null, Num(y)) => Some((0.0, *y)),
        (Num(x), Null) => Some((*x, 0.0)),
        (Arr(x), Num(y)) => Some((x.seq.len() as f64, *y)),
        (Num(x), Arr(y)) => Some((*x, y.seq.len() as f64)),
        (Arr(x), Arr(y)) => Some((x.seq.len() as f64, y.seq.len() as f64)),
        _ => None,
    }
}

pub fn minus(a: &V, b: &V) -> Ar {
    Ar::Val(match arith_nums(a, b) {
        Some((x, y)) => V::Num(x - y),
        None => V::Mys,
    })
}

pub fn divide(a: &V, b: &V) -> Ar {
    Ar::Val(match arith_nums(a, b) {
        Some((x, y)) => V::Num(x / y),
        None => V::Mys,
    })
}

pub fn times(a: &V, b: &V) -> Ar {
    use V::*;
    if let Some((x, y)) = arith_nums(a, b) {
        return Ar::Val(Num(x * y));
    }
    let count = match (a, b) {
        (Str(_), Num(n)) => Some(*n),
        (Str(_), Arr(x)) => Some(x.seq.len() as f64),
        _ => None,
    };
    match (a, count) {
        (Str(s), Some(n)) if n >= 0.0 => {
            // repetition floor(n) times; time may be proportional to n even for the empty string
            if n.is_infinite() || n > 1e6 || n * (s.len() as f64) > MAX_VALUE_SIZE as f64 {
                return Ar::TooBig;
            }
            Ar::Val(Str(s.repeat(n as usize)))
        }
        _ => Ar::Val(Mys),
    }
}

// ------------------------------------------------------------------------- run result

#[derive(Clone, Debug, PartialEq)]
pub enum RefOutcome {
    Ok,
    /// must be a runtime error (class)
    Error(String),
    /// execution touched a region the property statements leave open
    DontCare(String),
    /// outside the resource budget: discard before running rrss
    OverBudget(String),
}

#[derive(Clone, Debug)]
pub struct RefRun {
    pub out: Vec<u8>,
    pub outcome: RefOutcome,
    pub steps: u64,
    /// statements started (what rrss's H3 hook counts)
    pub stmts: u64,
    pub stats: BTreeMap<&'static str, u64>,
    pub reads: u64,
    pub max_call_depth: usize,
    pub says: u64,
    /// input offset after each `listen` (how much each one consumed)
    pub read_offsets: Vec<usize>,
    /// (operator, kind of left, kind of right) cells the run evaluated
    pub cells: std::collections::BTreeSet<(BinOp, Kind, Kind)>,
}

#[derive(Clone, Debug)]
pub struct Budget {
    pub steps: u64,
    pub call_depth: usize,
}

impl Default for Budget {
    fn default() -> Self {
        Budget {
            steps: 20_000,
            call_depth: 64,
        }
    }
}

// ------------------------------------------------------------------------- interpreter

#[derive(Debug)]
pub enum Stop {
    Error(String),
    DontCare(String),
    OverBudget(String),
}

type X<T> = Result<T, Stop>;

fn err<T>(kind: &str) -> X<T> {
    Err(Stop::Error(kind.to_string()))
}
fn dc<T>(why: &str) -> X<T> {
    Err(Stop::DontCare(why.to_string()))
}

#[derive(Debug)]
struct FuncDef {
    params: Vec<Name>,
    body: Vec<Stmt>,
    /// defined while some block / call scope was open
    nested: bool,
}

#[derive(Clone, Debug)]
enum Entry {
    Var(V),
    Func(Rc<FuncDef>),
}

#[derive(Clone, Debug, PartialEq)]
enum Pron {
    None,
    Known(Name),
    Unspec,
}

#[derive(Clone, Copy, Debug, PartialEq, Eq)]
enum Flow {
    Normal,
    Break,
    Continue,
    Return,
}

pub struct Interp<'i> {
    scopes: Vec<BTreeMap<String, Entry>>,
    /// scope index at which each active call's frame starts
    frames: Vec<(usize, bool)>,
    pron: Pron,
    input: &'i [u8],
    in_pos: usize,
    pub out: Vec<u8>,
    steps: u64,
    stmts: u64,
    budget: Budget,
    stats: BTreeMap<&'static str, u64>,
    reads: u64,
    says: u64,
    read_offsets: Vec<usize>,
    max_call_depth: usize,
    ret: Option<V>,
    cells: std::collections::BTreeSet<(BinOp, Kind, Kind)>,
    /// variables named since the current statement started (keys)
    named: Vec<String>,
    /// options
    pub strict_pronoun_order: bool,
}

pub fn run(p: &Program, input: &[u8], budget: &Budget) -> RefRun {
    run_full(p, input, budget).0
}

/// like `run`, also returning the variables of the global scope at the end (key, value)
pub fn run_full(p: &Program, input: &[u8], budget: &Budget) -> (RefRun, Vec<(String, V)>) {
    let mut it = Interp {
        scopes: vec![BTreeMap::new()],
        frames: Vec::new(),
        pron: Pron::None,
        input,
        in_pos: 0,
        out: Vec::new(),
        steps: 0,
        stmts: 0,
        budget: budget.clone(),
        stats: BTreeMap::new(),
        reads: 0,
        says: 0,
        read_offsets: Vec::new(),
        max_call_depth: 0,
        ret: None,
        cells: Default::default(),
        named: Vec::new(),
        strict_pronoun_order: true,
    };
    let mut outcome = RefOutcome::Ok;
    'outer: for b in &p.blocks {
        match it.block(b) {
            Ok(Flow::Normal) => {}
            Ok(_) => {
                // break / continue / return at top level: what happens next is not specified
                outcome = RefOutcome::DontCare("control-flow statement at top level".into());
                break 'outer;
            }
            Err(Stop::Error(k)) => {
                outcome = RefOutcome::Error(k);
                break 'outer;
            }
            Err(Stop::DontCare(w)) => {
                outcome = RefOutcome::DontCare(w);
                break 'outer;
            }
            Err(Stop::OverBudget(w)) => {
                outcome = RefOutcome::OverBudget(w);
                break 'outer;
            }
        }
    }
    let globals: Vec<(String, V)> = it.scopes[0]
        .iter()
        .filter_map(|(k, e)| match e {
            Entry::Var(v) => Some((k.clone(), v.clone())),
            Entry::Func(_) => None,
        })
        .collect();
    (RefRun {
        out: it.out,
        outcome,
        steps: it.steps,
        stmts: it.stmts,
        stats: it.stats,
        reads: it.reads,
        max_call_depth: it.max_call_depth,
        says: it.says,
        read_offsets: it.read_offsets,
        cells: it.cells,
    }, globals)
}

fn has_side_effects_prim(p: &Prim) -> bool {
    match p {
        Prim::Lit(_) | Prim::Ident(_) => false,
        Prim::Sub(a, s) => has_side_effects_prim(a) || has_side_effects_prim(s),
        Prim::Call(..) | Prim::Pop(_) => true,
    }
}

pub fn has_side_effects(e: &Expr) -> bool {
    match e {
        Expr::Prim(p) => has_side_effects_prim(p),
        Expr::Bin(_, l, r) => has_side_effects(l) || r.iter().any(has_side_effects),
        Expr::Un(_, x) => has_side_effects(x),
    }
}

/// digit rule of poetic number literals -> decimal numeral -> f64 (C11's oracle)
pub fn poetic_value(elems: &[PoeticElem]) -> Option<f64> {
    // words with their suffixes; a suffix without a word before it has no specified meaning
    let mut digits_int = String::new();
    let mut digits_frac = String::new();
    let mut seen_dot = false;
    let mut cur: Option<usize> = None;
    let flush = |cur: &mut Option<usize>, seen_dot: bool, di: &mut String, df: &mut String| {
        if let Some(n) = cur.take() {
            let d = char::from(b'0' + (n % 10) as u8);
            if seen_dot {
                df.push(d)
            } else {
                di.push(d)
            }
        }
    };
    let count = |s: &str| s.chars().filter(|c| *c != '\'').count();
    for e in elems {
        match e {
            PoeticElem::Word(w) => {
                flush(&mut cur, seen_dot, &mut digits_int, &mut digits_frac);
                cur = Some(count(w));
            }
            PoeticElem::Suffix(s) => match cur.as_mut() {
                Some(n) => *n += count(s),
                None => return None,
            },
            PoeticElem::Dot => {
                flush(&mut cur, seen_dot, &mut digits_int, &mut digits_frac);
                seen_dot = true;
            }
        }
    }
    flush(&mut cur, seen_dot, &mut digits_int, &mut digits_frac);
    if digits_int.is_empty() && digits_frac.is_empty() {
        return Some(0.0);
    }
    let text = format!(
        "{}.{}",
        if digits_int.is_empty() { "0" } else { &digits_int },
        if digits_frac.is_empty() { "0" } else { &digits_frac }
    );
    text.parse::<f64>().ok()
}

pub fn ulp_distance(a: f64, b: f64) -> u64 {
    if a == b {
        return 0;
    }
    if a.is_nan() || b.is_nan() || a.is_infinite() || b.is_infinite() {
        return u64::MAX;
    }
    // map the bit patterns to integers that are monotone in the float order
    let to_ord = |x: f64| -> i64 {
        let bits = x.to_bits() as i64;
        if bits < 0 {
            i64::MIN.wrapping_sub(bits)
        } else {
            bits
        }
    };
    let (x, y) = (to_ord(a), to_ord(b));
    x.abs_diff(y)
}

pub fn parse_radix(s: &str, radix: u32) -> Option<i64> {
    // optional sign, then at least one digit valid in `radix`; must fit i64
    let (neg, digits) = match s.as_bytes().first() {
        Some(b'-') => (true, &s[1..]),
        Some(b'+') => (false, &s[1..]),
        _ => (false, s),
    };
    if digits.is_empty() {
        return None;
    }
    let mut acc: i128 = 0;
    for c in digits.chars() {
        let d = c.to_digit(radix)? as i128;
        acc = acc * radix as i128 + d;
        if acc > (i64::MAX as i128) + 1 {
            return None;
        }
    }
    let v = if neg { -acc } else { acc };
    if v < i64::MIN as i128 || v > i64::MAX as i128 {
        None
    } else {
        Some(v as i64)
    }
}

pub fn split_ref(s: &str, delim: &str) -> Vec<String> {
    // left-to-right, non-overlapping occurrences
    let mut out = Vec::new();
    let sb = s.as_bytes();
    let db = delim.as_bytes();
    let mut start = 0usize;
    let mut i = 0usize;
    while i + db.len() <= sb.len() {
        if &sb[i..i + db.len()] == db {
            out.push(s[start..i].to_string());
            i += db.len();
            start = i;
        } else {
            i += 1;
        }
    }
    out.push(s[start..].to_string());
    out
}

pub enum IndexKind {
    Seq(usize),
    Dict(Key),
}

impl<'i> Interp<'i> {
    fn stat(&mut self, k: &'static str) {
        *self.stats.entry(k).or_insert(0) += 1;
    }

    fn step(&mut self) -> X<()> {
        self.steps += 1;
        if self.steps > self.budget.steps {
            return Err(Stop::OverBudget("statement budget".into()));
        }
        Ok(())
    }

    // -------------------------------------------------------------- scopes

    fn push_scope(&mut self) {
        self.scopes.push(BTreeMap::new());
    }
    fn pop_scope(&mut self) {
        self.scopes.pop();
    }

    fn in_function(&self) -> bool {
        !self.frames.is_empty()
    }

    /// innermost-first lookup; returns the scope index
    fn find(&self, key: &str) -> Option<usize> {
        (0..self.scopes.len())
            .rev()
            .find(|i| self.scopes[*i].contains_key(key))
    }

    /// the lexical-vs-dynamic check: inside a call, a name that resolves to a scope belonging to
    /// a caller's activation (neither global nor the callee's own frame) is only visible under
    /// dynamic scoping
    fn scoping_ambiguity(&self, found: Option<usize>) -> Option<&'static str> {
        if let Some((base, nested)) = self.frames.last() {
            match found {
                Some(i) if i != 0 && i < *base => {
                    return Some("name resolves in a caller's activation (dynamic scoping only)")
                }
                None if *nested => {
                    return Some("unknown name inside a nested function (closure semantics open)")
                }
                _ => {}
            }
        }
        None
    }

    fn name_var(&mut self, n: &Name) {
        self.pron = Pron::Known(n.clone());
        self.named.push(n.key());
    }

    fn read_var(&mut self, n: &Name) -> X<V> {
        self.name_var(n);
        let key = n.key();
        let found = self.find(&key);
        if let Some(w) = self.scoping_ambiguity(found) {
            return dc(w);
        }
        match found {
            None => err("name_not_found"),
            Some(i) => match &self.scopes[i][&key] {
                Entry::Var(v) => Ok(v.clone()),
                Entry::Func(_) => dc("function name read as a variable"),
            },
        }
    }

    fn pronoun_name(&mut self) -> X<Name> {
        self.stat("pronoun_uses");
        match self.pron.clone() {
            Pron::None => {
                self.stat("pronoun_uses_without_referent");
                err("missing_pronoun_referent")
            }
            Pron::Unspec => dc("pronoun where the referent is not specified"),
            Pron::Known(n) => Ok(n),
        }
    }

    fn read_ident(&mut self, i: &Ident) -> X<V> {
        match i {
            Ident::Name(n) => self.read_var(n),
            Ident::Pronoun => {
                let n = self.pronoun_name()?;
                // resolving a pronoun does not count as naming a new variable
                let key = n.key();
                let found = self.find(&key);
                if let Some(w) = self.scoping_ambiguity(found) {
                    return dc(w);
                }
                match found {
                    None => err("name_not_found"),
                    Some(i) => match &self.scopes[i][&key] {
                        Entry::Var(v) => Ok(v.clone()),
                        Entry::Func(_) => dc("function name read as a variable"),
                    },
                }
            }
        }
    }

    /// location of a variable for writing: existing visible variable, or a new one in the innermost scope
    fn var_slot(&mut self, n: &Name) -> X<(usize, String)> {
        let key = n.key();
        let found = self.find(&key);
        if let Some(w) = self.scoping_ambiguity(found) {
            return dc(w);
        }
        match found {
            Some(i) => match &self.scopes[i][&key] {
                Entry::Var(_) => Ok((i, key)),
                Entry::Func(_) => dc("assignment to a function name"),
            },
            None => {
                let i = self.scopes.len() - 1;
                self.scopes[i].insert(key.clone(), Entry::Var(V::Mys));
                Ok((i, key))
            }
        }
    }

    fn slot_mut(&mut self, slot: &(usize, String)) -> &mut V {
        match self.scopes[slot.0].get_mut(&slot.1) {
            Some(Entry::Var(v)) => v,
            _ => unreachable!("slot must hold a variable"),
        }
    }

    // -------------------------------------------------------------- expressions

    fn lit(l: &Lit) -> V {
        match l {
            Lit::Mysterious => V::Mys,
            Lit::Null => V::Null,
            Lit::Bool(b) => V::Bool(*b),
            Lit::Num(n) => V::Num(*n),
            Lit::Str(s) => V::Str(s.clone()),
        }
    }

    pub fn index_kind(k: &V) -> X<IndexKind> {
        match k {
            V::Num(n) => {
                if *n > 1_000_000.0 {
                    Err(Stop::OverBudget("huge array index".into()))
                } else if n.is_nan() || *n < 0.0 || n.fract() != 0.0 {
                    dc("array index that is negative, fractional or NaN")
                } else {
                    Ok(IndexKind::Seq(*n as usize))
                }
            }
            V::Mys => Ok(IndexKind::Dict(Key::Mys)),
            V::Null => Ok(IndexKind::Dict(Key::Null)),
            V::Bool(b) => Ok(IndexKind::Dict(Key::Bool(*b))),
            V::Str(s) => Ok(IndexKind::Dict(Key::Str(s.clone()))),
            V::Arr(_) => err("invalid_key"),
        }
    }

    fn index_read(container: &V, key: &V) -> X<V> {
        // Reading far beyond the end (any whole number from 10^9 up, or +inf) is reading a missing element: no
        // value of the model is that long. (Writing there is another matter: it would extend the sequence.)
        if let (V::Num(n), V::Str(_) | V::Arr(_)) = (key, container) {
            if *n >= 1e9 && (n.fract() == 0.0 || *n == f64::INFINITY) {
                return Ok(V::Mys);
            }
            // a zero-based sequence has no element -1 (or NaN): missing, like any other missing element
            if n.is_nan() || *n < 0.0 {
                return Ok(V::Mys);
            }
        }
        match container {
            V::Str(s) => match key {
                V::Num(_) => match Self::index_kind(key)? {
                    IndexKind::Seq(i) => Ok(s
                        .chars()
                        .nth(i)
                        .map_or(V::Mys, |c| V::Str(c.to_string()))),
                    _ => unreachable!(),
                },
                V::Arr(_) => err("invalid_key"),
                _ => dc("string indexed by a non-number"),
            },
            V::Arr(a) => match Self::index_kind(key)? {
                IndexKind::Seq(i) => Ok(a.seq.get(i).cloned().unwrap_or(V::Mys)),
                IndexKind::Dict(k) => Ok(a
                    .dict
                    .iter()
                    .find(|(k2, _)| *k2 == k)
                    .map_or(V::Mys, |(_, v)| v.clone())),
            },
            _ => err("not_indexable"),
        }
    }

    fn prim(&mut self, p: &Prim) -> X<V> {
        match p {
            Prim::Lit(l) => Ok(Self::lit(l)),
            Prim::Ident(i) => self.read_ident(i),
            Prim::Sub(a, s) => {
                let av = self.prim(a)?;
                let sv = self.prim(s)?;
                Self::index_read(&av, &sv)
            }
            Prim::Call(n, args) => self.call(n, args),
            Prim::Pop(target) => self.pop(target),
        }
    }

    fn call(&mut self, n: &Name, args: &[Expr]) -> X<V> {
        self.stat("calls");
        let key = n.key();
        let found = self.find(&key);
        if let Some(w) = self.scoping_ambiguity(found) {
            return dc(w);
        }
        let def = match found {
            None => return err("unknown_function"),
            Some(i) => match &self.scopes[i][&key] {
                Entry::Var(_) => return err("call_of_non_function"),
                Entry::Func(f) => f.clone(),
            },
        };
        if def.params.len() != args.len() {
            if args.iter().any(has_side_effects) {
                return dc("wrong arity with side-effecting arguments (evaluation before the check is open)");
            }
            return err("wrong_arity");
        }
        let mut vals = Vec::new();
        for a in args {
            vals.push(self.expr(a)?);
        }
        {
            let mut keys: Vec<String> = def.params.iter().map(|p| p.key()).collect();
            keys.sort();
            keys.dedup();
            if keys.len() != def.params.len() {
                return dc("duplicate parameter names");
            }
        }
        if self.frames.len() + 1 > self.budget.call_depth {
            return Err(Stop::OverBudget("call depth".into()));
        }
        let mut scope = BTreeMap::new();
        for (p, v) in def.params.iter().zip(vals.into_iter()) {
            scope.insert(p.key(), Entry::Var(v));
        }
        let base = self.scopes.len();
        self.scopes.push(scope);
        self.frames.push((base, def.nested));
        self.max_call_depth = self.max_call_depth.max(self.frames.len());
        let saved_ret = self.ret.take();
        let saved_named = std::mem::take(&mut self.named);
        // At entry the variable most recently named is still the one the caller named last (usually in the
        // last argument): entering a function is not the end of a block or call. It is only left open when a
        // parameter of the same name now hides that variable.
        if let Pron::Known(n) = &self.pron {
            let k = n.key();
            if def.params.iter().any(|p| p.key() == k) {
                self.pron = Pron::Unspec;
            }
        }
        let flow = self.block(&def.body);
        let result = match flow {
            Ok(Flow::Normal) => Ok(V::Mys),
            Ok(Flow::Return) => Ok(self.ret.take().unwrap_or(V::Mys)),
            Ok(Flow::Break) | Ok(Flow::Continue) => {
                dc("break/continue directly in a function body, outside a loop")
            }
            Err(e) => Err(e),
        };
        self.ret = saved_ret;
        self.named = saved_named;
        self.frames.pop();
        self.scopes.truncate(base);
        self.pron = Pron::None;
        result
    }

    fn unary(&mut self, op: UnOp, v: V) -> X<V> {
        match op {
            UnOp::Not => Ok(V::Bool(!v.truthy())),
            UnOp::Minus => match v {
                V::Num(n) => Ok(V::Num(-n)),
                _ => err("negate_non_number"),
            },
        }
    }

    fn ar(&self, a: Ar) -> X<V> {
        match a {
            Ar::Val(v) => Ok(v),
            Ar::TooBig => Err(Stop::OverBudget("value size".into())),
        }
    }

    /// one step of the left fold `a op b`, `b` evaluated lazily
    fn binop_step(&mut self, op: BinOp, a: V, b: &Expr) -> X<V> {
        match op {
            BinOp::And => {
                self.cells.insert((op, a.kind(), Kind::Mys));
                if !a.truthy() {
                    self.stat("short_circuits");
                    return Ok(V::Bool(false));
                }
                let bv = self.expr(b)?;
                Ok(V::Bool(bv.truthy()))
            }
            BinOp::Or => {
                if a.truthy() {
                    self.stat("short_circuits");
                    return Ok(V::Bool(true));
                }
                let bv = self.expr(b)?;
                Ok(V::Bool(bv.truthy()))
            }
            BinOp::Nor => {
                if a.truthy() {
                    self.stat("short_circuits");
                    return Ok(V::Bool(false));
                }
                let bv = self.expr(b)?;
                Ok(V::Bool(!bv.truthy()))
            }
            _ => {
                let bv = self.expr(b)?;
                self.binop_vals(op, &a, &bv)
            }
        }
    }

    pub fn binop_vals(&mut self, op: BinOp, a: &V, bv: &V) -> X<V> {
        self.cells.insert((op, a.kind(), bv.kind()));
        match op {
            BinOp::Plus => self.ar(plus(a, bv)),
            BinOp::Minus => self.ar(minus(a, bv)),
            BinOp::Multiply => self.ar(times(a, bv)),
            BinOp::Divide => self.ar(divide(a, bv)),
            BinOp::Eq => Ok(V::Bool(equals(a, bv))),
            BinOp::NotEq => Ok(V::Bool(!equals(a, bv))),
            BinOp::Greater | BinOp::GreaterEq | BinOp::Less | BinOp::LessEq => {
                match compare(a, bv) {
                    Cmp::Error => err("invalid_comparison"),
                    Cmp::NoOrder => Ok(V::Bool(false)),
                    Cmp::Ord(o) => Ok(V::Bool(match op {
                        BinOp::Greater => o == Ordering::Greater,
                        BinOp::GreaterEq => o != Ordering::Less,
                        BinOp::Less => o == Ordering::Less,
                        _ => o != Ordering::Greater,
                    })),
                }
            }
            BinOp::And | BinOp::Or | BinOp::Nor => unreachable!(),
        }
    }

    pub fn expr(&mut self, e: &Expr) -> X<V> {
        match e {
            Expr::Prim(p) => self.prim(p),
            Expr::Un(op, x) => {
                let v = self.expr(x)?;
                self.unary(*op, v)
            }
            Expr::Bin(op, l, r) => {
                let mut acc = self.expr(l)?;
                for b in r {
                    acc = self.binop_step(*op, acc, b)?;
                }
                Ok(acc)
            }
        }
    }

    // -------------------------------------------------------------- places

    /// Apply `f` to the place denoted by an identifier-or-subscript primary (creating it as needed).
    fn with_place<T>(
        &mut self,
        target: &Prim,
        f: &mut dyn FnMut(&mut V) -> X<T>,
    ) -> X<T> {
        // collect subscripts from the outside in
        let mut subs: Vec<&Prim> = Vec::new();
        let mut cur = target;
        loop {
            match cur {
                Prim::Sub(a, s) => {
                    subs.push(s);
                    cur = a;
                }
                _ => break,
            }
        }
        let base = match cur {
            Prim::Ident(i) => i,
            _ => return dc("write through something that is not a variable"),
        };
        if subs.len() >= 2 && subs.iter().any(|s| has_side_effects_prim(s)) {
            return dc("evaluation order of several side-effecting subscripts in a write");
        }
        // evaluate subscripts (the order does not matter without side effects)
        let pron_before = self.pron.clone();
        let mut keys = Vec::new();
        for s in &subs {
            keys.push(self.prim(s)?);
        }
        keys.reverse(); // innermost subscript first
        let name = match base {
            Ident::Name(n) => {
                self.name_var(n);
                n.clone()
            }
            Ident::Pronoun => {
                if self.pron != pron_before {
                    return dc("pronoun base after its subscripts named another variable");
                }
                self.pronoun_name()?
            }
        };
        let slot = self.var_slot(&name)?;
        // navigate
        let mut kinds = Vec::new();
        for k in &keys {
            kinds.push((Self::index_kind_for_write(k)?, k.clone()));
        }
        let root = self.slot_mut(&slot);
        let mut place: &mut V = root;
        for (kind, _) in kinds {
            if let V::Mys = place {
                *place = V::arr(vec![]);
            }
            match place {
                V::Arr(a) => match kind {
                    IndexKind::Seq(i) => {
                        if i >= a.seq.len() {
                            if i > 200_000 {
                                return Err(Stop::OverBudget("array extension".into()));
                            }
                            a.seq.resize(i + 1, V::Mys);
                        }
                        place = &mut a.seq[i];
                    }
                    IndexKind::Dict(k) => {
                        let pos = match a.dict.iter().position(|(k2, _)| *k2 == k) {
                            Some(p) => p,
                            None => {
                                a.dict.push((k, V::Mys));
                                a.dict.len() - 1
                            }
                        };
                        place = &mut a.dict[pos].1;
                    }
                },
                V::Str(_) => return dc("assignment into a string index"),
                _ => return err("not_indexable"),
            }
        }
        f(place)
    }

    fn index_kind_for_write(k: &V) -> X<IndexKind> {
        if let V::Num(n) = k {
            if n.is_nan() || *n < 0.0 {
                // there is no element -1 to write to (and writing must not land on element 0)
                return err("invalid_key");
            }
        }
        Self::index_kind(k)
    }

    fn lhs_as_prim(l: &Lhs) -> Prim {
        match l {
            Lhs::Ident(i) => Prim::Ident(i.clone()),
            Lhs::Sub(a, s) => Prim::Sub(a.clone(), s.clone()),
        }
    }

    fn assign(&mut self, l: &Lhs, v: V) -> X<()> {
        let p = Self::lhs_as_prim(l);
        let mut v = Some(v);
        self.with_place(&p, &mut |place| {
            *place = v.take().unwrap();
            Ok(())
        })
    }

    fn pop(&mut self, target: &Prim) -> X<V> {
        self.stat("rolls");
        self.with_place(target, &mut |place| match place {
            V::Arr(a) => {
                if a.seq.is_empty() {
                    Ok(V::Mys)
                } else {
                    Ok(a.seq.remove(0))
                }
            }
            _ => dc("roll of something that is not an array"),
        })
    }

    // -------------------------------------------------------------- statements

    fn block(&mut self, ss: &[Stmt]) -> X<Flow> {
        for s in ss {
            let f = self.stmt(s)?;
            if f != Flow::Normal {
                return Ok(f);
            }
        }
        Ok(Flow::Normal)
    }

    /// after a statement with a value part and a destination part: the referent is only
    /// specified if every variable named by the statement is the same one
    fn settle_pronoun(&mut self, start_pron: &Pron) {
        let mut ks = self.named.clone();
        ks.sort();
        ks.dedup();
        if ks.len() > 1 {
            self.pron = Pron::Unspec;
        } else if ks.is_empty() {
            // nothing named: unchanged (unless a call/pop cleared it)
            let _ = start_pron;
        }
    }

    fn read_line(&mut self) -> X<String> {
        self.reads += 1;
        let rest = &self.input[self.in_pos..];
        let n = match rest.iter().position(|b| *b == b'\n') {
            Some(i) => i + 1,
            None => rest.len(),
        };
        let line = &rest[..n];
        self.in_pos += n;
        self.read_offsets.push(self.in_pos);
        let mut s = match std::str::from_utf8(line) {
            Ok(s) => s.to_string(),
            Err(_) => return err("io_error"),
        };
        if s.ends_with('\n') {
            s.pop();
        }
        Ok(s)
    }

    fn loop_stmt(&mut self, cond: &Expr, body: &[Stmt], invert: bool) -> X<Flow> {
        let mut iterations = 0u64;
        let before = self.pron.clone();
        loop {
            let n0 = self.named.len();
            let c = self.expr(cond)?.truthy();
            let cond_named = self.named.len() > n0;
            if c == invert {
                // normal exit
                self.pron = if cond_named {
                    Pron::Unspec
                } else if iterations > 0 {
                    Pron::None
                } else {
                    before
                };
                return Ok(Flow::Normal);
            }
            iterations += 1;
            self.stat("loop_iterations");
            self.step()?;
            self.push_scope();
            let f = self.block(body);
            self.pop_scope();
            self.pron = Pron::None;
            match f? {
                Flow::Normal => {}
                Flow::Continue => {
                    self.stat("continues");
                }
                Flow::Break => {
                    self.stat("breaks");
                    return Ok(Flow::Normal);
                }
                Flow::Return => {
                    self.stat("returns_through_loop");
                    return Ok(Flow::Return);
                }
            }
        }
    }

    fn stmt(&mut self, s: &Stmt) -> X<Flow> {
        self.step()?;
        self.stmts += 1;
        self.named.clear();
        let start_pron = self.pron.clone();
        match s {
            Stmt::Assign { dest, op, value } => {
                let v = match op {
                    Some(op) => {
                        // fold from the current value of the destination
                        let mut acc = match dest {
                            Lhs::Ident(i) => self.read_ident(i)?,
                            Lhs::Sub(a, s2) => {
                                let av = self.prim(a)?;
                                let sv = self.prim(s2)?;
                                if has_side_effects_prim(s2) || has_side_effects_prim(a) {
                                    return dc("compound assignment with a side-effecting target");
                                }
                                Self::index_read(&av, &sv)?
                            }
                        };
                        for e in value {
                            acc = self.binop_step(*op, acc, e)?;
                        }
                        acc
                    }
                    None => {
                        if value.len() != 1 {
                            return dc("expression list in a plain assignment");
                        }
                        self.expr(&value[0])?
                    }
                };
                if matches!(dest, Lhs::Ident(Ident::Pronoun)) && self.pron != start_pron {
                    return dc("pronoun target after the value named another variable");
                }
                if let Lhs::Sub(a, _) = dest {
                    if matches!(a.leftmost(), Prim::Ident(Ident::Pronoun)) && self.pron != start_pron {
                        return dc("pronoun target after the value named another variable");
                    }
                }
                self.assign(dest, v)?;
                self.settle_pronoun(&start_pron);
            }
            Stmt::PoeticNum { dest, rhs } => {
                let v = match rhs {
                    PoeticRhs::Expr(e) => self.expr(e)?,
                    PoeticRhs::Lit(elems) => match poetic_value(elems) {
                        Some(n) => V::Num(n),
                        None => return dc("poetic literal with a suffix that has no word"),
                    },
                };
                if matches!(dest, Lhs::Ident(Ident::Pronoun)) && self.pron != start_pron {
                    return dc("pronoun target after the value named another variable");
                }
                self.assign(dest, v)?;
                self.settle_pronoun(&start_pron);
            }
            Stmt::PoeticStr { dest, text } => {
                self.assign(dest, V::Str(text.clone()))?;
                self.settle_pronoun(&start_pron);
            }
            Stmt::If { cond, then, els } => {
                let c = self.expr(cond)?.truthy();
                self.stat(if c { "if_true" } else { "if_false" });
                if c {
                    self.push_scope();
                    let f = self.block(then);
                    self.pop_scope();
                    self.pron = Pron::None;
                    if let Ok(Flow::Return) = f {
                        self.stat("returns_through_if");
                    }
                    return f;
                } else if let Some(e) = els {
                    self.stat("else_taken");
                    self.push_scope();
                    let f = self.block(e);
                    self.pop_scope();
                    self.pron = Pron::None;
                    if let Ok(Flow::Return) = f {
                        self.stat("returns_through_if");
                    }
                    return f;
                } else {
                    // no block ran, so none has ended: the referent is still the variable named last (in the
                    // condition, if it named one)
                }
            }
            Stmt::While { cond, body } => return self.loop_stmt(cond, body, false),
            Stmt::Until { cond, body } => return self.loop_stmt(cond, body, true),
            Stmt::Inc { dest, n } | Stmt::Dec { dest, n } => {
                let up = matches!(s, Stmt::Inc { .. });
                let k = *n as f64;
                let odd = n % 2 == 1;
                let p = Prim::Ident(dest.clone());
                self.with_place(&p, &mut |place| {
                    if let V::Null = place {
                        *place = V::Num(0.0);
                    }
                    match place {
                        V::Num(x) => {
                            *x = if up { *x + k } else { *x - k };
                            Ok(())
                        }
                        V::Bool(b) => {
                            if odd {
                                *b = !*b;
                            }
                            Ok(())
                        }
                        _ => err("invalid_increment"),
                    }
                })?;
            }
            Stmt::Input { dest } => {
                let line = self.read_line()?;
                if let Some(d) = dest {
                    self.assign(d, V::Str(line))?;
                    self.settle_pronoun(&start_pron);
                }
            }
            Stmt::Output { value } => {
                let v = self.expr(value)?;
                let t = v.text();
                if self.out.len() + t.len() > 4_000_000 {
                    return Err(Stop::OverBudget("output size".into()));
                }
                self.out.extend_from_slice(t.as_bytes());
                self.out.push(b'\n');
                self.says += 1;
            }
            Stmt::Mutation {
                op,
                operand,
                dest,
                param,
            } => {
                let pv = match param {
                    Some(p) => Some(self.expr(p)?),
                    None => None,
                };
                if let Some(d) = dest {
                    let mut v = self.prim(operand)?;
                    Self::mutate(*op, &mut v, pv)?;
                    if matches!(d, Lhs::Ident(Ident::Pronoun)) && self.pron != start_pron {
                        return dc("pronoun target after the operands named another variable");
                    }
                    self.assign(d, v)?;
                } else {
                    if matches!(operand, Prim::Ident(Ident::Pronoun)) && self.pron != start_pron {
                        return dc("pronoun operand after the parameter named another variable");
                    }
                    let opx = *op;
                    let mut pv = Some(pv);
                    self.with_place(operand, &mut |place| {
                        Self::mutate(opx, place, pv.take().unwrap())
                    })?;
                }
                self.settle_pronoun(&start_pron);
            }
            Stmt::Rounding { dir, operand } => {
                let target = match operand {
                    Expr::Prim(p @ Prim::Ident(_)) | Expr::Prim(p @ Prim::Sub(..)) => p.clone(),
                    _ => return dc("rounding of something that is not a variable or element"),
                };
                let d = *dir;
                self.with_place(&target, &mut |place| match place {
                    V::Num(x) => {
                        *x = match d {
                            RoundDir::Up => x.ceil(),
                            RoundDir::Down => x.floor(),
                            RoundDir::Nearest => x.round(),
                        };
                        Ok(())
                    }
                    _ => err("round_non_number"),
                })?;
                self.settle_pronoun(&start_pron);
            }
            Stmt::Continue => return Ok(Flow::Continue),
            Stmt::Break => return Ok(Flow::Break),
            Stmt::Push { array, value } => {
                self.stat("rocks");
                let mut vals = Vec::new();
                match value {
                    None => {}
                    Some(PushRhs::List(es)) => {
                        for e in es {
                            vals.push(self.expr(e)?);
                        }
                    }
                    Some(PushRhs::Poetic(elems)) => match poetic_value(elems) {
                        Some(n) => vals.push(V::Num(n)),
                        None => return dc("poetic literal with a suffix that has no word"),
                    },
                }
                if matches!(array.leftmost(), Prim::Ident(Ident::Pronoun)) && self.pron != start_pron {
                    return dc("pronoun target after the values named another variable");
                }
                let mut vals = Some(vals);
                self.with_place(array, &mut |place| {
                    match &*place {
                        V::Arr(_) => {}
                        V::Mys => *place = V::arr(vec![]),
                        other => {
                            let old = other.clone();
                            *place = V::arr(vec![old]);
                        }
                    }
                    if let V::Arr(a) = place {
                        a.seq.extend(vals.take().unwrap());
                        if a.seq.len() > MAX_VALUE_SIZE {
                            return Err(Stop::OverBudget("array size".into()));
                        }
                    }
                    Ok(())
                })?;
                self.settle_pronoun(&start_pron);
            }
            Stmt::Pop { array, dest } => {
                let v = self.pop(array)?;
                if let Some(d) = dest {
                    self.assign(d, v)?;
                }
                self.settle_pronoun(&start_pron);
            }
            Stmt::Return { value } => {
                if !self.in_function() {
                    return dc("return at top level");
                }
                let v = self.expr(value)?;
                self.ret = Some(v);
                self.stat("returns");
                return Ok(Flow::Return);
            }
            Stmt::Function { name, params, body } => {
                let key = name.key();
                let top = self.scopes.len() - 1;
                if self.scopes[top].contains_key(&key) {
                    return dc("redefinition of a name in the same scope");
                }
                let nested = self.scopes.len() > 1;
                self.scopes[top].insert(
                    key,
                    Entry::Func(Rc::new(FuncDef {
                        params: params.clone(),
                        body: body.clone(),
                        nested,
                    })),
                );
                self.pron = Pron::Unspec;
            }
            Stmt::Call { name, args } => {
                self.call(name, args)?;
            }
        }
        Ok(Flow::Normal)
    }

    pub fn mutate(op: MutOp, v: &mut V, param: Option<V>) -> X<()> {
        match op {
            MutOp::Cut => match v {
                V::Str(s) => {
                    let delim = match &param {
                        None => "",
                        Some(V::Str(d)) => d.as_str(),
                        Some(_) => return err("invalid_split_delimiter"),
                    };
                    let parts: Vec<V> = if s.is_empty() {
                        Vec::new()
                    } else if delim.is_empty() {
                        s.chars().map(|c| V::Str(c.to_string())).collect()
                    } else {
                        split_ref(s, delim).into_iter().map(V::Str).collect()
                    };
                    *v = V::arr(parts);
                    Ok(())
                }
                _ => err("split_non_string"),
            },
            MutOp::Join => match v {
                V::Arr(a) => {
                    let delim = match &param {
                        None => "",
                        Some(V::Str(d)) => d.as_str(),
                        Some(_) => return err("invalid_join_delimiter"),
                    };
                    if a.dict.len() >= 2 {
                        return dc("join over two or more dictionary entries (order unspecified)");
                    }
                    let mut parts: Vec<&str> = Vec::new();
                    for x in a.seq.iter().chain(a.dict.iter().map(|(_, v)| v)) {
                        match x {
                            V::Str(s) => parts.push(s),
                            _ => return err("invalid_join_element"),
                        }
                    }
                    let total: usize = parts.iter().map(|p| p.len() + delim.len()).sum();
                    if total > MAX_VALUE_SIZE {
                        return Err(Stop::OverBudget("join size".into()));
                    }
                    *v = V::Str(parts.join(delim));
                    Ok(())
                }
                _ => err("join_non_array"),
            },
            MutOp::Cast => match v {
                V::Num(n) => {
                    if param.is_some() {
                        return err("cast_number_with_parameter");
                    }
                    let n = *n;
                    if n.is_nan() || n.fract() != 0.0 || n < 0.0 || n > 0x10FFFF as f64 {
                        return err("invalid_code_point");
                    }
                    match char::from_u32(n as u32) {
                        Some(c) => {
                            *v = V::Str(c.to_string());
                            Ok(())
                        }
                        None => err("invalid_code_point"),
                    }
                }
                V::Str(s) => match param {
                    None => match s.parse::<f64>() {
                        Ok(n) => {
                            *v = V::Num(n);
                            Ok(())
                        }
                        Err(_) => err("unparsable_number"),
                    },
                    Some(V::Num(r)) => {
                        if r.is_nan() || r.fract() != 0.0 || r < 2.0 || r > 36.0 {
                            return err("invalid_radix");
                        }
                        match parse_radix(s, r as u32) {
                            Some(i) => {
                                *v = V::Num(i as f64);
                                Ok(())
                            }
                            None => err("unparsable_number"),
                        }
                    }
                    Some(_) => err("invalid_radix"),
                },
                _ => err("cast_wrong_kind"),
            },
        }
    }
}
