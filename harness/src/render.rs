//! Spelling renderer: model tree -> source text under a *spelling* (alias, case, separators,
//! optional words, noise, comments, number spellings), plus ground-truth positions of what it
//! emitted. See DESIGN.md 3.1 and Appendix A for the rules it obeys.

use crate::kw::{aliases, Kw};
use crate::mast::*;
use crate::rng::Rng;
use std::collections::BTreeSet;

#[derive(Clone, Debug)]
pub struct Spelling {
    pub vary_alias: bool,
    pub vary_case: bool,
    /// 0 = single spaces only; 1..=3 increasing amounts of ignorable noise
    pub noise: u32,
    pub comments: bool,
    pub multiline_comments: bool,
    pub symbols: bool,
    pub crlf: bool,
    pub trailing_punct: bool,
    pub optional_words: bool,
    pub number_forms: bool,
    pub indent: bool,
    pub force: Option<(Kw, &'static str)>,
}

impl Spelling {
    pub fn canonical() -> Spelling {
        Spelling {
            vary_alias: false,
            vary_case: false,
            noise: 0,
            comments: false,
            multiline_comments: false,
            symbols: false,
            crlf: false,
            trailing_punct: false,
            optional_words: false,
            number_forms: false,
            indent: false,
            force: None,
        }
    }
    /// everything on, intensity chosen by the rng
    pub fn wild(rng: &mut Rng) -> Spelling {
        Spelling {
            vary_alias: true,
            vary_case: rng.chance(3, 4),
            noise: rng.below(4) as u32,
            comments: rng.coin(),
            multiline_comments: rng.chance(1, 3),
            symbols: rng.chance(3, 4),
            crlf: rng.chance(1, 6),
            trailing_punct: rng.coin(),
            optional_words: true,
            number_forms: rng.chance(3, 4),
            indent: rng.coin(),
            force: None,
        }
    }
    /// aliases / case / optional words vary, but every token stays on its own statement's line
    pub fn mild(rng: &mut Rng) -> Spelling {
        Spelling {
            vary_alias: true,
            vary_case: rng.coin(),
            noise: rng.below(2) as u32,
            comments: rng.chance(1, 4),
            multiline_comments: false,
            symbols: rng.coin(),
            crlf: false,
            trailing_punct: rng.coin(),
            optional_words: true,
            number_forms: rng.coin(),
            indent: rng.coin(),
            force: None,
        }
    }
}

#[derive(Clone, Copy, Debug, PartialEq, Eq)]
pub enum TokKind {
    Word,
    Number,
    Str,
    Symbol,
    Suffix,
    Comment,
    Newline,
}

#[derive(Clone, Debug)]
pub struct TokInfo {
    pub kind: TokKind,
    pub offset: usize,
    pub len: usize,
    /// 1-based line of the first byte
    pub line: u32,
    /// byte column of the first byte
    pub col: u32,
}

#[derive(Clone, Debug)]
pub struct StmtInfo {
    pub kind: &'static str,
    /// byte offset of the start of the line holding the statement's first token
    pub line_start_off: usize,
    /// 1-based line of the first token
    pub line: u32,
    /// 1-based line on which the statement's own (header) line ends
    pub end_line: u32,
    /// byte offset just after the last token of the header line, before EOL punctuation
    pub end_off: usize,
    /// byte offset just after the newline that ends the header line
    pub after_eol_off: usize,
    /// nesting depth (0 = top level)
    pub depth: usize,
    /// the line rrss's syntax tree gives the statement (`Line for Assignment` = first token of the value,
    /// for an array push the first token of the array expression); recorded for assignments and pushes
    pub lint_line: Option<u32>,
}

#[derive(Clone, Debug, Default)]
pub struct Rendered {
    pub text: String,
    pub tokens: Vec<TokInfo>,
    /// statements in pre-order
    pub stmts: Vec<StmtInfo>,
    pub used: BTreeSet<(Kw, &'static str)>,
    /// false when the text has regions whose tokenisation the renderer does not predict
    pub tokens_exact: bool,
    pub lines: u32,
    /// (byte offset just after each `else` keyword, its 1-based line)
    pub else_ends: Vec<(usize, u32)>,
}

#[derive(Debug)]
pub struct Inexpressible(pub String);

type R<T> = Result<T, Inexpressible>;

fn inex<T>(s: &str) -> R<T> {
    Err(Inexpressible(s.to_string()))
}

const NOISE_PUNCT: &[&str] = &[
    "!", "#", "$", "%", ":", ";", "?", "@", "[", "\\", "]", "^", "`", "{", "|", "}", "~", "=", ")",
];
const COMMENT_WORDS: &[&str] = &[
    "la", "yeah", "verse", "chorus", "oh", "baby", "1", "x_y", "say", "if", "else", "\"", "'s",
    "it's", ",", ".", "(", "é", "put", "into",
];

pub const SAYS_ALIASES: &[&str] = &["says", "said", "say"];

pub struct Renderer<'r> {
    sp: &'r Spelling,
    rng: &'r mut Rng,
    out: String,
    line: u32,
    line_start: usize,
    tokens: Vec<TokInfo>,
    stmts: Vec<StmtInfo>,
    used: BTreeSet<(Kw, &'static str)>,
    tokens_exact: bool,
    /// kind and end offset of the last token emitted
    last: Option<(TokKind, usize)>,
    at_line_start: bool,
    glue_next: bool,
    quiet: bool,
    depth: usize,
    else_ends: Vec<(usize, u32)>,
}

pub fn render(p: &Program, sp: &Spelling, rng: &mut Rng) -> R<Rendered> {
    let mut r = Renderer::new(sp, rng);
    r.program(p)?;
    Ok(r.finish())
}

/// Canonical rendering (panics on inexpressible trees: those are generator bugs).
pub fn render_plain(p: &Program) -> String {
    let mut rng = Rng::new(0);
    match render(p, &Spelling::canonical(), &mut rng) {
        Ok(r) => r.text,
        Err(e) => panic!("tree not expressible: {} in {:?}", e.0, p),
    }
}

pub fn render_expr_plain(e: &Expr) -> String {
    let sp = Spelling::canonical();
    let mut rng = Rng::new(0);
    let mut r = Renderer::new(&sp, &mut rng);
    r.expr(e).expect("expression not expressible");
    r.finish().text
}

impl<'r> Renderer<'r> {
    pub fn new(sp: &'r Spelling, rng: &'r mut Rng) -> Renderer<'r> {
        Renderer {
            sp,
            rng,
            out: String::new(),
            line: 1,
            line_start: 0,
            tokens: Vec::new(),
            stmts: Vec::new(),
            used: BTreeSet::new(),
            tokens_exact: true,
            last: None,
            at_line_start: true,
            glue_next: false,
            quiet: false,
            depth: 0,
            else_ends: Vec::new(),
        }
    }

    pub fn finish(self) -> Rendered {
        Rendered {
            lines: self.line,
            text: self.out,
            tokens: self.tokens,
            stmts: self.stmts,
            used: self.used,
            tokens_exact: self.tokens_exact,
            else_ends: self.else_ends,
        }
    }

    // ------------------------------------------------------------ low level

    fn push_raw(&mut self, s: &str) {
        let base = self.out.len();
        for (i, b) in s.bytes().enumerate() {
            if b == b'\n' {
                self.line += 1;
                self.line_start = base + i + 1;
            }
        }
        self.out.push_str(s);
    }

    fn record(&mut self, kind: TokKind, text: &str) {
        let offset = self.out.len();
        self.tokens.push(TokInfo {
            kind,
            offset,
            len: text.len(),
            line: self.line,
            col: (offset - self.line_start) as u32,
        });
        self.push_raw(text);
        self.last = Some((kind, self.out.len()));
        self.at_line_start = false;
    }

    fn comment(&mut self) {
        let n = self.rng.range(0, 4);
        let mut s = String::from("(");
        for i in 0..n {
            if i > 0 {
                if self.sp.multiline_comments && self.rng.chance(1, 4) {
                    s.push('\n');
                } else {
                    s.push(' ');
                }
            }
            s.push_str(self.rng.pstr(COMMENT_WORDS));
        }
        s.push(')');
        self.record(TokKind::Comment, &s);
        // a comment directly followed by 's / 're would take it as a suffix: always add a space
        self.push_raw(" ");
        self.last = Some((TokKind::Comment, usize::MAX));
    }

    fn noise_piece(&mut self) {
        let lvl = self.sp.noise;
        let k = self.rng.below(10);
        if lvl >= 2 && k < 6 {
            let n = self.rng.range(1, 3);
            for _ in 0..n {
                let p = *self.rng.pick(NOISE_PUNCT);
                self.push_raw(p);
            }
            self.push_raw(" ");
        } else if lvl >= 3 && k == 6 {
            self.push_raw("' ");
        } else if k == 7 {
            self.push_raw("\t");
        } else if k == 8 {
            // any Unicode blank other than the line feed is ignorable
            let b = *self.rng.pick(&["\u{a0}", "\u{a0}", "\u{2003}", "\u{3000}", "\u{b}", "\u{c}", "\u{85}", "\u{202f}", "\u{1680}"]);
            self.push_raw(b);
        } else {
            self.push_raw(" ");
        }
    }

    /// separator before the next token
    fn gap(&mut self) {
        if self.glue_next {
            self.glue_next = false;
            return;
        }
        if self.at_line_start {
            if self.sp.indent && self.rng.chance(1, 3) {
                let n = self.rng.range(1, 6);
                for _ in 0..n {
                    let c = if self.rng.chance(1, 5) { "\t" } else { " " };
                    self.push_raw(c);
                }
            }
            if !self.quiet && self.sp.noise >= 2 && self.rng.chance(1, 12) {
                self.noise_piece();
            }
            return;
        }
        self.push_raw(" ");
        if self.quiet {
            return;
        }
        if self.sp.comments && self.rng.chance(1, 12) {
            self.comment();
        }
        if self.sp.noise == 0 {
            return;
        }
        let p = match self.sp.noise {
            1 => 10,
            2 => 6,
            _ => 3,
        };
        if self.rng.chance(1, p) {
            self.noise_piece();
        }
    }

    fn case(&mut self, w: &str) -> String {
        if !self.sp.vary_case || !w.is_ascii() {
            return w.to_string();
        }
        let cased = self.case_ascii(w);
        // U+212A KELVIN SIGN is an upper-case letter whose lower case is the ASCII `k`: one more way to write a K
        if cased.contains('K') && self.rng.chance(1, 8) {
            return cased.replacen('K', "\u{212a}", 1);
        }
        cased
    }

    fn case_ascii(&mut self, w: &str) -> String {
        match self.rng.below(6) {
            0 | 1 | 2 => w.to_string(),
            3 => w.to_ascii_uppercase(),
            4 => {
                let mut cs = w.chars();
                match cs.next() {
                    Some(f) => f.to_ascii_uppercase().to_string() + cs.as_str(),
                    None => String::new(),
                }
            }
            _ => w
                .chars()
                .map(|c| {
                    if self.rng.coin() {
                        c.to_ascii_uppercase()
                    } else {
                        c.to_ascii_lowercase()
                    }
                })
                .collect(),
        }
    }

    fn choose_alias(&mut self, k: Kw, allowed: &[&'static str]) -> &'static str {
        if let Some((fk, fa)) = self.sp.force {
            if fk == k && allowed.contains(&fa) {
                return fa;
            }
        }
        if self.sp.vary_alias {
            *self.rng.pick(allowed)
        } else {
            allowed[0]
        }
    }

    fn word_aliases(k: Kw) -> Vec<&'static str> {
        aliases(k)
            .iter()
            .copied()
            .filter(|a| a.chars().all(|c| c.is_alphabetic() || c == '\''))
            .collect()
    }

    /// a keyword of class `k` (word aliases only)
    pub fn kw(&mut self, k: Kw) {
        let all = Self::word_aliases(k);
        let a = self.choose_alias(k, &all);
        self.kw_spelled(k, a);
    }

    fn kw_spelled(&mut self, k: Kw, a: &'static str) {
        self.used.insert((k, a));
        let w = self.case(a);
        self.gap();
        self.record(TokKind::Word, &w);
    }

    /// an operator keyword that also has a symbolic alias; `dash` forces the symbol
    fn op_kw(&mut self, k: Kw, force_symbol: bool) {
        let all: Vec<&'static str> = aliases(k)
            .iter()
            .copied()
            .filter(|a| {
                let is_word = a.chars().all(|c| c.is_alphabetic());
                if force_symbol {
                    !is_word
                } else {
                    self.sp.symbols || is_word
                }
            })
            .collect();
        let a = self.choose_alias(k, &all);
        self.used.insert((k, a));
        if a.chars().all(|c| c.is_alphabetic()) {
            let w = self.case(a);
            self.gap();
            self.record(TokKind::Word, &w);
        } else {
            self.sym(a, true);
        }
    }

    fn sym(&mut self, s: &str, may_glue: bool) {
        let glue_ok = may_glue && self.sp.noise > 0 && !self.quiet;
        let prev_glueable = matches!(
            self.last,
            Some((TokKind::Word | TokKind::Number | TokKind::Str, end)) if end == self.out.len()
        );
        if glue_ok && prev_glueable && !self.at_line_start && self.rng.chance(1, 4) {
            // glued to the previous token: `a+b`
            if self.glue_next {
                self.glue_next = false;
            }
        } else {
            self.gap();
        }
        self.record(TokKind::Symbol, s);
        if glue_ok && self.rng.chance(1, 4) {
            self.glue_next = true;
        }
    }

    pub fn word(&mut self, w: &str) {
        self.gap();
        self.record(TokKind::Word, w);
    }

    fn suffix_glued(&mut self, s: &str) {
        self.glue_next = false;
        self.record(TokKind::Suffix, s);
    }

    fn can_glue_suffix(&self) -> Option<TokKind> {
        match self.last {
            Some((k @ (TokKind::Word | TokKind::Number | TokKind::Str), end))
                if end == self.out.len() && !self.glue_next =>
            {
                Some(k)
            }
            _ => None,
        }
    }

    /// the `is` of comparisons and poetic assignments: is/are/was/were or a glued 's / 're
    fn is_kw(&mut self) {
        let forced_suffix = matches!(self.sp.force, Some((Kw::Is, "'s")) | Some((Kw::Is, "'re")));
        if let Some(prev) = self.can_glue_suffix() {
            if forced_suffix || (self.sp.vary_alias && self.rng.chance(1, 4)) {
                let base = match self.sp.force {
                    Some((Kw::Is, "'s")) => "'s",
                    Some((Kw::Is, "'re")) => "'re",
                    _ => {
                        if self.rng.coin() {
                            "'s"
                        } else {
                            "'re"
                        }
                    }
                };
                self.used.insert((Kw::Is, base));
                let text = if prev == TokKind::Word && self.sp.vary_case && self.rng.chance(1, 3) {
                    // after a word the suffix is matched in any case
                    if base == "'s" {
                        "'S".to_string()
                    } else {
                        (*self.rng.pick(&["'RE", "'Re", "'rE"])).to_string()
                    }
                } else {
                    base.to_string()
                };
                self.suffix_glued(&text);
                return;
            }
        }
        self.kw(Kw::Is);
    }

    fn number(&mut self, v: f64) -> R<()> {
        if v.is_nan() || (v.is_sign_negative() && v != 0.0) || (v == 0.0 && v.is_sign_negative()) {
            return inex("number literal must be non-negative and not NaN");
        }
        let text = if v.is_infinite() {
            if self.sp.number_forms && self.rng.coin() {
                "2E400".to_string()
            } else {
                "1e999".to_string()
            }
        } else {
            let base = format!("{}", v);
            if !self.sp.number_forms {
                base
            } else {
                self.number_form(&base)
            }
        };
        debug_assert_eq!(
            text.parse::<f64>().map(|x| x.to_bits()).ok(),
            Some(v.to_bits()),
            "spelling {} of {}",
            text,
            v
        );
        self.gap();
        self.record(TokKind::Number, &text);
        Ok(())
    }

    fn number_form(&mut self, base: &str) -> String {
        // `base` is a plain decimal: digits[.digits]
        let (int, frac) = match base.split_once('.') {
            Some((i, f)) => (i.to_string(), f.to_string()),
            None => (base.to_string(), String::new()),
        };
        match self.rng.below(8) {
            0 | 1 | 2 => base.to_string(),
            3 => {
                if frac.is_empty() {
                    format!("{}.0", int)
                } else {
                    format!("{}0", base)
                }
            }
            4 => format!("0{}", base),
            5 => {
                if int == "0" && !frac.is_empty() {
                    format!(".{}", frac)
                } else {
                    format!("{}e0", base)
                }
            }
            6 => {
                let e = if self.rng.coin() { "e" } else { "E" };
                format!("{}{}0", base, e)
            }
            _ => {
                // shift the decimal point k places to the left and add an exponent k
                if int.len() > 300 {
                    return base.to_string();
                }
                let k = self.rng.range(1, 3);
                let mut digits = int.clone();
                while digits.len() <= k {
                    digits.insert(0, '0');
                }
                let cut = digits.len() - k;
                let (a, b) = digits.split_at(cut);
                let e = if self.rng.coin() { "e" } else { "E" };
                let a = if a == "0" && self.rng.coin() { "" } else { a };
                format!("{}.{}{}{}{}", a, b, frac, e, k)
            }
        }
    }

    fn string(&mut self, s: &str) -> R<()> {
        if s.contains('"') {
            return inex("string literal containing a quote");
        }
        self.gap();
        if s.is_empty() && (self.sp.vary_alias || matches!(self.sp.force, Some((Kw::Empty, _)))) {
            if self.rng.coin() || matches!(self.sp.force, Some((Kw::Empty, _))) {
                self.glue_next = true;
                self.kw(Kw::Empty);
                return Ok(());
            }
        }
        let text = format!("\"{}\"", s);
        self.record(TokKind::Str, &text);
        Ok(())
    }

    fn eol(&mut self, punct: EolPunct) {
        if self.sp.trailing_punct && !self.quiet {
            let last_is_number = matches!(self.last, Some((TokKind::Number, _)));
            match punct {
                EolPunct::None => {}
                EolPunct::Dot | EolPunct::DotOrComma => {
                    if self.rng.chance(1, 3) {
                        let p = if punct == EolPunct::DotOrComma && self.rng.coin() {
                            ","
                        } else {
                            "."
                        };
                        if last_is_number && p == "." || self.rng.chance(1, 4) {
                            self.push_raw(" ");
                        }
                        self.record(TokKind::Symbol, p);
                    }
                }
            }
        }
        if !self.quiet && self.sp.noise >= 1 && self.rng.chance(1, 10) {
            self.push_raw(" ");
        }
        self.newline();
    }

    fn newline(&mut self) {
        if self.sp.crlf && !self.quiet {
            self.push_raw("\r");
        }
        let offset = self.out.len();
        self.tokens.push(TokInfo {
            kind: TokKind::Newline,
            offset,
            len: 1,
            line: self.line,
            col: (offset - self.line_start) as u32,
        });
        self.push_raw("\n");
        self.last = None;
        self.at_line_start = true;
        self.glue_next = false;
    }

    fn blank_line(&mut self) {
        if self.sp.indent && self.rng.chance(1, 6) {
            self.push_raw("  ");
        }
        self.newline();
    }

    // ------------------------------------------------------------ names

    fn name(&mut self, n: &Name) {
        match n {
            Name::Simple(s) => self.word(s),
            Name::Common(p, w) => {
                self.word(p);
                self.word(w);
            }
            Name::Proper(ws) => {
                for w in ws {
                    self.word(w);
                }
            }
        }
    }

    fn ident(&mut self, i: &Ident) {
        match i {
            Ident::Name(n) => self.name(n),
            Ident::Pronoun => self.kw(Kw::Pronoun),
        }
    }

    // ------------------------------------------------------------ expressions

    fn lit(&mut self, l: &Lit) -> R<()> {
        match l {
            Lit::Mysterious => self.kw(Kw::Mysterious),
            Lit::Null => self.kw(Kw::Null),
            Lit::Bool(true) => self.kw(Kw::True),
            Lit::Bool(false) => self.kw(Kw::False),
            Lit::Num(n) => self.number(*n)?,
            Lit::Str(s) => self.string(s)?,
        }
        Ok(())
    }

    fn arg_sep(&mut self) {
        // & | , | , and | 'n' | and
        let forced = match self.sp.force {
            Some((Kw::And, _)) => Some(4),
            _ => None,
        };
        let k = forced.unwrap_or_else(|| {
            if self.sp.vary_alias {
                self.rng.below(5)
            } else {
                1
            }
        });
        match k {
            0 => self.sym("&", true),
            1 => self.comma(),
            2 => {
                self.comma();
                self.kw(Kw::And);
            }
            3 => {
                // needs white space before it (an apostrophe glued to a word belongs to the word)
                self.glue_next = false;
                self.push_raw(" ");
                // (a keyword like any other: upper case when the spelling varies case)
                let upper = self.sp.vary_case && self.rng.coin();
                self.record(TokKind::Symbol, if upper { "'N'" } else { "'n'" });
            }
            _ => self.kw(Kw::And),
        }
    }

    fn comma(&mut self) {
        // glued to the previous token or not
        if !self.quiet && self.sp.noise > 0 && self.rng.chance(1, 5) {
            self.gap();
        } else {
            self.glue_next = false;
        }
        self.record(TokKind::Symbol, ",");
    }

    fn list_sep(&mut self) {
        self.comma();
        if self.sp.vary_alias && self.rng.chance(1, 3) {
            self.kw(Kw::And);
        }
    }

    fn prim(&mut self, p: &Prim) -> R<()> {
        match p {
            Prim::Lit(l) => self.lit(l),
            Prim::Ident(i) => {
                self.ident(i);
                Ok(())
            }
            Prim::Sub(a, s) => {
                match **a {
                    Prim::Call(..) | Prim::Pop(_) => {
                        return inex("subscript of a call/pop (greedy to the right)")
                    }
                    _ => {}
                }
                if a.ends_in_pop_or_call() {
                    return inex("array expression ends in a call/pop and is followed by `at`");
                }
                if matches!(**s, Prim::Sub(..)) {
                    return inex("subscript must be a non-subscript primary");
                }
                self.prim(a)?;
                self.kw(Kw::At);
                self.prim(s)
            }
            Prim::Call(n, args) => {
                if args.is_empty() {
                    return inex("call without arguments");
                }
                self.name(n);
                self.kw(Kw::Taking);
                for (i, a) in args.iter().enumerate() {
                    if !a.is_unary_level() {
                        return inex("call argument must be a unary expression");
                    }
                    if i + 1 < args.len() && a.ends_in_call() {
                        return inex("non-final call argument ends in a call");
                    }
                    if i > 0 {
                        self.arg_sep();
                    }
                    self.expr(a)?;
                }
                Ok(())
            }
            Prim::Pop(a) => {
                self.kw(Kw::Roll);
                self.prim(a)
            }
        }
    }

    fn cmp_chain<'e>(e: &'e Expr, out: &mut Vec<(BinOp, &'e Vec<Expr>)>) -> &'e Expr {
        // returns the left-most operand of the chain of comparison operators
        match e {
            Expr::Bin(op, l, r) if op.is_comparison() => {
                let base = Self::cmp_chain(l, out);
                out.push((*op, r));
                base
            }
            other => other,
        }
    }

    pub fn expr(&mut self, e: &Expr) -> R<()> {
        self.expr_lvl(e, 0, false)
    }

    /// `min_level`: the lowest precedence level allowed here without parentheses (there are none)
    fn expr_lvl(&mut self, e: &Expr, min_level: u8, dash_first: bool) -> R<()> {
        match e {
            Expr::Prim(p) => self.prim(p),
            Expr::Un(op, operand) => {
                if !operand.is_unary_level() {
                    return inex("unary operand must be unary or primary");
                }
                match op {
                    UnOp::Minus => self.op_kw(Kw::Minus, dash_first),
                    UnOp::Not => self.kw(Kw::Not),
                }
                self.expr_lvl(operand, 4, false)
            }
            Expr::Bin(op, l, r) => {
                let lvl = op.level();
                if lvl < min_level {
                    return inex("operator of lower precedence than its context");
                }
                if r.is_empty() {
                    return inex("empty rhs list");
                }
                if lvl == 1 {
                    return self.comparison(e, dash_first);
                }
                // left operand: same level or higher (left-associative)
                if *op == BinOp::And && l.ends_in_call() {
                    return inex("call followed by `and`");
                }
                self.expr_lvl(l, lvl, dash_first)?;
                match op {
                    BinOp::Plus => self.op_kw(Kw::Plus, false),
                    BinOp::Minus => self.op_kw(Kw::Minus, false),
                    BinOp::Multiply => self.op_kw(Kw::Times, false),
                    BinOp::Divide => self.op_kw(Kw::Over, false),
                    BinOp::And => self.kw(Kw::And),
                    BinOp::Or => self.kw(Kw::Or),
                    BinOp::Nor => self.kw(Kw::Nor),
                    _ => unreachable!(),
                }
                self.rhs_list(r, lvl + 1)
            }
        }
    }

    fn rhs_list(&mut self, r: &[Expr], elem_level: u8) -> R<()> {
        if r.len() == 1 {
            return self.expr_lvl(&r[0], elem_level, false);
        }
        for (i, x) in r.iter().enumerate() {
            if !x.is_unary_level() {
                return inex("multi-element list with a non-unary element");
            }
            if i + 1 < r.len() && x.ends_in_call() {
                return inex("list element ends in a call and is followed by a comma");
            }
            if i > 0 {
                self.list_sep();
            }
            self.expr_lvl(x, 4, false)?;
        }
        Ok(())
    }

    fn comparison(&mut self, e: &Expr, dash_first: bool) -> R<()> {
        let mut chain = Vec::new();
        let base = Self::cmp_chain(e, &mut chain);
        let any_eq = chain.iter().any(|(op, _)| *op == BinOp::Eq);
        let any_list = chain.iter().any(|(_, r)| r.len() > 1);
        if any_eq && any_list {
            return inex("`is` comparison chain with a list operand");
        }
        for (op, r) in &chain {
            if *op == BinOp::Eq && r[0].starts_with_not() {
                return inex("`is` followed by an operand starting with `not`");
            }
        }
        let forced_symbolic = matches!(self.sp.force, Some((Kw::Isnt, _)));
        let forced_worded = matches!(
            self.sp.force,
            Some((Kw::Is | Kw::Bigger | Kw::Smaller | Kw::Big | Kw::Small | Kw::As | Kw::Than, _))
        );
        let needs_symbols = chain.iter().any(|(op, _)| *op != BinOp::NotEq);
        let is_style = if any_eq {
            true
        } else if any_list {
            false
        } else if forced_symbolic {
            false
        } else if forced_worded {
            true
        } else if !self.sp.symbols && needs_symbols {
            true
        } else if !self.sp.vary_alias {
            true
        } else {
            self.rng.coin()
        };
        self.expr_lvl(base, 2, dash_first)?;
        for (op, r) in chain {
            if is_style {
                self.is_kw();
                match op {
                    BinOp::Eq => {}
                    BinOp::NotEq => self.kw(Kw::Not),
                    BinOp::Greater => {
                        self.kw(Kw::Bigger);
                        self.kw(Kw::Than);
                    }
                    BinOp::Less => {
                        self.kw(Kw::Smaller);
                        self.kw(Kw::Than);
                    }
                    BinOp::GreaterEq => {
                        self.kw(Kw::As);
                        self.kw(Kw::Big);
                        self.kw(Kw::As);
                    }
                    BinOp::LessEq => {
                        self.kw(Kw::As);
                        self.kw(Kw::Small);
                        self.kw(Kw::As);
                    }
                    _ => unreachable!(),
                }
                self.expr_lvl(&r[0], 2, false)?;
            } else {
                match op {
                    BinOp::NotEq => self.kw(Kw::Isnt),
                    BinOp::Greater => self.sym(">", true),
                    BinOp::Less => self.sym("<", true),
                    BinOp::GreaterEq => self.sym(">=", true),
                    BinOp::LessEq => self.sym("<=", true),
                    _ => return inex("`is` in a symbolic chain"),
                }
                self.rhs_list(r, 2)?;
            }
        }
        Ok(())
    }

    // ------------------------------------------------------------ statements

    fn lhs(&mut self, l: &Lhs) -> R<()> {
        match l {
            Lhs::Ident(i) => {
                self.ident(i);
                Ok(())
            }
            Lhs::Sub(a, s) => {
                // must bottom out in an identifier
                if !matches!(a.leftmost(), Prim::Ident(_)) {
                    return inex("assignment target must start with an identifier");
                }
                self.prim(&Prim::Sub(a.clone(), s.clone()))
            }
        }
    }

    pub fn poetic_elems(&mut self, elems: &[PoeticElem]) -> R<()> {
        if elems.is_empty() {
            return inex("empty poetic literal");
        }
        for (i, el) in elems.iter().enumerate() {
            match el {
                PoeticElem::Word(w) => {
                    if i == 0 && crate::kw::is_literal_word(w) {
                        return inex("poetic literal starting with a literal word");
                    }
                    self.word(w)
                }
                PoeticElem::Suffix(s) => {
                    if let Some(rest) = s.strip_prefix('-') {
                        if i == 0 {
                            return inex("poetic literal starting with a hyphen");
                        }
                        // hyphen: spacing is free
                        if self.rng.coin() || self.quiet {
                            self.glue_next = true;
                        }
                        self.gap();
                        self.record(TokKind::Symbol, "-");
                        if self.rng.coin() || self.quiet {
                            self.glue_next = true;
                        }
                        self.word(rest);
                    } else {
                        if self.can_glue_suffix().is_none() {
                            return inex("apostrophe suffix with nothing to glue to");
                        }
                        self.suffix_glued(s);
                    }
                }
                PoeticElem::Dot => {
                    if self.rng.coin() {
                        self.glue_next = true;
                    }
                    self.gap();
                    self.record(TokKind::Symbol, ".");
                    // never glue a word to the dot (".5" / ".e1" shapes)
                    self.glue_next = false;
                }
            }
        }
        Ok(())
    }

    /// line of the first token at or after index `k` that is not a comment
    fn first_real_token_line(&self, k: usize) -> Option<u32> {
        self.tokens[k.min(self.tokens.len())..].iter().find(|t| t.kind != TokKind::Comment).map(|t| t.line)
    }

    fn header_done(&mut self, idx: usize, punct: EolPunct) {
        self.stmts[idx].end_off = self.out.len();
        self.stmts[idx].end_line = self.line;
        self.eol(punct);
        self.stmts[idx].after_eol_off = self.out.len();
    }

    fn block(&mut self, ss: &[Stmt], in_function: bool) -> R<()> {
        // returns with the cursor after the last statement's line; the caller emits the closing blank
        if ss.is_empty() {
            self.blank_line();
            return Ok(());
        }
        self.depth += 1;
        for (i, s) in ss.iter().enumerate() {
            if in_function && s.is_if_else() && i + 1 != ss.len() {
                self.depth -= 1;
                return inex("if/else inside a function body must be its last statement");
            }
            self.stmt(s, in_function && i + 1 == ss.len())?;
        }
        self.depth -= 1;
        Ok(())
    }

    pub fn program(&mut self, p: &Program) -> R<()> {
        for (i, b) in p.blocks.iter().enumerate() {
            if b.is_empty() {
                return inex("empty top-level block");
            }
            if i > 0 {
                self.blank_line();
                if self.sp.noise >= 2 && self.rng.chance(1, 6) {
                    self.blank_line(); // extra blank lines between top-level blocks are harmless
                }
            }
            for s in b {
                self.stmt(s, false)?;
            }
        }
        if self.sp.noise >= 1 && self.rng.chance(1, 5) {
            self.blank_line();
        }
        Ok(())
    }

    /// `fn_tail`: this statement is the last one directly in a function body
    fn stmt(&mut self, s: &Stmt, fn_tail: bool) -> R<()> {
        // position bookkeeping: the statement starts on a fresh line
        debug_assert!(self.at_line_start);
        let idx = self.stmts.len();
        self.stmts.push(StmtInfo {
            kind: s.kind(),
            line_start_off: self.out.len(),
            line: self.line,
            end_line: self.line,
            end_off: 0,
            after_eol_off: 0,
            depth: self.depth,
            lint_line: None,
        });
        match s {
            Stmt::Assign { dest, op, value } => {
                if value.is_empty() {
                    return inex("assignment without value");
                }
                let minus_first = value[0].starts_with_unary_minus();
                let can_put = op.is_none() && value.len() == 1;
                let can_let = op.is_some() || !minus_first;
                let forced_put = matches!(self.sp.force, Some((Kw::Put | Kw::Into, _)));
                let forced_let = matches!(self.sp.force, Some((Kw::Let | Kw::Be, _)));
                let use_put = if can_put && can_let {
                    if forced_put {
                        true
                    } else if forced_let {
                        false
                    } else if self.sp.vary_alias {
                        self.rng.coin()
                    } else {
                        true
                    }
                } else if can_put {
                    true
                } else if can_let {
                    false
                } else {
                    return inex("list assignment starting with unary minus");
                };
                if use_put {
                    self.kw(Kw::Put);
                    let k = self.tokens.len();
                    self.expr(&value[0])?;
                    self.stmts[idx].lint_line = self.first_real_token_line(k);
                    self.kw(Kw::Into);
                    self.lhs(dest)?;
                } else {
                    self.kw(Kw::Let);
                    self.lhs(dest)?;
                    self.kw(Kw::Be);
                    match op {
                        None => {}
                        Some(BinOp::Plus) => self.op_kw(Kw::Plus, false),
                        Some(BinOp::Minus) => self.op_kw(Kw::Minus, false),
                        Some(BinOp::Multiply) => self.op_kw(Kw::Times, false),
                        Some(BinOp::Divide) => self.op_kw(Kw::Over, false),
                        Some(_) => return inex("compound assignment with a non-arithmetic operator"),
                    }
                    let k = self.tokens.len();
                    self.toplevel_list(value)?;
                    self.stmts[idx].lint_line = self.first_real_token_line(k);
                }
                self.header_done(idx, EolPunct::Dot);
            }
            Stmt::PoeticNum { dest, rhs } => {
                self.lhs(dest)?;
                self.is_kw();
                match rhs {
                    PoeticRhs::Expr(e) => {
                        // must start with a literal word or `-` number
                        let ok = match e.leftmost_prim() {
                            Some(Prim::Lit(_)) => true,
                            Some(_) => false,
                            None => Self::starts_with_negative_number(e),
                        };
                        if !ok {
                            return inex("poetic assignment expression must start with a literal");
                        }
                        let k = self.tokens.len();
                        self.expr_lvl(e, 0, true)?;
                        self.stmts[idx].lint_line = self.first_real_token_line(k);
                        self.header_done(idx, EolPunct::Dot);
                    }
                    PoeticRhs::Lit(elems) => {
                        self.poetic_elems(elems)?;
                        self.header_done(idx, EolPunct::None);
                    }
                }
            }
            Stmt::PoeticStr { dest, text } => {
                if text.contains('\n') {
                    return inex("poetic string with a line break");
                }
                self.lhs(dest)?;
                let a = self.choose_says();
                let w = self.case(a);
                self.gap();
                self.record(TokKind::Word, &w);
                self.push_raw(" ");
                self.push_raw(text);
                self.tokens_exact = false;
                self.last = None;
                let q = self.quiet;
                self.quiet = true;
                self.header_done(idx, EolPunct::None);
                self.quiet = q;
            }
            Stmt::If { cond, then, els } => {
                self.kw(Kw::If);
                self.expr(cond)?;
                self.header_done(idx, EolPunct::Dot);
                self.block(then, false)?;
                if let Some(e) = els {
                    self.kw(Kw::Else);
                    self.else_ends.push((self.out.len(), self.line));
                    self.eol(EolPunct::None);
                    self.block(e, false)?;
                }
                if !(fn_tail && els.is_some()) {
                    self.blank_line();
                }
            }
            Stmt::While { cond, body } | Stmt::Until { cond, body } => {
                self.kw(if matches!(s, Stmt::While { .. }) {
                    Kw::While
                } else {
                    Kw::Until
                });
                self.expr(cond)?;
                self.header_done(idx, EolPunct::Dot);
                self.block(body, false)?;
                self.blank_line();
            }
            Stmt::Inc { dest, n } | Stmt::Dec { dest, n } => {
                let (k, d) = if matches!(s, Stmt::Inc { .. }) {
                    (Kw::Build, Kw::Up)
                } else {
                    (Kw::Knock, Kw::Down)
                };
                if *n == 0 {
                    return inex("build/knock zero times");
                }
                self.kw(k);
                self.ident(dest);
                for i in 0..*n {
                    if i > 0 && self.sp.vary_alias && self.rng.coin() {
                        self.comma();
                    }
                    self.kw(d);
                }
                self.header_done(idx, EolPunct::DotOrComma);
            }
            Stmt::Input { dest } => {
                self.kw(Kw::Listen);
                if let Some(d) = dest {
                    self.kw(Kw::To);
                    self.lhs(d)?;
                    self.header_done(idx, EolPunct::Dot);
                } else {
                    self.header_done(idx, EolPunct::DotOrComma);
                }
            }
            Stmt::Output { value } => {
                self.kw(Kw::Say);
                self.expr(value)?;
                self.header_done(idx, EolPunct::Dot);
            }
            Stmt::Mutation {
                op,
                operand,
                dest,
                param,
            } => {
                self.kw(match op {
                    MutOp::Cut => Kw::Cut,
                    MutOp::Join => Kw::Join,
                    MutOp::Cast => Kw::Cast,
                });
                if dest.is_none() && !matches!(operand, Prim::Ident(_)) {
                    return inex("mutation without destination needs an identifier operand");
                }
                self.prim(operand)?;
                if let Some(d) = dest {
                    self.kw(Kw::Into);
                    self.lhs(d)?;
                }
                if let Some(p) = param {
                    self.kw(Kw::With);
                    self.expr(p)?;
                }
                self.header_done(idx, EolPunct::Dot);
            }
            Stmt::Rounding { dir, operand } => {
                self.kw(Kw::Turn);
                let first = !self.sp.optional_words || self.rng.coin();
                if first {
                    self.round_dir(*dir);
                    self.expr(operand)?;
                } else {
                    self.expr(operand)?;
                    self.round_dir(*dir);
                }
                self.header_done(idx, EolPunct::Dot);
            }
            Stmt::Continue => {
                let long = matches!(self.sp.force, Some((Kw::Take | Kw::Top | Kw::To | Kw::The, _)))
                    || (self.sp.optional_words
                        && !matches!(self.sp.force, Some((Kw::Continue, _)))
                        && self.rng.coin());
                if long {
                    self.kw(Kw::Take);
                    self.kw(Kw::It);
                    self.kw(Kw::To);
                    self.kw(Kw::The);
                    self.kw(Kw::Top);
                } else {
                    self.kw(Kw::Continue);
                }
                self.header_done(idx, EolPunct::DotOrComma);
            }
            Stmt::Break => {
                self.kw(Kw::Break);
                if matches!(self.sp.force, Some((Kw::Down | Kw::It, _)))
                    || (self.sp.optional_words && self.rng.coin())
                {
                    self.kw(Kw::It);
                    self.kw(Kw::Down);
                }
                self.header_done(idx, EolPunct::DotOrComma);
            }
            Stmt::Push { array, value } => {
                self.kw(Kw::Rock);
                let k = self.tokens.len();
                self.prim(array)?;
                self.stmts[idx].lint_line = self.first_real_token_line(k);
                match value {
                    None => {
                        self.header_done(idx, EolPunct::Dot);
                    }
                    Some(PushRhs::List(es)) => {
                        self.kw(Kw::With);
                        self.toplevel_list(es)?;
                        self.header_done(idx, EolPunct::Dot);
                    }
                    Some(PushRhs::Poetic(elems)) => {
                        self.kw(Kw::Like);
                        self.poetic_elems(elems)?;
                        self.header_done(idx, EolPunct::None);
                    }
                }
            }
            Stmt::Pop { array, dest } => {
                self.kw(Kw::Roll);
                self.prim(array)?;
                if let Some(d) = dest {
                    self.kw(Kw::Into);
                    self.lhs(d)?;
                }
                self.header_done(idx, EolPunct::Dot);
            }
            Stmt::Return { value } => {
                let all = Self::word_aliases(Kw::Return);
                let a = self.choose_alias(Kw::Return, &all);
                self.kw_spelled(Kw::Return, a);
                let forced_back = matches!(self.sp.force, Some((Kw::Back, _)));
                let mut back_before = false;
                if a == "give" && (forced_back || (self.sp.optional_words && self.rng.coin())) {
                    self.kw(Kw::Back);
                    back_before = true;
                }
                self.expr(value)?;
                if (forced_back && !back_before)
                    || (self.sp.optional_words && self.rng.chance(1, 3))
                {
                    self.kw(Kw::Back);
                }
                self.header_done(idx, EolPunct::Dot);
            }
            Stmt::Function { name, params, body } => {
                if params.is_empty() {
                    return inex("function without parameters");
                }
                self.name(name);
                self.kw(Kw::Takes);
                for (i, p) in params.iter().enumerate() {
                    if i > 0 {
                        self.arg_sep();
                    }
                    self.name(p);
                }
                self.header_done(idx, EolPunct::Dot);
                self.block(body, true)?;
                // when the body ends in if/else the blank line that closes the else block also
                // closes the function: stmt() suppressed the if's own blank (fn_tail), so in both
                // cases exactly one blank line is emitted here
                self.blank_line();
            }
            Stmt::Call { name, args } => {
                self.prim(&Prim::Call(name.clone(), args.clone()))?;
                self.header_done(idx, EolPunct::Dot);
            }
        }
        Ok(())
    }

    fn choose_says(&mut self) -> &'static str {
        if let Some((Kw::Says, a)) = self.sp.force {
            self.used.insert((Kw::Says, a));
            return a;
        }
        if let Some((Kw::Say, "say")) = self.sp.force {
            self.used.insert((Kw::Say, "say"));
            return "say";
        }
        let a = if self.sp.vary_alias {
            *self.rng.pick(SAYS_ALIASES)
        } else {
            "says"
        };
        if a == "say" {
            self.used.insert((Kw::Say, "say"));
        } else {
            self.used.insert((Kw::Says, a));
        }
        a
    }

    fn starts_with_negative_number(e: &Expr) -> bool {
        match e {
            Expr::Un(UnOp::Minus, inner) => {
                matches!(**inner, Expr::Prim(Prim::Lit(Lit::Num(_))))
            }
            Expr::Bin(_, l, _) => Self::starts_with_negative_number(l),
            _ => false,
        }
    }

    fn round_dir(&mut self, d: RoundDir) {
        match d {
            RoundDir::Up => self.kw(Kw::Up),
            RoundDir::Down => self.kw(Kw::Down),
            RoundDir::Nearest => self.kw(Kw::Round),
        }
    }

    fn toplevel_list(&mut self, es: &[Expr]) -> R<()> {
        if es.is_empty() {
            return inex("empty list");
        }
        if es.len() == 1 {
            return self.expr(&es[0]);
        }
        for (i, x) in es.iter().enumerate() {
            if !x.is_unary_level() {
                return inex("multi-element list with a non-unary element");
            }
            if i + 1 < es.len() && x.ends_in_call() {
                return inex("list element ends in a call and is followed by a comma");
            }
            if i > 0 {
                self.list_sep();
            }
            self.expr_lvl(x, 4, false)?;
        }
        Ok(())
    }
}

#[derive(Clone, Copy, Debug, PartialEq, Eq)]
enum EolPunct {
    None,
    Dot,
    DotOrComma,
}
