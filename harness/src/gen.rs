//! Generators: names, words, and syntax-directed random model trees that are expressible in the
//! surface language by construction (DESIGN.md 3.1, Appendix A).

use crate::kw::{self, is_keyword};
use crate::mast::*;
use crate::rng::Rng;

const LOWER_ASCII: &str = "abcdefghijklmnopqrstuvwxyz";
// letters with one-to-one simple case mappings (no ß, İ, ı, ſ, final sigma, Kelvin sign)
const LOWER_EXT: &[char] = &['é', 'ü', 'ñ', 'ø', 'å', 'ç', 'ж', 'д', 'я', 'λ', 'ω', 'č'];

pub fn upper_first(w: &str) -> String {
    let mut cs = w.chars();
    match cs.next() {
        Some(f) => f.to_uppercase().collect::<String>() + cs.as_str(),
        None => String::new(),
    }
}

/// a random lower-case alphabetic word that is not a keyword
pub fn fresh_word(rng: &mut Rng, ext: bool) -> String {
    loop {
        let n = if rng.chance(1, 6) { 1 } else { rng.range(2, 9) };
        let mut w = String::new();
        for _ in 0..n {
            if ext && rng.chance(1, 8) {
                w.push(*rng.pick(LOWER_EXT));
            } else {
                w.push(LOWER_ASCII.as_bytes()[rng.below(26)] as char);
            }
        }
        if !is_keyword(&w) {
            return w;
        }
    }
}

pub fn random_case_word(rng: &mut Rng, w: &str) -> String {
    match rng.below(4) {
        0 => w.to_string(),
        1 => w.chars().flat_map(|c| c.to_uppercase()).collect(),
        2 => upper_first(w),
        _ => w
            .chars()
            .map(|c| {
                if rng.coin() {
                    c.to_uppercase().next().unwrap_or(c)
                } else {
                    c
                }
            })
            .collect(),
    }
}

pub const PREFIXES: [&str; 6] = ["a", "an", "the", "my", "your", "our"];

pub fn fresh_name_of_kind(rng: &mut Rng, kind: usize, ext: bool) -> Name {
    match kind {
        0 => {
            let w = fresh_word(rng, ext);
            Name::Simple(random_case_word(rng, &w))
        }
        1 => {
            let p = *rng.pick(&PREFIXES);
            let p = random_case_word(rng, p);
            let w = fresh_word(rng, ext);
            Name::Common(p, random_case_word(rng, &w))
        }
        _ => {
            let n = rng.range(2, 4);
            let mut ws = Vec::new();
            for _ in 0..n {
                let w = fresh_word(rng, ext);
                // proper-name words start upper-case; the rest is free
                let rest: String = w
                    .chars()
                    .skip(1)
                    .map(|c| {
                        if rng.chance(1, 5) {
                            c.to_uppercase().next().unwrap_or(c)
                        } else {
                            c
                        }
                    })
                    .collect();
                let first: String = w.chars().next().unwrap().to_uppercase().collect();
                ws.push(first + &rest);
            }
            Name::Proper(ws)
        }
    }
}

pub fn fresh_name(rng: &mut Rng, ext: bool) -> Name {
    let k = rng.weighted(&[5, 3, 2]);
    fresh_name_of_kind(rng, k, ext)
}

/// a pool of distinct names (distinct by key)
pub fn name_pool(rng: &mut Rng, n: usize, ext: bool) -> Vec<Name> {
    let mut v: Vec<Name> = Vec::new();
    while v.len() < n {
        let c = fresh_name(rng, ext);
        if !v.iter().any(|x| x.key() == c.key()) {
            v.push(c);
        }
    }
    v
}

// ------------------------------------------------------------------------- poetic literals

/// a word usable inside a poetic number literal
pub fn poetic_word(rng: &mut Rng, first: bool) -> String {
    loop {
        let w = match rng.below(10) {
            0 | 1 if !first => {
                // a keyword used as a word
                let all = kw::all_words();
                let k = rng.pick(all).to_string();
                if k.contains('\'') {
                    continue;
                }
                random_case_word(rng, &k)
            }
            2 => {
                // length that is a multiple of ten, or long
                let n = *rng.pick(&[10usize, 20, 11, 19, 23, 30]);
                (0..n)
                    .map(|_| LOWER_ASCII.as_bytes()[rng.below(26)] as char)
                    .collect()
            }
            _ => {
                let w = fresh_word(rng, true);
                random_case_word(rng, &w)
            }
        };
        if first && (kw::is_literal_word(&w) || is_keyword(&w)) {
            continue;
        }
        return w;
    }
}

pub fn poetic_elems(rng: &mut Rng, max_words: usize) -> Vec<PoeticElem> {
    let n = rng.range(1, max_words.max(1));
    let mut v = Vec::new();
    let mut dots = 0;
    if rng.chance(1, 12) {
        v.push(PoeticElem::Dot);
        dots += 1;
    }
    for i in 0..n {
        v.push(PoeticElem::Word(poetic_word(rng, i == 0 && v.is_empty())));
        // suffixes (two apostrophe suffixes in a row are not expressible: `it's're` is one word + 're)
        while rng.chance(1, 6) {
            let last_is_apostrophe =
                matches!(v.last(), Some(PoeticElem::Suffix(s)) if s.starts_with('\''));
            match rng.below(3) {
                0 if !last_is_apostrophe => v.push(PoeticElem::Suffix("'s".to_string())),
                1 if !last_is_apostrophe => v.push(PoeticElem::Suffix("'re".to_string())),
                _ => {
                    let w = poetic_word(rng, false);
                    v.push(PoeticElem::Suffix(format!("-{}", w)));
                }
            }
        }
        if rng.chance(1, if dots == 0 { 4 } else { 10 }) {
            v.push(PoeticElem::Dot);
            dots += 1;
        }
    }
    v
}

// ------------------------------------------------------------------------- syntax-directed trees

#[derive(Clone, Copy, Debug, PartialEq, Eq)]
pub enum Tail {
    /// nothing greedy follows
    Free,
    /// followed by `,` `&` `'n'` `and`: must not end in a call
    NoCall,
    /// followed by `at`: must end in neither a call nor a pop
    NoCallNoPop,
}

pub struct SynGen<'a> {
    pub rng: &'a mut Rng,
    pub names: Vec<Name>,
    pub funcs: Vec<Name>,
    pub max_expr_depth: usize,
    pub max_block_depth: usize,
    pub ext_letters: bool,
    /// allow strings with line breaks / exotic content
    pub wild_strings: bool,
    /// one pronoun per `pronoun_den` identifiers (0 = never)
    pub pronoun_den: u32,
    pub allow_pop: bool,
    /// when set, every generated call is `echo taking <unique id>, <unary>` (a function that
    /// prints the id and returns its second argument): a side-effect witness
    pub echo: Option<Name>,
    pub next_id: u32,
    /// literal pools for value-oriented generation (None = syntax-oriented defaults)
    pub sem_literals: bool,
}

const STRINGS: &[&str] = &[
    "", "a", "hello", "Hello, World!", "1", "0", " 1", "1e1", "true", "é", "日本", "it's", "a b  c",
    "(not a comment)", "say 1", ".", ",", "x_y", "☃", "-",
];

impl<'a> SynGen<'a> {
    pub fn new(rng: &'a mut Rng) -> SynGen<'a> {
        let ext = rng.coin();
        let names = name_pool(rng, 6, ext);
        let mut funcs = Vec::new();
        for _ in 0..2 {
            loop {
                let c = fresh_name(rng, ext);
                if !names.iter().chain(funcs.iter()).any(|x: &Name| x.key() == c.key()) {
                    funcs.push(c);
                    break;
                }
            }
        }
        SynGen {
            rng,
            names,
            funcs,
            max_expr_depth: 4,
            max_block_depth: 3,
            ext_letters: ext,
            wild_strings: true,
            pronoun_den: 6,
            allow_pop: true,
            echo: None,
            next_id: 100,
            sem_literals: false,
        }
    }

    pub fn name(&mut self) -> Name {
        if !self.sem_literals && self.rng.chance(1, 10) {
            fresh_name(self.rng, self.ext_letters)
        } else {
            self.rng.pick_clone(&self.names)
        }
    }

    pub fn ident(&mut self) -> Ident {
        if self.pronoun_den > 0 && self.rng.chance(1, self.pronoun_den) {
            Ident::Pronoun
        } else {
            Ident::Name(self.name())
        }
    }

    pub fn number(&mut self) -> f64 {
        if self.sem_literals {
            return *self.rng.pick(&[0.0, 1.0, 1.0, 2.0, 3.0, 0.5, 2.5, 10.0, 7.0, 1e21, 0.0000001, 9007199254740992.0]);
        }
        match self.rng.below(12) {
            0 => 0.0,
            1 => 1.0,
            2 => 0.5,
            3 => 3.25,
            4 => 1e21,
            5 => 0.0000001,
            6 => 9007199254740993.0,
            7 => f64::INFINITY,
            8 => 123456.789,
            9 => self.rng.below(100) as f64 / 8.0,
            _ => self.rng.below(1000) as f64,
        }
    }

    pub fn string(&mut self) -> String {
        if self.sem_literals {
            return self
                .rng
                .pstr(&["", "a", "abc", "1", "0", " 1", "1e1", "2", "true", "é", "hello world", "-1", "mysterious"])
                .to_string();
        }
        if self.wild_strings && self.rng.chance(1, 8) {
            // multi-line or noisy
            let a = *self.rng.pick(STRINGS);
            let b = *self.rng.pick(STRINGS);
            format!("{}\n{}", a, b)
        } else {
            self.rng.pick(STRINGS).to_string()
        }
    }

    pub fn lit(&mut self) -> Lit {
        match self.rng.below(8) {
            0 => Lit::Mysterious,
            1 => Lit::Null,
            2 => Lit::Bool(self.rng.coin()),
            3 | 4 | 5 => Lit::Num(self.number()),
            _ => Lit::Str(self.string()),
        }
    }

    /// an atom: non-subscript primary
    fn atom(&mut self, depth: usize, tail: Tail) -> Prim {
        let mut w = vec![4u32, 6, 0, 0];
        if depth > 0 && tail == Tail::Free {
            w[2] = 2; // call
        }
        if depth > 0 && tail != Tail::NoCallNoPop && self.allow_pop {
            w[3] = 1; // pop
        }
        match self.rng.weighted(&w) {
            0 => Prim::Lit(self.lit()),
            1 => Prim::Ident(self.ident()),
            2 => self.call(depth - 1),
            _ => Prim::Pop(Box::new(self.prim(depth - 1, tail))),
        }
    }

    fn call(&mut self, depth: usize) -> Prim {
        if let Some(echo) = self.echo.clone() {
            self.next_id += 1;
            let id = self.next_id;
            let arg = self.unary(depth, Tail::Free);
            return Prim::Call(echo, vec![num(id as f64), arg]);
        }
        let name = if self.rng.chance(1, 4) {
            self.name()
        } else {
            self.rng.pick_clone(&self.funcs)
        };
        let n = self.rng.weighted(&[0, 5, 3, 2, 1]);
        let mut args = Vec::new();
        for i in 0..n {
            let tail = if i + 1 < n { Tail::NoCall } else { Tail::Free };
            args.push(self.unary(depth, tail));
        }
        Prim::Call(name, args)
    }

    pub fn prim(&mut self, depth: usize, tail: Tail) -> Prim {
        if depth > 0 && self.rng.chance(1, 4) {
            // subscript chain: array is Lit / Ident / Sub and is followed by `at`
            let array = match self.rng.below(8) {
                0 => Prim::Lit(Lit::Str(self.string())),
                1 => self.prim_sub_array(depth - 1),
                _ => Prim::Ident(self.ident()),
            };
            let sub = self.atom(depth - 1, tail);
            Prim::Sub(Box::new(array), Box::new(sub))
        } else {
            self.atom(depth, tail)
        }
    }

    fn prim_sub_array(&mut self, depth: usize) -> Prim {
        // an array expression followed by `at`: Ident or Sub whose subscript is Lit/Ident
        let base = Prim::Ident(self.ident());
        if depth == 0 {
            return base;
        }
        let sub = self.atom(0, Tail::NoCallNoPop);
        Prim::Sub(Box::new(base), Box::new(sub))
    }

    pub fn unary(&mut self, depth: usize, tail: Tail) -> Expr {
        if depth > 0 && self.rng.chance(1, 5) {
            let op = if self.rng.coin() { UnOp::Minus } else { UnOp::Not };
            Expr::Un(op, Box::new(self.unary(depth - 1, tail)))
        } else {
            Expr::Prim(self.prim(depth, tail))
        }
    }

    fn list(&mut self, elem_level: u8, depth: usize, tail: Tail) -> Vec<Expr> {
        if self.rng.chance(1, 5) {
            let n = self.rng.range(2, 4);
            (0..n)
                .map(|i| {
                    let t = if i + 1 < n { Tail::NoCall } else { tail };
                    self.unary(depth.min(2), t)
                })
                .collect()
        } else {
            vec![self.expr_lvl(elem_level, depth, tail)]
        }
    }

    pub fn expr(&mut self, depth: usize, tail: Tail) -> Expr {
        self.expr_lvl(0, depth, tail)
    }

    /// expression whose top operator has precedence level >= `level`
    pub fn expr_lvl(&mut self, level: u8, depth: usize, tail: Tail) -> Expr {
        if depth == 0 || level >= 4 {
            return self.unary(depth, tail);
        }
        // pick the level of the top node: one of level..=3, or unary (4)
        let choices: Vec<u8> = (level..=4).collect();
        let weights: Vec<u32> = choices
            .iter()
            .map(|l| match l {
                0 => 3,
                1 => 3,
                2 => 4,
                3 => 4,
                _ => 5,
            })
            .collect();
        let l = choices[self.rng.weighted(&weights)];
        match l {
            4 => self.unary(depth, tail),
            1 => self.comparison(depth, tail),
            _ => {
                let ops: &[BinOp] = match l {
                    0 => &[BinOp::And, BinOp::Or, BinOp::Nor],
                    2 => &[BinOp::Plus, BinOp::Minus],
                    _ => &[BinOp::Multiply, BinOp::Divide],
                };
                let op = *self.rng.pick(ops);
                let ltail = if op == BinOp::And { Tail::NoCall } else { Tail::Free };
                let lhs = self.expr_lvl(l, depth - 1, ltail);
                let rhs = self.list(l + 1, depth - 1, tail);
                Expr::Bin(op, Box::new(lhs), rhs)
            }
        }
    }

    fn comparison(&mut self, depth: usize, tail: Tail) -> Expr {
        let n = self.rng.weighted(&[0, 6, 2, 1]);
        let is_style = self.rng.coin();
        let mut e = self.expr_lvl(2, depth - 1, Tail::Free);
        for i in 0..n {
            let t = if i + 1 < n { Tail::Free } else { tail };
            if is_style {
                let op = *self.rng.pick(&[
                    BinOp::Eq,
                    BinOp::Eq,
                    BinOp::NotEq,
                    BinOp::Greater,
                    BinOp::GreaterEq,
                    BinOp::Less,
                    BinOp::LessEq,
                ]);
                let mut rhs = self.expr_lvl(2, depth - 1, t);
                if op == BinOp::Eq {
                    let mut guard = 0;
                    while rhs.starts_with_not() && guard < 20 {
                        rhs = self.expr_lvl(2, depth - 1, t);
                        guard += 1;
                    }
                    if rhs.starts_with_not() {
                        rhs = Expr::Prim(Prim::Lit(Lit::Null));
                    }
                }
                e = Expr::Bin(op, Box::new(e), vec![rhs]);
            } else {
                let op = *self.rng.pick(&[
                    BinOp::NotEq,
                    BinOp::Greater,
                    BinOp::GreaterEq,
                    BinOp::Less,
                    BinOp::LessEq,
                ]);
                let rhs = self.list(2, depth - 1, t);
                e = Expr::Bin(op, Box::new(e), rhs);
            }
        }
        e
    }

    pub fn lhs(&mut self, depth: usize) -> Lhs {
        if depth > 0 && self.rng.chance(1, 4) {
            let array = if self.rng.chance(1, 3) {
                self.prim_sub_array(1)
            } else {
                Prim::Ident(self.ident())
            };
            let sub = self.atom(depth - 1, Tail::Free);
            Lhs::Sub(Box::new(array), Box::new(sub))
        } else {
            Lhs::Ident(self.ident())
        }
    }

    fn toplevel_list(&mut self, depth: usize) -> Vec<Expr> {
        if self.rng.chance(1, 4) {
            let n = self.rng.range(2, 4);
            (0..n)
                .map(|i| {
                    let t = if i + 1 < n { Tail::NoCall } else { Tail::Free };
                    self.unary(depth.min(2), t)
                })
                .collect()
        } else {
            vec![self.expr(depth, Tail::Free)]
        }
    }

    fn poetic_text(&mut self) -> String {
        // a line text whose quotes and parentheses are balanced on the line
        const PIECES: &[&str] = &[
            "hello", "world", " ", "  ", "!", "?", ".", ",", "it's", "say", "if", "1", "2.5", "é",
            "日本", "\"quoted\"", "(paren)", "-", "+", "&", "'n'", "x_y", "\t", "says", "is",
        ];
        let n = self.rng.range(0, 6);
        let mut s = String::new();
        for i in 0..n {
            if i > 0 && self.rng.chance(2, 3) {
                s.push(' ');
            }
            s.push_str(self.rng.pstr(PIECES));
        }
        s
    }

    pub fn simple_stmt(&mut self, in_loop: bool, in_fn: bool) -> Stmt {
        let d = self.max_expr_depth;
        loop {
            let k = self.rng.below(17);
            return match k {
                0 | 1 => {
                    let op = if self.rng.chance(1, 3) {
                        Some(*self.rng.pick(&BinOp::ARITH))
                    } else {
                        None
                    };
                    let value = self.toplevel_list(d);
                    if op.is_none() && value.len() > 1 && value[0].starts_with_unary_minus() {
                        continue;
                    }
                    Stmt::Assign {
                        dest: self.lhs(2),
                        op,
                        value,
                    }
                }
                2 => {
                    let rhs = if self.rng.coin() {
                        PoeticRhs::Lit(poetic_elems(self.rng, 6))
                    } else {
                        // ordinary expression starting with a literal word or a negative number
                        let first: Expr = if self.rng.chance(1, 4) {
                            Expr::Un(UnOp::Minus, Box::new(num(self.number_finite())))
                        } else {
                            Expr::Prim(Prim::Lit(self.lit()))
                        };
                        let e = if self.rng.coin() {
                            first
                        } else {
                            let op = *self.rng.pick(&[
                                BinOp::Plus,
                                BinOp::Minus,
                                BinOp::Multiply,
                                BinOp::Divide,
                                BinOp::And,
                                BinOp::Or,
                            ]);
                            let rhs = self.list(op.level() + 1, 1, Tail::Free);
                            Expr::Bin(op, Box::new(first), rhs)
                        };
                        PoeticRhs::Expr(e)
                    };
                    Stmt::PoeticNum {
                        dest: self.lhs(1),
                        rhs,
                    }
                }
                3 => Stmt::PoeticStr {
                    dest: self.lhs(1),
                    text: self.poetic_text(),
                },
                4 => Stmt::Inc {
                    dest: self.ident(),
                    n: self.rng.range(1, 4),
                },
                5 => Stmt::Dec {
                    dest: self.ident(),
                    n: self.rng.range(1, 4),
                },
                6 => Stmt::Input {
                    dest: if self.rng.coin() {
                        Some(self.lhs(1))
                    } else {
                        None
                    },
                },
                7 | 8 => Stmt::Output {
                    value: self.expr(d, Tail::Free),
                },
                9 => {
                    let dest = if self.rng.coin() {
                        Some(self.lhs(1))
                    } else {
                        None
                    };
                    let operand = if dest.is_some() {
                        self.prim(2, Tail::Free)
                    } else {
                        Prim::Ident(self.ident())
                    };
                    Stmt::Mutation {
                        op: *self.rng.pick(&[MutOp::Cut, MutOp::Join, MutOp::Cast]),
                        operand,
                        dest,
                        param: if self.rng.coin() {
                            Some(self.expr(2, Tail::Free))
                        } else {
                            None
                        },
                    }
                }
                10 => Stmt::Rounding {
                    dir: *self
                        .rng
                        .pick(&[RoundDir::Up, RoundDir::Down, RoundDir::Nearest]),
                    operand: if self.rng.chance(3, 4) {
                        Expr::Prim(Prim::Ident(self.ident()))
                    } else {
                        self.expr(2, Tail::Free)
                    },
                },
                11 => {
                    if in_loop {
                        if self.rng.coin() {
                            Stmt::Continue
                        } else {
                            Stmt::Break
                        }
                    } else {
                        continue;
                    }
                }
                12 => Stmt::Push {
                    array: self.prim(1, Tail::Free),
                    value: match self.rng.below(3) {
                        0 => None,
                        1 => Some(PushRhs::List(self.toplevel_list(2))),
                        _ => Some(PushRhs::Poetic(poetic_elems(self.rng, 4))),
                    },
                },
                13 => Stmt::Pop {
                    array: self.prim(1, Tail::Free),
                    dest: if self.rng.coin() {
                        Some(self.lhs(1))
                    } else {
                        None
                    },
                },
                14 => {
                    if in_fn {
                        Stmt::Return {
                            value: self.expr(d, Tail::Free),
                        }
                    } else {
                        continue;
                    }
                }
                _ => match self.call(2) {
                    Prim::Call(name, args) => Stmt::Call { name, args },
                    _ => unreachable!(),
                },
            };
        }
    }

    fn number_finite(&mut self) -> f64 {
        loop {
            let n = self.number();
            if n.is_finite() {
                return n;
            }
        }
    }

    pub fn block(&mut self, depth: usize, in_loop: bool, in_fn: bool, direct_fn_body: bool) -> Vec<Stmt> {
        let n = self.rng.weighted(&[1, 4, 4, 2, 1]);
        let mut v = Vec::new();
        for i in 0..n {
            let last = i + 1 == n;
            v.push(self.stmt(depth, in_loop, in_fn, direct_fn_body, last));
        }
        v
    }

    /// `direct_fn_body`: the statement sits directly in a function body (if/else only as last)
    pub fn stmt(&mut self, depth: usize, in_loop: bool, in_fn: bool, direct_fn_body: bool, last: bool) -> Stmt {
        if depth > 0 && self.rng.chance(1, 3) {
            match self.rng.below(5) {
                0 | 1 => {
                    let cond = self.expr(self.max_expr_depth.min(3), Tail::Free);
                    let then = self.block(depth - 1, in_loop, in_fn, false);
                    let els = if (!direct_fn_body || last) && self.rng.coin() {
                        Some(self.block(depth - 1, in_loop, in_fn, false))
                    } else {
                        None
                    };
                    Stmt::If { cond, then, els }
                }
                2 => Stmt::While {
                    cond: self.expr(3, Tail::Free),
                    body: self.block(depth - 1, true, in_fn, false),
                },
                3 => Stmt::Until {
                    cond: self.expr(3, Tail::Free),
                    body: self.block(depth - 1, true, in_fn, false),
                },
                _ => {
                    let name = if self.rng.coin() {
                        self.rng.pick_clone(&self.funcs)
                    } else {
                        self.name()
                    };
                    let np = self.rng.range(1, 4);
                    let params = (0..np).map(|_| self.name()).collect();
                    Stmt::Function {
                        name,
                        params,
                        body: self.block(depth - 1, false, true, true),
                    }
                }
            }
        } else {
            self.simple_stmt(in_loop, in_fn)
        }
    }

    pub fn program(&mut self) -> Program {
        let nb = self.rng.weighted(&[0, 5, 3, 1]);
        let mut blocks = Vec::new();
        for _ in 0..nb {
            let mut b = Vec::new();
            let n = self.rng.range(1, 5);
            for _ in 0..n {
                let d = self.max_block_depth;
                b.push(self.stmt(d, false, false, false, false));
            }
            blocks.push(b);
        }
        Program { blocks }
    }
}
