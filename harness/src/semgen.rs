//! Helpers for semantics-oriented programs: a prelude that builds universe values in variables,
//! the `Echo` side-effect witness, and a value-oriented expression generator configuration.

use crate::gen::SynGen;
use crate::mast::*;
use crate::refi::V;
use crate::rng::Rng;
use crate::vals::{build_stmts, universe, UVal};

pub const VAR_NAMES: &[&str] = &["Alpha", "Beta", "Gamma", "Delta", "Omega", "Sigma"];

pub fn echo_name() -> Name {
    simple("Echo")
}

/// `Echo takes Ident, Payload / say Ident / give back Payload`
pub fn echo_def() -> Stmt {
    let id = simple("Ident");
    let p = simple("Payload");
    Stmt::Function {
        name: echo_name(),
        params: vec![id.clone(), p.clone()],
        body: vec![say(var(&id)), Stmt::Return { value: var(&p) }],
    }
}

pub struct Sem {
    pub vars: Vec<(Name, UVal)>,
}

impl Sem {
    /// pick `k` universe values (biased to cover every kind) and name them
    pub fn new(rng: &mut Rng, k: usize) -> Sem {
        let u = universe();
        let mut vars = Vec::new();
        for i in 0..k.min(VAR_NAMES.len()) {
            let uv = rng.pick(&u).clone();
            vars.push((simple(VAR_NAMES[i]), uv));
        }
        Sem { vars }
    }

    pub fn with_values(vals: Vec<UVal>) -> Sem {
        Sem {
            vars: vals
                .into_iter()
                .enumerate()
                .map(|(i, v)| (simple(VAR_NAMES[i]), v))
                .collect(),
        }
    }

    pub fn prelude(&self) -> Vec<Stmt> {
        let mut out = Vec::new();
        for (i, (n, uv)) in self.vars.iter().enumerate() {
            build_stmts(&uv.v, n, &format!("tmp{}", (b'a' + i as u8) as char), &mut out);
        }
        out.push(echo_def());
        out
    }

    pub fn names(&self) -> Vec<Name> {
        self.vars.iter().map(|(n, _)| n.clone()).collect()
    }

    pub fn arrays(&self) -> Vec<Name> {
        self.vars
            .iter()
            .filter(|(_, v)| matches!(v.v, V::Arr(_)))
            .map(|(n, _)| n.clone())
            .collect()
    }

    /// a generator whose identifiers are these variables, whose calls are Echo calls
    pub fn gen<'a>(&self, rng: &'a mut Rng) -> SynGen<'a> {
        let mut g = SynGen::new(rng);
        g.names = self.names();
        g.funcs = vec![echo_name()];
        g.echo = Some(echo_name());
        g.pronoun_den = 0;
        g.allow_pop = false;
        g.sem_literals = true;
        g.wild_strings = false;
        g.max_expr_depth = 3;
        g
    }
}
