//! Worker context: case scheduling (sharding, per-case seeds), journal, counters, evidence and
//! violation collection, final JSON report.

use crate::json::Json;
use crate::mon::{PanicClass, PanicInfo, SiteCounters};
use crate::rng::{hash_str, mix, Rng};
use std::collections::{BTreeMap, BTreeSet, HashSet};
use std::io::{Seek, SeekFrom, Write};
use std::time::{Duration, Instant};

#[derive(Clone, Copy, Debug, PartialEq, Eq)]
pub enum Tier {
    Quick,
    Thorough,
}

#[derive(Clone, Debug)]
pub struct ReplaySpec {
    pub stage: String,
    pub index: u64,
}

#[derive(Clone, Debug)]
pub struct Violation {
    pub signature: String,
    pub detail: String,
    pub stage: String,
    pub index: u64,
    pub case: Json,
    pub count: u64,
}

pub struct Ctx {
    pub prop: String,
    pub tier: Tier,
    pub seed: u64,
    pub shard: usize,
    pub nshards: usize,
    pub profile: String,
    /// scale factor for case counts (1.0 = the tier's nominal size)
    pub scale: f64,
    pub replay: Option<ReplaySpec>,
    pub verbose: bool,
    /// running under a sanitizer interpreter (Miri): tiny workloads, H1 trap passive
    pub miri: bool,
    /// record H3 statement-boundary events in exec_compare and check their invariants
    pub log_events: bool,

    pub evaluations: u64,
    pub counters: BTreeMap<String, u64>,
    pub maxes: BTreeMap<String, u64>,
    pub sets: BTreeMap<String, BTreeSet<String>>,
    pub distinct: HashSet<u64>,
    pub shapes: HashSet<u64>,
    pub distinct_cap: usize,
    pub samples: Vec<Json>,
    pub violations: Vec<Violation>,
    pub inconclusive: BTreeMap<String, u64>,
    pub sites: SiteCounters,
    pub notes: Vec<String>,

    journal: Option<std::fs::File>,
    violation_log: Option<String>,
    pub deadline: Instant,
    pub truncated: bool,
    cur_stage: String,
    cur_index: u64,
    pub started: Instant,
}

impl Ctx {
    pub fn new(prop: &str, tier: Tier, seed: u64, shard: usize, nshards: usize, profile: &str) -> Ctx {
        Ctx {
            prop: prop.to_string(),
            tier,
            seed,
            shard,
            nshards: nshards.max(1),
            profile: profile.to_string(),
            scale: 1.0,
            replay: None,
            verbose: false,
            miri: false,
            log_events: false,
            evaluations: 0,
            counters: BTreeMap::new(),
            maxes: BTreeMap::new(),
            sets: BTreeMap::new(),
            distinct: HashSet::new(),
            shapes: HashSet::new(),
            distinct_cap: 400_000,
            samples: Vec::new(),
            violations: Vec::new(),
            inconclusive: BTreeMap::new(),
            sites: SiteCounters::default(),
            notes: Vec::new(),
            journal: None,
            violation_log: None,
            deadline: Instant::now() + Duration::from_secs(3600),
            truncated: false,
            cur_stage: String::new(),
            cur_index: 0,
            started: Instant::now(),
        }
    }

    pub fn set_journal(&mut self, path: &str) {
        self.journal = std::fs::OpenOptions::new()
            .create(true)
            .write(true)
            .truncate(true)
            .open(path)
            .ok();
        // violations are also appended, one JSON line each, the moment they are found: a worker that is
        // later lost (watchdog, allocation failure in a case that ran on) still delivers what it saw
        self.violation_log = Some(path.replace("journal_", "violations_").replace(".txt", ".jsonl"));
        if let Some(p) = &self.violation_log {
            let _ = std::fs::remove_file(p);
        }
    }

    pub fn is_quick(&self) -> bool {
        self.tier == Tier::Quick
    }

    /// nominal size by tier, scaled
    pub fn size(&self, quick: u64, thorough: u64) -> u64 {
        let n = if self.is_quick() { quick } else { thorough };
        ((n as f64 * self.scale).ceil() as u64).max(1)
    }

    pub fn case_seed(&self, stage: &str, index: u64) -> u64 {
        mix(&[self.seed, hash_str(&self.prop), hash_str(stage), index])
    }

    fn journal_case(&mut self, stage: &str, index: u64) {
        if let Some(f) = self.journal.as_mut() {
            let line = format!("{} {} {:<40}\n", stage, index, "");
            let _ = f.seek(SeekFrom::Start(0));
            let _ = f.write_all(line.as_bytes());
        }
    }

    pub fn journal_done(&mut self) {
        if let Some(f) = self.journal.as_mut() {
            let line = format!("{:<80}\n", "DONE");
            let _ = f.seek(SeekFrom::Start(0));
            let _ = f.write_all(line.as_bytes());
            let _ = f.set_len(line.len() as u64);
        }
    }

    /// Run `total` cases of `stage`; this worker takes the indices of its shard. Each case gets
    /// its own PRNG derived from (seed, property, stage, index), so any case replays alone.
    pub fn cases<F: FnMut(&mut Ctx, &mut Rng, u64)>(&mut self, stage: &str, total: u64, mut f: F) {
        if let Some(r) = self.replay.clone() {
            if r.stage == stage {
                let mut rng = Rng::new(self.case_seed(stage, r.index));
                self.cur_stage = stage.to_string();
                self.cur_index = r.index;
                f(self, &mut rng, r.index);
            }
            return;
        }
        let mut idx = self.shard as u64;
        while idx < total {
            if Instant::now() > self.deadline {
                self.truncated = true;
                *self
                    .counters
                    .entry(format!("truncated_by_deadline.{}", stage))
                    .or_insert(0) += 1;
                break;
            }
            self.journal_case(stage, idx);
            let mut rng = Rng::new(self.case_seed(stage, idx));
            self.cur_stage = stage.to_string();
            self.cur_index = idx;
            f(self, &mut rng, idx);
            idx += self.nshards as u64;
        }
    }

    // ------------------------------------------------------------ evidence helpers

    pub fn count(&mut self, key: &str) {
        *self.counters.entry(key.to_string()).or_insert(0) += 1;
    }
    pub fn add(&mut self, key: &str, n: u64) {
        *self.counters.entry(key.to_string()).or_insert(0) += n;
    }
    pub fn max(&mut self, key: &str, v: u64) {
        let e = self.maxes.entry(key.to_string()).or_insert(0);
        if v > *e {
            *e = v;
        }
    }
    pub fn seen(&mut self, set: &str, item: &str) {
        // coverage sets are categorical (token types, error codes, ...); open-ended ones are capped
        // so that the evidence file stays small
        let s = self.sets.entry(set.to_string()).or_default();
        if s.len() < 300 || s.contains(item) {
            s.insert(item.to_string());
        }
    }
    pub fn eval(&mut self) {
        self.evaluations += 1;
    }
    /// register a distinct non-trivial case by its hash
    pub fn nontrivial(&mut self, h: u64) {
        if self.distinct.len() < self.distinct_cap {
            self.distinct.insert(h);
        } else {
            self.count("distinct_cap_reached");
        }
    }
    /// secondary distinct count (e.g. distinct nesting shapes), reported as a counter at the end
    pub fn nontrivial_shape(&mut self, h: u64) {
        if self.shapes.len() < 200_000 {
            self.shapes.insert(h);
        }
    }
    pub fn sample(&mut self, j: Json) {
        if self.samples.len() < 4 {
            self.samples.push(j);
        }
    }
    pub fn inconclusive(&mut self, class: &str) {
        *self.inconclusive.entry(class.to_string()).or_insert(0) += 1;
    }

    pub fn violation(&mut self, signature: &str, detail: &str, case: Json) {
        if self.verbose {
            eprintln!("VIOLATION {} :: {}\n{}", signature, detail, case.to_text());
        }
        if let Some(v) = self.violations.iter_mut().find(|v| v.signature == signature) {
            v.count += 1;
            return;
        }
        if self.violations.len() >= 40 {
            self.count("violations_dropped_over_cap");
            return;
        }
        if let Some(path) = &self.violation_log {
            use std::io::Write;
            if let Ok(mut f) = std::fs::OpenOptions::new().create(true).append(true).open(path) {
                let line = Json::obj()
                    .with("signature", Json::s(signature))
                    .with("detail", Json::s(detail.chars().take(2000).collect::<String>()))
                    .with("stage", Json::s(&self.cur_stage))
                    .with("index", Json::u(self.cur_index))
                    .with("case", case.clone());
                let _ = writeln!(f, "{}", line.to_text());
            }
        }
        self.violations.push(Violation {
            signature: signature.to_string(),
            detail: detail.chars().take(2000).collect(),
            stage: self.cur_stage.clone(),
            index: self.cur_index,
            case,
            count: 1,
        });
    }

    /// Standard handling of a panic caught by the outcome monitor. Returns true if it was a
    /// violation (false: inconclusive class).
    pub fn panic_outcome(&mut self, what: &str, p: &PanicInfo, case: Json) -> bool {
        match p.class {
            PanicClass::Resource => {
                self.inconclusive("resource_panic");
                false
            }
            PanicClass::Fuel => {
                let sig = format!("{}:fuel", what);
                self.violation(&sig, &format!("{} at {}", p.msg, p.loc), case);
                true
            }
            PanicClass::Precondition => {
                let site = p.msg.rsplit(" at ").next().unwrap_or("?").to_string();
                let sig = format!("{}:precondition@{}", what, site);
                self.violation(&sig, &format!("{} at {}", p.msg, p.loc), case);
                true
            }
            PanicClass::Other => {
                let sig = format!("{}:{}", what, p.signature());
                self.violation(&sig, &format!("{} at {}", p.msg, p.loc), case);
                true
            }
        }
    }

    // ------------------------------------------------------------ report

    pub fn report(&self) -> Json {
        let mut j = Json::obj();
        j.set("property", Json::s(&self.prop));
        j.set(
            "tier",
            Json::s(if self.is_quick() { "quick" } else { "thorough" }),
        );
        j.set("seed", Json::u(self.seed));
        j.set("shard", Json::u(self.shard as u64));
        j.set("nshards", Json::u(self.nshards as u64));
        j.set("profile", Json::s(&self.profile));
        j.set("evaluations", Json::u(self.evaluations));
        j.set("truncated", Json::Bool(self.truncated));
        j.set("wall_s", Json::Num(self.started.elapsed().as_secs_f64()));
        let mut c = Json::obj();
        for (k, v) in &self.counters {
            c.set(k, Json::u(*v));
        }
        j.set("counters", c);
        let mut m = Json::obj();
        for (k, v) in &self.maxes {
            m.set(k, Json::u(*v));
        }
        j.set("maxes", m);
        let mut s = Json::obj();
        for (k, v) in &self.sets {
            s.set(k, Json::Arr(v.iter().map(|x| Json::s(x)).collect()));
        }
        j.set("sets", s);
        let mut inc = Json::obj();
        for (k, v) in &self.inconclusive {
            inc.set(k, Json::u(*v));
        }
        j.set("inconclusive", inc);
        let mut sites = Json::obj();
        for (k, v) in &self.sites.0 {
            sites.set(
                k,
                Json::obj()
                    .with("reached", Json::u(v.0))
                    .with("violated", Json::u(v.1)),
            );
        }
        j.set("unsafe_sites", sites);
        j.set("samples", Json::Arr(self.samples.clone()));
        j.set(
            "notes",
            Json::Arr(self.notes.iter().map(|n| Json::s(n)).collect()),
        );
        let mut vs = Json::arr();
        for v in &self.violations {
            vs.push(
                Json::obj()
                    .with("signature", Json::s(&v.signature))
                    .with("detail", Json::s(&v.detail))
                    .with("stage", Json::s(&v.stage))
                    .with("index", Json::u(v.index))
                    .with("count", Json::u(v.count))
                    .with("case", v.case.clone()),
            );
        }
        j.set("violations", vs);
        j.set("distinct_count", Json::u(self.distinct.len() as u64));
        j.set("distinct_shapes_in_shard", Json::u(self.shapes.len() as u64));
        j
    }

    pub fn distinct_bytes(&self) -> Vec<u8> {
        let mut v: Vec<u64> = self.distinct.iter().copied().collect();
        v.sort_unstable();
        let mut out = Vec::with_capacity(v.len() * 8);
        for h in v {
            out.extend_from_slice(&h.to_le_bytes());
        }
        out
    }
}
