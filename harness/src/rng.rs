//! Small deterministic PRNG (xoshiro256**, seeded through splitmix64). No external crates.

#[derive(Clone, Debug)]
pub struct Rng {
    s: [u64; 4],
}

pub fn splitmix64(state: &mut u64) -> u64 {
    *state = state.wrapping_add(0x9E37_79B9_7F4A_7C15);
    let mut z = *state;
    z = (z ^ (z >> 30)).wrapping_mul(0xBF58_476D_1CE4_E5B9);
    z = (z ^ (z >> 27)).wrapping_mul(0x94D0_49BB_1331_11EB);
    z ^ (z >> 31)
}

/// Mix several words into one seed (order-sensitive).
pub fn mix(words: &[u64]) -> u64 {
    let mut st = 0x243F_6A88_85A3_08D3u64;
    let mut out = 0u64;
    for w in words {
        st ^= *w;
        out = splitmix64(&mut st) ^ out.rotate_left(17);
    }
    let mut st2 = out;
    splitmix64(&mut st2)
}

pub fn hash_str(s: &str) -> u64 {
    // FNV-1a 64, then a finalizer
    let mut h = 0xcbf2_9ce4_8422_2325u64;
    for b in s.as_bytes() {
        h ^= *b as u64;
        h = h.wrapping_mul(0x100_0000_01b3);
    }
    let mut st = h;
    splitmix64(&mut st)
}

pub fn hash_bytes(bs: &[u8]) -> u64 {
    let mut h = 0xcbf2_9ce4_8422_2325u64;
    for b in bs {
        h ^= *b as u64;
        h = h.wrapping_mul(0x100_0000_01b3);
    }
    let mut st = h;
    splitmix64(&mut st)
}

impl Rng {
    pub fn new(seed: u64) -> Self {
        let mut st = seed;
        let s = [
            splitmix64(&mut st),
            splitmix64(&mut st),
            splitmix64(&mut st),
            splitmix64(&mut st),
        ];
        Rng { s }
    }

    pub fn next_u64(&mut self) -> u64 {
        let result = self.s[1].wrapping_mul(5).rotate_left(7).wrapping_mul(9);
        let t = self.s[1] << 17;
        self.s[2] ^= self.s[0];
        self.s[3] ^= self.s[1];
        self.s[1] ^= self.s[2];
        self.s[0] ^= self.s[3];
        self.s[2] ^= t;
        self.s[3] = self.s[3].rotate_left(45);
        result
    }

    /// Uniform in 0..n (n > 0).
    pub fn below(&mut self, n: usize) -> usize {
        debug_assert!(n > 0);
        (self.next_u64() % (n as u64)) as usize
    }

    /// Uniform in lo..=hi.
    pub fn range(&mut self, lo: usize, hi: usize) -> usize {
        lo + self.below(hi - lo + 1)
    }

    /// True with probability num/den.
    pub fn chance(&mut self, num: u32, den: u32) -> bool {
        (self.next_u64() % den as u64) < num as u64
    }

    pub fn coin(&mut self) -> bool {
        self.next_u64() & 1 == 1
    }

    pub fn pick<'a, T>(&mut self, xs: &'a [T]) -> &'a T {
        &xs[self.below(xs.len())]
    }

    pub fn pstr<'a>(&mut self, xs: &[&'a str]) -> &'a str {
        xs[self.below(xs.len())]
    }

    pub fn pick_clone<T: Clone>(&mut self, xs: &[T]) -> T {
        xs[self.below(xs.len())].clone()
    }

    /// Weighted choice: returns the index.
    pub fn weighted(&mut self, weights: &[u32]) -> usize {
        let total: u64 = weights.iter().map(|w| *w as u64).sum();
        let mut x = self.next_u64() % total.max(1);
        for (i, w) in weights.iter().enumerate() {
            if x < *w as u64 {
                return i;
            }
            x -= *w as u64;
        }
        weights.len() - 1
    }

    pub fn shuffle<T>(&mut self, xs: &mut [T]) {
        for i in (1..xs.len()).rev() {
            let j = self.below(i + 1);
            xs.swap(i, j);
        }
    }

    pub fn fork(&mut self) -> Rng {
        Rng::new(self.next_u64())
    }
}
