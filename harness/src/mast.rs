//! MODEL syntax tree: my own types, independent of `rrss::frontend::ast` (no positions).

#[derive(Clone, Debug, PartialEq, Eq, Hash, PartialOrd, Ord)]
pub enum Name {
    Simple(String),
    Common(String, String),
    Proper(Vec<String>),
}

impl Name {
    /// Canonical key: kind + lower-cased spelling (what "the same variable" means).
    pub fn key(&self) -> String {
        fn lc(s: &str) -> String {
            s.chars().flat_map(|c| c.to_lowercase()).collect()
        }
        match self {
            Name::Simple(s) => format!("s:{}", lc(s)),
            Name::Common(p, w) => format!("c:{} {}", lc(p), lc(w)),
            Name::Proper(ws) => format!(
                "p:{}",
                ws.iter().map(|w| lc(w)).collect::<Vec<_>>().join(" ")
            ),
        }
    }
    pub fn text(&self) -> String {
        match self {
            Name::Simple(s) => s.clone(),
            Name::Common(p, w) => format!("{} {}", p, w),
            Name::Proper(ws) => ws.join(" "),
        }
    }
}

#[derive(Clone, Debug, PartialEq, Eq, Hash)]
pub enum Ident {
    Name(Name),
    Pronoun,
}

#[derive(Clone, Debug)]
pub enum Lit {
    Mysterious,
    Null,
    Bool(bool),
    Num(f64),
    Str(String),
}

impl PartialEq for Lit {
    fn eq(&self, other: &Self) -> bool {
        match (self, other) {
            (Lit::Mysterious, Lit::Mysterious) => true,
            (Lit::Null, Lit::Null) => true,
            (Lit::Bool(a), Lit::Bool(b)) => a == b,
            (Lit::Num(a), Lit::Num(b)) => a.to_bits() == b.to_bits(),
            (Lit::Str(a), Lit::Str(b)) => a == b,
            _ => false,
        }
    }
}

#[derive(Clone, Copy, Debug, PartialEq, Eq, Hash, PartialOrd, Ord)]
pub enum BinOp {
    Plus,
    Minus,
    Multiply,
    Divide,
    And,
    Or,
    Nor,
    Eq,
    NotEq,
    Greater,
    GreaterEq,
    Less,
    LessEq,
}

impl BinOp {
    pub const ALL: [BinOp; 13] = [
        BinOp::Plus,
        BinOp::Minus,
        BinOp::Multiply,
        BinOp::Divide,
        BinOp::And,
        BinOp::Or,
        BinOp::Nor,
        BinOp::Eq,
        BinOp::NotEq,
        BinOp::Greater,
        BinOp::GreaterEq,
        BinOp::Less,
        BinOp::LessEq,
    ];
    pub const ARITH: [BinOp; 4] = [BinOp::Plus, BinOp::Minus, BinOp::Multiply, BinOp::Divide];
    /// Precedence level: 0 logical, 1 comparison, 2 term, 3 factor.
    pub fn level(self) -> u8 {
        match self {
            BinOp::And | BinOp::Or | BinOp::Nor => 0,
            BinOp::Eq
            | BinOp::NotEq
            | BinOp::Greater
            | BinOp::GreaterEq
            | BinOp::Less
            | BinOp::LessEq => 1,
            BinOp::Plus | BinOp::Minus => 2,
            BinOp::Multiply | BinOp::Divide => 3,
        }
    }
    pub fn is_comparison(self) -> bool {
        self.level() == 1
    }
    pub fn name(self) -> &'static str {
        match self {
            BinOp::Plus => "plus",
            BinOp::Minus => "minus",
            BinOp::Multiply => "times",
            BinOp::Divide => "over",
            BinOp::And => "and",
            BinOp::Or => "or",
            BinOp::Nor => "nor",
            BinOp::Eq => "eq",
            BinOp::NotEq => "ne",
            BinOp::Greater => "gt",
            BinOp::GreaterEq => "ge",
            BinOp::Less => "lt",
            BinOp::LessEq => "le",
        }
    }
}

#[derive(Clone, Copy, Debug, PartialEq, Eq, Hash)]
pub enum UnOp {
    Minus,
    Not,
}

#[derive(Clone, Debug, PartialEq)]
pub enum Prim {
    Lit(Lit),
    Ident(Ident),
    Sub(Box<Prim>, Box<Prim>),
    Call(Name, Vec<Expr>),
    Pop(Box<Prim>),
}

#[derive(Clone, Debug, PartialEq)]
pub enum Expr {
    Prim(Prim),
    /// operator, lhs, rhs list (non-empty)
    Bin(BinOp, Box<Expr>, Vec<Expr>),
    Un(UnOp, Box<Expr>),
}

#[derive(Clone, Debug, PartialEq)]
pub enum Lhs {
    Ident(Ident),
    Sub(Box<Prim>, Box<Prim>),
}

#[derive(Clone, Debug, PartialEq, Eq, Hash)]
pub enum PoeticElem {
    Word(String),
    Suffix(String),
    Dot,
}

#[derive(Clone, Debug, PartialEq)]
pub enum PoeticRhs {
    Expr(Expr),
    Lit(Vec<PoeticElem>),
}

#[derive(Clone, Debug, PartialEq)]
pub enum PushRhs {
    List(Vec<Expr>),
    Poetic(Vec<PoeticElem>),
}

#[derive(Clone, Copy, Debug, PartialEq, Eq, Hash)]
pub enum MutOp {
    Cut,
    Join,
    Cast,
}

#[derive(Clone, Copy, Debug, PartialEq, Eq, Hash)]
pub enum RoundDir {
    Up,
    Down,
    Nearest,
}

#[derive(Clone, Debug, PartialEq)]
pub enum Stmt {
    Assign {
        dest: Lhs,
        op: Option<BinOp>,
        value: Vec<Expr>,
    },
    PoeticNum {
        dest: Lhs,
        rhs: PoeticRhs,
    },
    PoeticStr {
        dest: Lhs,
        text: String,
    },
    If {
        cond: Expr,
        then: Vec<Stmt>,
        els: Option<Vec<Stmt>>,
    },
    While {
        cond: Expr,
        body: Vec<Stmt>,
    },
    Until {
        cond: Expr,
        body: Vec<Stmt>,
    },
    Inc {
        dest: Ident,
        n: usize,
    },
    Dec {
        dest: Ident,
        n: usize,
    },
    Input {
        dest: Option<Lhs>,
    },
    Output {
        value: Expr,
    },
    Mutation {
        op: MutOp,
        operand: Prim,
        dest: Option<Lhs>,
        param: Option<Expr>,
    },
    Rounding {
        dir: RoundDir,
        operand: Expr,
    },
    Continue,
    Break,
    Push {
        array: Prim,
        value: Option<PushRhs>,
    },
    Pop {
        array: Prim,
        dest: Option<Lhs>,
    },
    Return {
        value: Expr,
    },
    Function {
        name: Name,
        params: Vec<Name>,
        body: Vec<Stmt>,
    },
    Call {
        name: Name,
        args: Vec<Expr>,
    },
}

impl Stmt {
    pub fn kind(&self) -> &'static str {
        match self {
            Stmt::Assign { .. } => "assignment",
            Stmt::PoeticNum { .. } => "poetic_number",
            Stmt::PoeticStr { .. } => "poetic_string",
            Stmt::If { .. } => "if",
            Stmt::While { .. } => "while",
            Stmt::Until { .. } => "until",
            Stmt::Inc { .. } => "inc",
            Stmt::Dec { .. } => "dec",
            Stmt::Input { .. } => "input",
            Stmt::Output { .. } => "output",
            Stmt::Mutation { .. } => "mutation",
            Stmt::Rounding { .. } => "rounding",
            Stmt::Continue => "continue",
            Stmt::Break => "break",
            Stmt::Push { .. } => "array_push",
            Stmt::Pop { .. } => "array_pop",
            Stmt::Return { .. } => "return",
            Stmt::Function { .. } => "function",
            Stmt::Call { .. } => "call_statement",
        }
    }
    pub const KINDS: [&'static str; 19] = [
        "assignment",
        "poetic_number",
        "poetic_string",
        "if",
        "while",
        "until",
        "inc",
        "dec",
        "input",
        "output",
        "mutation",
        "rounding",
        "continue",
        "break",
        "array_push",
        "array_pop",
        "return",
        "function",
        "call_statement",
    ];
    pub fn is_compound(&self) -> bool {
        matches!(
            self,
            Stmt::If { .. } | Stmt::While { .. } | Stmt::Until { .. } | Stmt::Function { .. }
        )
    }
    pub fn is_if_else(&self) -> bool {
        matches!(self, Stmt::If { els: Some(_), .. })
    }
}

#[derive(Clone, Debug, PartialEq, Default)]
pub struct Program {
    /// top-level blocks (each non-empty; empty ones are dropped by the parser)
    pub blocks: Vec<Vec<Stmt>>,
}

impl Program {
    pub fn single(stmts: Vec<Stmt>) -> Program {
        Program {
            blocks: if stmts.is_empty() { vec![] } else { vec![stmts] },
        }
    }
    pub fn stmt_count(&self) -> usize {
        fn count(ss: &[Stmt]) -> usize {
            ss.iter()
                .map(|s| {
                    1 + match s {
                        Stmt::If { then, els, .. } => {
                            count(then) + els.as_ref().map_or(0, |e| count(e))
                        }
                        Stmt::While { body, .. }
                        | Stmt::Until { body, .. }
                        | Stmt::Function { body, .. } => count(body),
                        _ => 0,
                    }
                })
                .sum()
        }
        self.blocks.iter().map(|b| count(b)).sum()
    }
    pub fn max_depth(&self) -> usize {
        fn depth(ss: &[Stmt]) -> usize {
            ss.iter()
                .map(|s| match s {
                    Stmt::If { then, els, .. } => {
                        1 + depth(then).max(els.as_ref().map_or(0, |e| depth(e)))
                    }
                    Stmt::While { body, .. }
                    | Stmt::Until { body, .. }
                    | Stmt::Function { body, .. } => 1 + depth(body),
                    _ => 0,
                })
                .max()
                .unwrap_or(0)
        }
        self.blocks.iter().map(|b| depth(b)).max().unwrap_or(0)
    }
    /// visit every statement (pre-order)
    pub fn for_each_stmt<F: FnMut(&Stmt)>(&self, f: &mut F) {
        fn go<F: FnMut(&Stmt)>(ss: &[Stmt], f: &mut F) {
            for s in ss {
                f(s);
                match s {
                    Stmt::If { then, els, .. } => {
                        go(then, f);
                        if let Some(e) = els {
                            go(e, f);
                        }
                    }
                    Stmt::While { body, .. }
                    | Stmt::Until { body, .. }
                    | Stmt::Function { body, .. } => go(body, f),
                    _ => {}
                }
            }
        }
        for b in &self.blocks {
            go(b, f);
        }
    }
}

// ---------- convenience constructors

pub fn num(n: f64) -> Expr {
    Expr::Prim(Prim::Lit(Lit::Num(n)))
}
pub fn strlit(s: &str) -> Expr {
    Expr::Prim(Prim::Lit(Lit::Str(s.to_string())))
}
pub fn var(n: &Name) -> Expr {
    Expr::Prim(Prim::Ident(Ident::Name(n.clone())))
}
pub fn pvar(n: &Name) -> Prim {
    Prim::Ident(Ident::Name(n.clone()))
}
pub fn simple(s: &str) -> Name {
    Name::Simple(s.to_string())
}
pub fn say(e: Expr) -> Stmt {
    Stmt::Output { value: e }
}
pub fn put(e: Expr, n: &Name) -> Stmt {
    Stmt::Assign {
        dest: Lhs::Ident(Ident::Name(n.clone())),
        op: None,
        value: vec![e],
    }
}
pub fn bin(op: BinOp, l: Expr, r: Expr) -> Expr {
    Expr::Bin(op, Box::new(l), vec![r])
}

impl Expr {
    /// Does the right-most leaf lie inside a call's argument list (greedy to `,` `&` `'n'` `and` `at`)?
    pub fn ends_in_call(&self) -> bool {
        match self {
            Expr::Prim(p) => p.ends_in_call(),
            Expr::Bin(_, _, r) => r.last().map_or(false, |e| e.ends_in_call()),
            Expr::Un(_, e) => e.ends_in_call(),
        }
    }
    /// Right-most leaf is a pop (greedy to `at`) or a call.
    pub fn ends_in_pop_or_call(&self) -> bool {
        match self {
            Expr::Prim(p) => p.ends_in_pop_or_call(),
            Expr::Bin(_, _, r) => r.last().map_or(false, |e| e.ends_in_pop_or_call()),
            Expr::Un(_, e) => e.ends_in_pop_or_call(),
        }
    }
    pub fn starts_with_unary_minus(&self) -> bool {
        match self {
            Expr::Prim(_) => false,
            Expr::Bin(_, l, _) => l.starts_with_unary_minus(),
            Expr::Un(UnOp::Minus, _) => true,
            Expr::Un(UnOp::Not, _) => false,
        }
    }
    pub fn starts_with_not(&self) -> bool {
        match self {
            Expr::Prim(_) => false,
            Expr::Bin(_, l, _) => l.starts_with_not(),
            Expr::Un(UnOp::Not, _) => true,
            Expr::Un(UnOp::Minus, _) => false,
        }
    }
    /// The left-most primary, if the expression starts with one (no leading unary operator).
    pub fn leftmost_prim(&self) -> Option<&Prim> {
        match self {
            Expr::Prim(p) => Some(p.leftmost()),
            Expr::Bin(_, l, _) => l.leftmost_prim(),
            Expr::Un(_, _) => None,
        }
    }
    pub fn is_unary_level(&self) -> bool {
        !matches!(self, Expr::Bin(..))
    }
    pub fn depth(&self) -> usize {
        match self {
            Expr::Prim(p) => p.depth(),
            Expr::Bin(_, l, r) => 1 + l.depth().max(r.iter().map(|e| e.depth()).max().unwrap_or(0)),
            Expr::Un(_, e) => 1 + e.depth(),
        }
    }
}

impl Prim {
    pub fn ends_in_call(&self) -> bool {
        match self {
            Prim::Call(..) => true,
            Prim::Sub(_, s) => s.ends_in_call(),
            Prim::Pop(p) => p.ends_in_call(),
            _ => false,
        }
    }
    pub fn ends_in_pop_or_call(&self) -> bool {
        match self {
            Prim::Call(..) => true,
            Prim::Pop(_) => true,
            Prim::Sub(_, s) => s.ends_in_pop_or_call(),
            _ => false,
        }
    }
    pub fn leftmost(&self) -> &Prim {
        match self {
            Prim::Sub(a, _) => a.leftmost(),
            p => p,
        }
    }
    pub fn depth(&self) -> usize {
        match self {
            Prim::Sub(a, s) => 1 + a.depth().max(s.depth()),
            Prim::Call(_, args) => 1 + args.iter().map(|e| e.depth()).max().unwrap_or(0),
            Prim::Pop(p) => 1 + p.depth(),
            _ => 0,
        }
    }
}

// ---------- name mapping (C15)

pub fn map_names(p: &Program, f: &mut dyn FnMut(&Name, &'static str) -> Name) -> Program {
    Program {
        blocks: p.blocks.iter().map(|b| map_block(b, f)).collect(),
    }
}

fn map_block(b: &[Stmt], f: &mut dyn FnMut(&Name, &'static str) -> Name) -> Vec<Stmt> {
    b.iter().map(|s| map_stmt(s, f)).collect()
}

fn map_ident(i: &Ident, pos: &'static str, f: &mut dyn FnMut(&Name, &'static str) -> Name) -> Ident {
    match i {
        Ident::Name(n) => Ident::Name(f(n, pos)),
        Ident::Pronoun => Ident::Pronoun,
    }
}

fn map_prim(p: &Prim, pos: &'static str, f: &mut dyn FnMut(&Name, &'static str) -> Name) -> Prim {
    match p {
        Prim::Lit(l) => Prim::Lit(l.clone()),
        Prim::Ident(i) => Prim::Ident(map_ident(i, pos, f)),
        Prim::Sub(a, s) => Prim::Sub(Box::new(map_prim(a, pos, f)), Box::new(map_prim(s, "subscript", f))),
        Prim::Call(n, args) => Prim::Call(f(n, "callee"), args.iter().map(|a| map_expr(a, "argument", f)).collect()),
        Prim::Pop(x) => Prim::Pop(Box::new(map_prim(x, "roll_operand", f))),
    }
}

fn map_expr(e: &Expr, pos: &'static str, f: &mut dyn FnMut(&Name, &'static str) -> Name) -> Expr {
    match e {
        Expr::Prim(p) => Expr::Prim(map_prim(p, pos, f)),
        Expr::Bin(op, l, r) => Expr::Bin(*op, Box::new(map_expr(l, pos, f)), r.iter().map(|x| map_expr(x, pos, f)).collect()),
        Expr::Un(op, x) => Expr::Un(*op, Box::new(map_expr(x, pos, f))),
    }
}

fn map_lhs(l: &Lhs, pos: &'static str, f: &mut dyn FnMut(&Name, &'static str) -> Name) -> Lhs {
    match l {
        Lhs::Ident(i) => Lhs::Ident(map_ident(i, pos, f)),
        Lhs::Sub(a, s) => Lhs::Sub(Box::new(map_prim(a, pos, f)), Box::new(map_prim(s, "subscript", f))),
    }
}

fn map_stmt(s: &Stmt, f: &mut dyn FnMut(&Name, &'static str) -> Name) -> Stmt {
    match s {
        Stmt::Assign { dest, op, value } => {
            // keep evaluation-order independence: map in a fixed order
            let value = value.iter().map(|e| map_expr(e, "value", f)).collect();
            Stmt::Assign { dest: map_lhs(dest, "assignment_target", f), op: *op, value }
        }
        Stmt::PoeticNum { dest, rhs } => Stmt::PoeticNum {
            dest: map_lhs(dest, "poetic_target", f),
            rhs: match rhs {
                PoeticRhs::Expr(e) => PoeticRhs::Expr(map_expr(e, "value", f)),
                PoeticRhs::Lit(l) => PoeticRhs::Lit(l.clone()),
            },
        },
        Stmt::PoeticStr { dest, text } => Stmt::PoeticStr { dest: map_lhs(dest, "poetic_target", f), text: text.clone() },
        Stmt::If { cond, then, els } => Stmt::If {
            cond: map_expr(cond, "condition", f),
            then: map_block(then, f),
            els: els.as_ref().map(|e| map_block(e, f)),
        },
        Stmt::While { cond, body } => Stmt::While { cond: map_expr(cond, "condition", f), body: map_block(body, f) },
        Stmt::Until { cond, body } => Stmt::Until { cond: map_expr(cond, "condition", f), body: map_block(body, f) },
        Stmt::Inc { dest, n } => Stmt::Inc { dest: map_ident(dest, "build_knock_target", f), n: *n },
        Stmt::Dec { dest, n } => Stmt::Dec { dest: map_ident(dest, "build_knock_target", f), n: *n },
        Stmt::Input { dest } => Stmt::Input { dest: dest.as_ref().map(|d| map_lhs(d, "listen_target", f)) },
        Stmt::Output { value } => Stmt::Output { value: map_expr(value, "value", f) },
        Stmt::Mutation { op, operand, dest, param } => Stmt::Mutation {
            op: *op,
            operand: map_prim(operand, "mutation_operand", f),
            dest: dest.as_ref().map(|d| map_lhs(d, "mutation_destination", f)),
            param: param.as_ref().map(|p| map_expr(p, "mutation_parameter", f)),
        },
        Stmt::Rounding { dir, operand } => Stmt::Rounding { dir: *dir, operand: map_expr(operand, "rounding_operand", f) },
        Stmt::Continue => Stmt::Continue,
        Stmt::Break => Stmt::Break,
        Stmt::Push { array, value } => Stmt::Push {
            array: map_prim(array, "rock_target", f),
            value: value.as_ref().map(|v| match v {
                PushRhs::List(es) => PushRhs::List(es.iter().map(|e| map_expr(e, "value", f)).collect()),
                PushRhs::Poetic(l) => PushRhs::Poetic(l.clone()),
            }),
        },
        Stmt::Pop { array, dest } => Stmt::Pop {
            array: map_prim(array, "roll_operand", f),
            dest: dest.as_ref().map(|d| map_lhs(d, "roll_destination", f)),
        },
        Stmt::Return { value } => Stmt::Return { value: map_expr(value, "value", f) },
        Stmt::Function { name, params, body } => Stmt::Function {
            name: f(name, "function_definition"),
            params: params.iter().map(|p| f(p, "parameter")).collect(),
            body: map_block(body, f),
        },
        Stmt::Call { name, args } => Stmt::Call {
            name: f(name, "callee"),
            args: args.iter().map(|a| map_expr(a, "argument", f)).collect(),
        },
    }
}
