//! C07 — split, join, cast and rounding transform values exactly and only their target.

use crate::ctx::Ctx;
use crate::json::Json;
use crate::mast::*;
use crate::props::{exec_compare, Verdict};
use crate::refi::{ArrV, Key, V};
use crate::render::Spelling;
use crate::rng::{hash_str, Rng};
use crate::vals::{build_stmts, scalar_expr};

fn s(x: &str) -> V {
    V::Str(x.to_string())
}
fn n(x: f64) -> V {
    V::Num(x)
}
fn arr(xs: Vec<V>) -> V {
    V::arr(xs)
}

fn cut_operands() -> Vec<V> {
    vec![
        s(""), s("a"), s("abc"), s("a,b,c"), s(",a,"), s("a,,b"), s(",,"), s("aaa"), s("aaaa"), s("é,ü,ñ"), s("日本語"),
        s("a b  c"), s("ab"), s("hello world"), s("🎸🎸"), n(5.0), V::Null, V::Bool(true), V::Mys, arr(vec![s("a")]),
    ]
}
fn cut_params() -> Vec<Option<V>> {
    vec![
        None, None, Some(s(",")), Some(s("")), Some(s("aa")), Some(s("a")), Some(s("abcd")), Some(s(" ")), Some(s("ü")),
        Some(s(",,")), Some(s("本")), Some(n(1.0)), Some(V::Null), Some(V::Bool(false)), Some(arr(vec![])), Some(V::Mys),
    ]
}
fn join_operands() -> Vec<V> {
    let with_dict = V::Arr(Box::new(ArrV { seq: vec![s("a"), s("b")], dict: vec![(Key::Str("k".into()), s("z"))] }));
    let dict_only = V::Arr(Box::new(ArrV { seq: vec![], dict: vec![(Key::Null, s("only"))] }));
    let dict_bad = V::Arr(Box::new(ArrV { seq: vec![s("a")], dict: vec![(Key::Bool(true), n(1.0))] }));
    vec![
        arr(vec![s("a"), s("b"), s("c")]), arr(vec![]), arr(vec![s("a")]), arr(vec![s(""), s("")]), arr(vec![s("é"), s("日本")]),
        arr(vec![s("a"), n(1.0)]), arr(vec![n(1.0), s("a")]), arr(vec![s("a"), arr(vec![s("b")])]), arr(vec![s("a"), V::Mys, s("b")]),
        arr(vec![V::Null]), with_dict, dict_only, dict_bad, s("abc"), n(3.0), V::Null, V::Mys, V::Bool(true),
    ]
}
fn join_params() -> Vec<Option<V>> {
    vec![None, None, Some(s(",")), Some(s("")), Some(s("ab")), Some(s(" - ")), Some(s("é")), Some(n(1.0)), Some(V::Null), Some(arr(vec![s(",")])), Some(V::Mys), Some(V::Bool(true))]
}
fn cast_string_operands() -> Vec<V> {
    vec![
        s("123"), s("1.5"), s("-2"), s("1e3"), s(""), s("abc"), s(" 1"), s("1 "), s("0x10"), s("inf"), s("NaN"), s("+5"), s(".5"),
        s("5."), s("ff"), s("FF"), s("z"), s("10"), s("-10"), s("+7"), s("-"), s("+"), s("12345678901234567890123"),
        s("9223372036854775807"), s("9223372036854775808"), s("-9223372036854775808"), s("-9223372036854775809"), s("1.0"),
        s("1_0"), s("١٢"), s("0"), s("-0"), s("00012"), s("Zz"), s("1e400"), s("infinity"),
    ]
}
fn cast_number_operands() -> Vec<V> {
    vec![
        n(65.0), n(233.0), n(128512.0), n(0.0), n(-0.0), n(-1.0), n(0.5), n(55296.0), n(57343.0), n(57344.0), n(1114111.0),
        n(1114112.0), n(1e30), n(f64::NAN), n(f64::INFINITY), n(4294967296.0), n(4294967361.0), n(97.0), n(10.0), n(32.0),
        // the doubles next to an integer are not integers
        n(f64::from_bits(65.0f64.to_bits() + 1)), n(f64::from_bits(65.0f64.to_bits() - 1)), n(0.30000000000000004 * 10.0),
        n(f64::from_bits(1114111.0f64.to_bits() + 1)), n(f64::MIN_POSITIVE), n(-f64::MIN_POSITIVE), n(0.9999999999999999),
    ]
}
fn round_operands() -> Vec<V> {
    vec![
        n(0.5), n(1.5), n(2.5), n(-0.5), n(-1.5), n(-2.5), n(2.4), n(2.6), n(-2.4), n(-2.6), n(0.0), n(-0.0), n(3.0),
        n(9007199254740992.0), n(4503599627370495.5), n(1e300), n(-1e300), n(f64::NAN), n(f64::INFINITY), n(f64::NEG_INFINITY),
        n(0.49999999999999994), n(1e-320), s("1.5"), V::Null, V::Bool(true), V::Mys, arr(vec![n(1.5)]),
    ]
}

#[derive(Clone, Copy, Debug, PartialEq)]
enum Form {
    InPlaceVariable,
    InPlacePronoun,
    IntoVariable,
    IntoSubscript,
    FromSubscriptInto,
    FromLiteralInto,
    FromUnknown,
}

fn value_expr_via(v: &V, name: &Name, tmp: &str, pre: &mut Vec<Stmt>) -> Expr {
    match scalar_expr(v) {
        Some(e) => e,
        None => {
            build_stmts(v, name, tmp, pre);
            var(name)
        }
    }
}

fn dump(place: &Prim, val_depth: usize, out: &mut Vec<Stmt>) {
    // the result may be an array of unknown length: length, indices 0..=6, and the keys used in this file
    out.push(say(Expr::Prim(place.clone())));
    if val_depth > 0 {
        for i in 0..7 {
            out.push(say(Expr::Prim(Prim::Sub(Box::new(place.clone()), Box::new(Prim::Lit(Lit::Num(i as f64)))))));
        }
    }
}

/// is a read of `X at i` safe on this model value (otherwise only `say X`)
fn indexable(v: &V) -> bool {
    matches!(v, V::Arr(_) | V::Str(_))
}

pub fn case(rng: &mut Rng, ctx: &mut Ctx) -> Program {
    let x = simple("Xavier");
    let d = simple("Destiny");
    let p = simple("Param");
    let container = simple("Container");
    let mut pre: Vec<Stmt> = Vec::new();
    // operation, operand, parameter
    let kind = rng.below(5);
    let (opname, op, operand, param): (&str, Option<MutOp>, V, Option<V>) = match kind {
        0 => ("cut", Some(MutOp::Cut), rng.pick(&cut_operands()).clone(), rng.pick(&cut_params()).clone()),
        1 => ("join", Some(MutOp::Join), rng.pick(&join_operands()).clone(), rng.pick(&join_params()).clone()),
        2 => {
            // string -> number, every radix
            let param = match rng.below(12) {
                0 | 1 | 2 => None,
                3 => Some(n(*rng.pick(&[1e30, 2.5, f64::NAN, f64::INFINITY, -16.0, 4294967312.0, 16.000001, 16.000000000000004, 15.999999999999998, 36.00000000000001, 1.9999999999999998]))),
                4 => Some(rng.pick(&[s("16"), V::Null, V::Bool(true), arr(vec![]), V::Mys]).clone()),
                _ => {
                    let r = rng.range(0, 41) as f64 - 1.0;
                    ctx.seen("radices", &format!("{}", r));
                    Some(n(r))
                }
            };
            ("cast_string", Some(MutOp::Cast), rng.pick(&cast_string_operands()).clone(), param)
        }
        3 => {
            let param = if rng.chance(1, 6) { Some(rng.pick(&[n(10.0), s("x"), V::Null]).clone()) } else { None };
            let operand = if rng.chance(1, 8) {
                rng.pick(&[V::Null, V::Bool(false), V::Mys, arr(vec![n(65.0)])]).clone()
            } else {
                rng.pick(&cast_number_operands()).clone()
            };
            ("cast_number", Some(MutOp::Cast), operand, param)
        }
        _ => ("turn", None, rng.pick(&round_operands()).clone(), None),
    };
    let form = if op.is_none() {
        *rng.pick(&[Form::InPlaceVariable, Form::InPlaceVariable, Form::InPlacePronoun, Form::FromSubscriptInto, Form::FromUnknown])
    } else {
        *rng.pick(&[
            Form::InPlaceVariable, Form::InPlaceVariable, Form::InPlacePronoun, Form::IntoVariable, Form::IntoVariable,
            Form::IntoSubscript, Form::FromSubscriptInto, Form::FromLiteralInto, Form::FromUnknown,
        ])
    };
    ctx.count(&format!("cases.{}.{:?}", opname, form));
    // parameter expression
    let param_expr = param.as_ref().map(|pv| value_expr_via(pv, &p, "tmpp", &mut pre));
    // the parameter given as a pronoun: `put <param> into Param` is then the last statement before the
    // mutation, so `it` is Param (the parameter is evaluated before the operand is named)
    let pronoun_param = param_expr.is_some()
        && matches!(form, Form::IntoVariable | Form::IntoSubscript | Form::FromSubscriptInto | Form::InPlaceVariable)
        && rng.chance(1, 5);
    let mut late: Vec<Stmt> = Vec::new();
    let param_expr = if pronoun_param {
        ctx.count("cases.parameter_is_a_pronoun");
        late.push(put(param_expr.clone().unwrap(), &p));
        Some(Expr::Prim(Prim::Ident(Ident::Pronoun)))
    } else {
        param_expr
    };
    let mut body = Vec::new();
    let result_may_be_array = opname == "cut";
    match form {
        Form::InPlaceVariable | Form::InPlacePronoun | Form::FromUnknown => {
            if form != Form::FromUnknown {
                // the last statement of the prelude names exactly X (so `it` is X)
                let mut b = Vec::new();
                build_stmts(&operand, &x, "tmpx", &mut b);
                if matches!(operand, V::Arr(_)) && form == Form::InPlacePronoun {
                    // building an array names temporaries last: finish with a self-assignment
                    b.push(put(var(&x), &x));
                }
                pre.extend(b);
            }
            let target = if form == Form::InPlacePronoun { Ident::Pronoun } else { Ident::Name(x.clone()) };
            match op {
                Some(op) => body.push(Stmt::Mutation { op, operand: Prim::Ident(target), dest: None, param: param_expr }),
                None => body.push(Stmt::Rounding {
                    dir: *rng.pick(&[RoundDir::Up, RoundDir::Down, RoundDir::Nearest]),
                    operand: Expr::Prim(Prim::Ident(target)),
                }),
            }
            dump(&pvar(&x), result_may_be_array as usize, &mut body);
        }
        Form::IntoVariable | Form::IntoSubscript | Form::FromSubscriptInto | Form::FromLiteralInto => {
            let mut popped_subscript: Option<Name> = None;
            let operand_prim = match form {
                Form::FromLiteralInto if scalar_expr(&operand).map_or(false, |e| matches!(e, Expr::Prim(Prim::Lit(_)))) => {
                    match scalar_expr(&operand) {
                        Some(Expr::Prim(p)) => p,
                        _ => unreachable!(),
                    }
                }
                Form::FromSubscriptInto => {
                    // Container = [7, operand]
                    pre.push(put(Expr::Prim(Prim::Lit(Lit::Mysterious)), &container));
                    pre.push(Stmt::Push { array: pvar(&container), value: Some(PushRhs::List(vec![num(7.0)])) });
                    let mut b = Vec::new();
                    build_stmts(&operand, &x, "tmpx", &mut b);
                    pre.extend(b);
                    pre.push(Stmt::Assign { dest: Lhs::Sub(Box::new(pvar(&container)), Box::new(Prim::Lit(Lit::Num(1.0)))), op: None, value: vec![var(&x)] });
                    if rng.chance(1, 4) {
                        // the subscript has an effect of its own (`Container at roll Queue`, Queue = [1, 0]): it is
                        // evaluated exactly once, which the queue printed afterwards shows
                        let q = simple("Queue");
                        pre.push(put(Expr::Prim(Prim::Lit(Lit::Mysterious)), &q));
                        pre.push(Stmt::Push { array: pvar(&q), value: Some(PushRhs::List(vec![num(1.0), num(0.0)])) });
                        popped_subscript = Some(q.clone());
                        ctx.count("cases.subscript_is_a_roll");
                        Prim::Sub(Box::new(pvar(&container)), Box::new(Prim::Pop(Box::new(pvar(&q)))))
                    } else {
                        Prim::Sub(Box::new(pvar(&container)), Box::new(Prim::Lit(Lit::Num(1.0))))
                    }
                }
                _ => {
                    build_stmts(&operand, &x, "tmpx", &mut pre);
                    pvar(&x)
                }
            };
            // what is dumped afterwards never has an effect of its own
            let stmt_operand = operand_prim.clone();
            let operand_prim = if let Some(q) = &popped_subscript {
                body.push(say(strlit("queue follows")));
                let _ = q;
                Prim::Sub(Box::new(pvar(&container)), Box::new(Prim::Lit(Lit::Num(1.0))))
            } else {
                operand_prim
            };
            match op {
                Some(op) => {
                    let dest = if form == Form::IntoSubscript {
                        Lhs::Sub(Box::new(pvar(&d)), Box::new(Prim::Lit(Lit::Num(1.0))))
                    } else {
                        Lhs::Ident(Ident::Name(d.clone()))
                    };
                    body.push(Stmt::Mutation { op, operand: stmt_operand.clone(), dest: Some(dest), param: param_expr });
                    if let Some(q) = &popped_subscript {
                        body.push(say(var(q)));
                    }
                    // the operand keeps its value
                    if matches!(operand_prim, Prim::Ident(_) | Prim::Sub(..)) {
                        let deep = indexable(&operand) && !matches!(operand, V::Str(_));
                        dump(&operand_prim, deep as usize, &mut body);
                    }
                    if form == Form::IntoSubscript {
                        body.push(say(var(&d)));
                        body.push(say(Expr::Prim(Prim::Sub(Box::new(pvar(&d)), Box::new(Prim::Lit(Lit::Num(0.0)))))));
                        let place = Prim::Sub(Box::new(pvar(&d)), Box::new(Prim::Lit(Lit::Num(1.0))));
                        dump(&place, result_may_be_array as usize, &mut body);
                    } else {
                        dump(&pvar(&d), result_may_be_array as usize, &mut body);
                    }
                }
                None => {
                    // rounding of an element in place
                    body.push(Stmt::Rounding {
                        dir: *rng.pick(&[RoundDir::Up, RoundDir::Down, RoundDir::Nearest]),
                        operand: Expr::Prim(stmt_operand.clone()),
                    });
                    if let Some(q) = &popped_subscript {
                        body.push(say(var(q)));
                    }
                    body.push(say(Expr::Prim(operand_prim)));
                    body.push(say(Expr::Prim(Prim::Sub(Box::new(pvar(&container)), Box::new(Prim::Lit(Lit::Num(0.0)))))));
                }
            }
        }
    }
    pre.extend(late);
    pre.extend(body);
    pre.push(say(strlit("end")));
    Program::single(pre)
}

pub fn run(ctx: &mut Ctx) {
    if ctx.miri {
        ctx.cases("miri", ctx.nshards as u64 * 3, |ctx, rng, _| {
            let tree = case(rng, ctx);
            exec_compare(ctx, "mutation", &tree, b"", &Spelling::canonical(), rng);
        });
        return;
    }
    let total = ctx.size(80_000, 2_500_000);
    ctx.cases("cases", total, |ctx, rng, _| {
        let tree = case(rng, ctx);
        let sp = if rng.chance(2, 3) { Spelling::canonical() } else { Spelling::mild(rng) };
        let c = exec_compare(ctx, "mutation", &tree, b"", &sp, rng);
        ctx.count("cases");
        match c.verdict {
            Verdict::Agree => {
                ctx.nontrivial(hash_str(&c.text));
                if let Some(m) = &c.model {
                    if let crate::refi::RefOutcome::Error(k) = &m.outcome {
                        ctx.seen("model_error_kinds", k);
                    }
                }
                if ctx.samples.len() < 4 && c.text.len() < 500 {
                    ctx.sample(Json::obj().with("src", Json::s(&c.text)).with("stdout", Json::s(String::from_utf8_lossy(&c.rrss_out).replace('\n', " | "))).with("error", match &c.rrss_err { Some(e) => Json::s(e), None => Json::Null }));
                }
            }
            _ => {}
        }
    });
}
