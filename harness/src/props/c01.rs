//! C01 — lexing and parsing are total.
//!
//! Refuted by: a panic / abort, a violated H1 precondition in the lexer or parser, exhausted
//! lexer fuel (H4: no termination within 1000 lexer steps per byte), or an `Err` whose rendering
//! panics or names no line of the input. Every input runs in the profile this binary was built
//! with; the driver runs the same shards in `dbg` and `rel`.

use crate::corpus;
use crate::ctx::Ctx;
use crate::gen::SynGen;
use crate::mon;
use crate::props::case_src;
use crate::render::{render, Spelling};
use crate::rng::{hash_str, Rng};

pub const FUEL_PER_BYTE: u64 = 1000;

pub fn check_input(ctx: &mut Ctx, src: &str, stage: &str) {
    ctx.eval();
    ctx.count(&format!("inputs.{}", stage));
    // token-level view (evidence + lexer-only totality)
    rrss::verif::arm_lex(FUEL_PER_BYTE.saturating_mul(src.len() as u64 + 16));
    rrss::verif::set_trap(!mon::passive());
    let lexed = mon::guarded(|| {
        let mut kinds: Vec<String> = Vec::new();
        let mut n = 0usize;
        let mut err_at_nonzero = false;
        let mut else_at_line_start = false;
        let mut prev_newline = true;
        for t in rrss::frontend::lexer::Lexer::new(src) {
            n += 1;
            let d = format!("{:?}", t.id);
            let name: String = d.chars().take_while(|c| c.is_alphanumeric()).collect();
            if name == "Error" && t.spelling.as_ptr() as usize != src.as_ptr() as usize {
                err_at_nonzero = true;
            }
            if name == "Else" && prev_newline {
                else_at_line_start = true;
            }
            prev_newline = name == "Newline";
            if !kinds.contains(&name) {
                kinds.push(name);
            }
        }
        (kinds, n, err_at_nonzero, else_at_line_start)
    });
    rrss::verif::arm_lex(u64::MAX);
    rrss::verif::set_trap(false);
    ctx.sites.absorb();
    let mut ntok = 0;
    match lexed {
        Ok((kinds, n, e, el)) => {
            ntok = n;
            for k in kinds {
                ctx.seen("token_types", &k);
            }
            if e {
                ctx.count("inputs_with_error_token_at_offset_gt_0");
            }
            if el {
                ctx.count("inputs_with_else_at_statement_start");
            }
        }
        Err(p) => {
            ctx.panic_outcome("lex", &p, case_src(src));
        }
    }
    if ntok >= 2 {
        ctx.nontrivial(hash_str(src));
    }
    // the parse itself
    let r = mon::parse_guarded(src, FUEL_PER_BYTE, true);
    ctx.sites.absorb();
    match r {
        Err(p) => {
            ctx.panic_outcome("parse", &p, case_src(src));
        }
        Ok(run) => {
            let ratio = run.lex_ticks * 100 / (src.len() as u64 + 16);
            ctx.max("max_lexer_steps_per_100_bytes", ratio);
            match run.result {
                Ok(_) => ctx.count("parse_ok"),
                Err(e) => {
                    ctx.count("parse_err");
                    ctx.seen("error_codes", &e.code);
                    let lines = src.bytes().filter(|b| *b == b'\n').count() as u32 + 1;
                    if e.line < 1 || e.line > lines + 1 {
                        ctx.violation(
                            "parse:error_line_out_of_range",
                            &format!("error names line {} of a {}-line input: {}", e.line, lines, e.text),
                            case_src(src),
                        );
                    }
                    let prefix = format!("Parse error (line {}): ", e.line);
                    if e.line == 0 || !e.text.starts_with(&prefix) || e.text.len() <= prefix.len() {
                        ctx.violation(
                            "parse:error_rendering",
                            &format!("rendered message {:?} does not name its line / is empty", e.text),
                            case_src(src),
                        );
                    }
                }
            }
        }
    }
}

/// tiny workload for the Miri stages (about one second per input there)
fn run_miri(ctx: &mut Ctx) {
    let n = ctx.size(1, 1) * ctx.nshards as u64;
    ctx.cases("miri_soup", n * 3, |ctx, rng, _| {
        let s = if rng.coin() {
            corpus::soup(rng, 120)
        } else {
            corpus::soup_multiline(rng, 120)
        };
        check_input(ctx, &s, "soup");
    });
    ctx.cases("miri_programs", n, |ctx, rng, _| {
        let prog = {
            let mut g = SynGen::new(rng);
            g.max_block_depth = 2;
            g.max_expr_depth = 3;
            g.program()
        };
        let sp = Spelling::wild(rng);
        if let Ok(r) = render(&prog, &sp, rng) {
            if r.text.len() <= 600 {
                check_input(ctx, &r.text, "program");
                let m = corpus::mutate(rng, &r.text);
                check_input(ctx, &m, "mutant");
                let k = rng.below(r.text.len().max(1));
                if let Some(p) = corpus::prefixes(&r.text, 1).get(k) {
                    check_input(ctx, p, "prefix");
                }
            }
        }
    });
    ctx.cases("miri_named", ctx.nshards as u64, |ctx, rng, _| {
        let all = ["x is 5\nsay abc1", "say a_b c_d", "say \"a\nb\"'s", "if 1\nsay 1\nelse\nsay 2", "Tom Sawyer is a big boy"];
        let s = all[rng.below(all.len())];
        check_input(ctx, s, "named");
        let d = rng.range(2, 12);
        let s = corpus::nesting(rng, d);
        check_input(ctx, &s, "nesting");
    });
}

pub fn run(ctx: &mut Ctx) {
    if ctx.miri {
        return run_miri(ctx);
    }
    // W1: token soup
    let n = ctx.size(300_000, 6_000_000);
    ctx.cases("soup", n, |ctx, rng, _| {
        let s = corpus::soup(rng, 400);
        if ctx.samples.len() < 2 && s.len() > 20 {
            ctx.sample(case_src(&s));
        }
        check_input(ctx, &s, "soup");
    });
    let n = ctx.size(60_000, 1_200_000);
    ctx.cases("soup_multiline", n, |ctx, rng, _| {
        let s = corpus::soup_multiline(rng, 300);
        check_input(ctx, &s, "soup_multiline");
    });
    // W2: valid programs, their mutations and every prefix
    let n = ctx.size(4_000, 100_000);
    ctx.cases("programs", n, |ctx, rng, idx| {
        let prog = {
            let mut g = SynGen::new(rng);
            g.program()
        };
        let sp = Spelling::wild(rng);
        let text = match render(&prog, &sp, rng) {
            Ok(r) => r.text,
            Err(e) => {
                ctx.count("generator_inexpressible");
                ctx.seen("generator_inexpressible_reasons", &e.0);
                return;
            }
        };
        if text.len() > 4096 {
            ctx.count("program_over_4k_skipped");
            return;
        }
        if ctx.samples.len() < 4 {
            ctx.sample(case_src(&text));
        }
        check_input(ctx, &text, "program");
        for _ in 0..6 {
            let m = corpus::mutate(rng, &text);
            check_input(ctx, &m, "mutant");
        }
        // every prefix for small programs, strided for larger ones; all of them every 8th program
        let stride = if text.len() <= 120 || rng.chance(1, 16) { 1 } else { 13 };
        let mut r2 = Rng::new(idx);
        let off = r2.below(stride);
        for (k, p) in corpus::prefixes(&text, 1).into_iter().enumerate() {
            if k % stride == off {
                check_input(ctx, p, "prefix");
            }
        }
    });
    // W3: nesting
    let n = ctx.size(2_000, 20_000);
    ctx.cases("nesting", n, |ctx, rng, _| {
        let d = match rng.below(4) {
            0 => rng.range(1, 10),
            1 => rng.range(10, 60),
            _ => rng.range(60, 300),
        };
        let s = corpus::nesting(rng, d);
        ctx.max("max_nesting_depth", d as u64);
        check_input(ctx, &s, "nesting");
    });
    // fixed regression inputs named by the property
    ctx.cases("named", 1, |ctx, _, _| {
        for s in [
            "x is 5\nsay abc1",
            "else",
            "say 1\n\nelse\nsay 2",
            "if 1\nsay 1\n\nelse\nsay 2",
            "say a_b",
            "  ab12 cd34",
            "",
            "\n",
            "\"",
            "(",
            "say \"a\nb\"'s",
        ] {
            check_input(ctx, s, "named");
        }
    });
}

/// seed corpus for the libFuzzer stage
pub fn emit(dir: &str, seed: u64, n: usize) {
    for i in 0..n {
        let mut rng = Rng::new(crate::rng::mix(&[seed, 0xC01, i as u64]));
        let text = match i % 4 {
            0 => corpus::soup(&mut rng, 300),
            1 => corpus::soup_multiline(&mut rng, 200),
            2 => {
                let d = rng.range(2, 40);
                corpus::nesting(&mut rng, d)
            }
            _ => {
                let p = {
                    let mut g = SynGen::new(&mut rng);
                    g.max_block_depth = 2;
                    g.program()
                };
                let sp = Spelling::wild(&mut rng);
                match render(&p, &sp, &mut rng) {
                    Ok(r) if r.text.len() < 2000 => r.text,
                    _ => continue,
                }
            }
        };
        let _ = std::fs::write(format!("{}/seed_{}", dir, i), text);
    }
}

/// libFuzzer dictionary of every keyword alias and hot token
pub fn emit_dict(path: &str) {
    let mut s = String::new();
    for w in crate::kw::all_words() {
        s.push_str(&format!("\"{}\"\n", w.replace('\\', "\\\\").replace('"', "\\\"")));
    }
    for t in ["'s", "'re", "'n'", "\\x0a", "\\x0a\\x0a", ", ", " & ", "<=", ">=", "\\\"", "(", ")", "taking", "takes", "at", "like", "says ", "1x", "x_y"] {
        s.push_str(&format!("\"{}\"\n", t));
    }
    let _ = std::fs::write(path, s);
}
