//! C20 — the command-line tool behaves exactly like the library on the same file.
//!
//! This module produces the LIBRARY side of the differential: for each generated case it writes
//! the program, its standard input and what the library does with them (parse result, pretty
//! tree, bytes written to the Write handed to exec_using, error text, diagnostics). The driver
//! runs the freshly built `rrss` binary on the same files and compares (driver/propcfg.py).

use crate::conv;
use crate::corpus;
use crate::ctx::{Ctx, Tier};
use crate::json::Json;
use crate::mast::*;
use crate::mon::{self, ExecOpts, ExecOutcome, LintWhich};
use crate::refi::{self, RefOutcome};
use crate::render::{render, Spelling};
use crate::rng::{mix, Rng};

fn stdin_for(rng: &mut Rng) -> Vec<u8> {
    match rng.below(9) {
        // bytes that are not UTF-8: in the first line, in a later line (possibly never read), at the very end
        6 => b"\xff\xfe first line is not text\nsecond\n".to_vec(),
        7 => b"good\nalso good\nthird \xc3\x28 is not\nfourth\n".to_vec(),
        8 => b"1\n2\n3\n4\n5\n6\n7\n8\n9\n10\n11\n12\ntrailing \xe2\x82".to_vec(),
        0 => Vec::new(),
        1 => b"one line, no final newline".to_vec(),
        2 => b"first\n\nthird after a blank\n".to_vec(),
        3 => "é 日本\nsecond\n".as_bytes().to_vec(),
        4 => b"1\n2\n3\n4\n5\n6\n7\n8\n9\n10\nmore lines than any program consumes\n".to_vec(),
        _ => b"42\n".to_vec(),
    }
}

fn candidate(rng: &mut Rng) -> Option<(String, &'static str)> {
    let (tree, origin): (Program, &'static str) = match rng.below(8) {
        0 => (crate::props::c04::program(rng).0, "control_flow"),
        1 => (crate::props::c05::program(rng).0, "functions"),
        2 => (crate::props::c06::history(rng, 8).tree, "arrays"),
        3 => {
            let mut scratch = Ctx::new("scratch", Tier::Quick, 0, 0, 1, "none");
            (crate::props::c07::case(rng, &mut scratch), "mutations")
        }
        4 | 5 => {
            // say / listen interleavings
            let v = simple("Line");
            let mut ss = vec![say(strlit("start"))];
            let n = rng.range(1, 5);
            for i in 0..n {
                ss.push(Stmt::Input { dest: Some(Lhs::Ident(Ident::Name(v.clone()))) });
                ss.push(say(bin(BinOp::Plus, strlit("got: "), var(&v))));
                if rng.chance(1, 4) {
                    ss.push(Stmt::Input { dest: None });
                }
                if rng.chance(1, 5) {
                    // a runtime error after output has been produced
                    ss.push(say(Expr::Un(UnOp::Minus, Box::new(strlit("boom")))));
                }
                ss.push(say(num(i as f64)));
            }
            (Program::single(ss), "io")
        }
        6 => {
            // lint-heavy
            let x = simple("Xeno");
            let mut ss = Vec::new();
            let n = rng.range(1, 5);
            for _ in 0..n {
                match rng.below(4) {
                    0 => ss.push(put(num(rng.below(200) as f64 / 4.0), &x)),
                    1 => ss.push(put(strlit("hello"), &x)),
                    2 => ss.push(put(var(&x), &x)),
                    _ => ss.push(say(bin(BinOp::Plus, var(&x), var(&x)))),
                }
            }
            (Program::single(ss), "lint")
        }
        _ => {
            let mut p = crate::props::c05::program(rng).0;
            crate::props::c09::mutate_tree(rng, &mut p);
            (p, "ill_typed")
        }
    };
    let sp = if rng.coin() { Spelling::canonical() } else { Spelling::mild(rng) };
    let mut text = render(&tree, &sp, rng).ok()?.text;
    let mut origin = origin;
    if rng.chance(1, 6) {
        text = corpus::mutate(rng, &text);
        origin = "text_mutant";
    } else if rng.chance(1, 4) {
        // layout at the edges of the file: leading blank / comment / indented lines shift every
        // reported line; a poetic string with trailing blanks on an unterminated last line
        let lead = *rng.pick(&["\n", "\n\n\n", "   \n\t\n", "(a comment line)\n", "  \t ", "(two\nlines)\n\n"]);
        text = format!("{}{}", lead, text);
        if rng.coin() {
            if !text.ends_with("\n\n") {
                text.push('\n');
            }
            text.push_str(*rng.pick(&["Zed says trailing blanks   ", "Zed says tab\t", "Zed is a wonder   ", "say 1  "]));
        }
        origin = "edge_layout";
    }
    Some((text, origin))
}

/// `vcheck emit C20 --out DIR --seed S --n K`
pub fn emit(dir: &str, seed: u64, n: usize) {
    let mut written = 0usize;
    let mut attempt = 0u64;
    while written < n && attempt < (n as u64) * 20 {
        attempt += 1;
        let mut rng = Rng::new(mix(&[seed, 0xC20, attempt]));
        let (src, origin) = match candidate(&mut rng) {
            Some(x) => x,
            None => continue,
        };
        let stdin = stdin_for(&mut rng);
        let mut j = Json::obj();
        j.set("origin", Json::s(origin));
        match mon::parse_guarded(&src, 1000, true).map(|r| r.result) {
            Err(_) => continue,
            Ok(Err(e)) => {
                j.set("parse_ok", Json::Bool(false));
                j.set("parse_error", Json::s(&e.text));
            }
            Ok(Ok(prog)) => {
                // only programs the reference model can follow within the budget
                let tree = conv::program(&prog);
                let model = refi::run(&tree, &stdin, &refi::Budget { steps: 5_000, call_depth: 64 });
                if !matches!(model.outcome, RefOutcome::Ok | RefOutcome::Error(_)) {
                    continue;
                }
                j.set("parse_ok", Json::Bool(true));
                j.set("tree_pretty", Json::s(format!("{:#?}", prog)));
                let opts = ExecOpts { fuel: model.steps * 8 + 1000, ..Default::default() };
                match mon::exec_guarded(&prog, &stdin, &opts) {
                    ExecOutcome::Done(run) => {
                        j.set("stdout", Json::s(String::from_utf8_lossy(&run.stdout).to_string()));
                        j.set("exec_error", match run.result {
                            Ok(()) => Json::Null,
                            Err(e) => Json::s(e),
                        });
                    }
                    ExecOutcome::Panicked(..) => continue,
                }
                match mon::lint_guarded(&prog, LintWhich::Standard) {
                    Ok(ds) => {
                        j.set(
                            "lint",
                            Json::Arr(
                                ds.iter()
                                    .map(|d| {
                                        Json::obj()
                                            .with("line", Json::u(d.line as u64))
                                            .with("issue", Json::s(&d.issue))
                                            .with("suggestions", Json::Arr(d.suggestions.iter().map(|s| Json::s(s)).collect()))
                                    })
                                    .collect(),
                            ),
                        );
                    }
                    Err(_) => continue,
                }
            }
        }
        let base = format!("{}/case_{}", dir, written);
        if std::fs::write(format!("{}.rock", base), &src).is_err() {
            continue;
        }
        let _ = std::fs::write(format!("{}.stdin", base), &stdin);
        let _ = std::fs::write(format!("{}.lib.json", base), j.to_text());
        written += 1;
    }
}
