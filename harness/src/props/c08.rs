//! C08 — input and output happen once each, in program order, and I/O faults are errors.
//! (level: fault_enumeration)
//!
//! Offline checker over the merged event log (RecWriter + RecReader + H3 statement boundaries,
//! one shared sequence counter) against the reference model; then every fault position of the
//! program's fault-free history is enumerated for each fault kind.

use crate::ctx::Ctx;
use crate::json::Json;
use crate::mast::*;
use crate::mon::{self, ExecOpts, ExecOutcome, IoEvent, IoPlan, ReadFault, RecReader, RecWriter, SharedBuf, WriteFault};
use crate::refi::{self, RefOutcome};
use crate::render::{render, Spelling};
use crate::rng::{hash_str, Rng};
use rrss::verif::{Phase, StmtEvent};
use std::cell::RefCell;
use std::rc::Rc;

fn program(rng: &mut Rng) -> Program {
    let vars = [simple("Line"), simple("Other"), simple("Count")];
    let mut marker = 0u32;
    let mut mk = |_: &mut Rng| {
        marker += 1;
        say(num(marker as f64))
    };
    let mut top = vec![put(num(0.0), &vars[2]), put(strlit("init"), &vars[0]), put(strlit("init too"), &vars[1])];
    let n = rng.range(2, 9);
    for _ in 0..n {
        match rng.below(12) {
            0 | 1 => top.push(mk(rng)),
            2 | 3 => {
                let v = rng.pick(&vars[..2]).clone();
                top.push(Stmt::Input { dest: Some(Lhs::Ident(Ident::Name(v.clone()))) });
                top.push(say(var(&v)));
            }
            4 => top.push(Stmt::Input { dest: None }),
            5 => {
                let v = rng.pick(&vars[..2]).clone();
                top.push(Stmt::Input { dest: Some(Lhs::Ident(Ident::Name(v))) });
            }
            6 => top.push(say(bin(BinOp::Plus, bin(BinOp::Plus, strlit("<"), var(&vars[0])), strlit(">")))),
            7 => {
                // listen into an array element
                top.push(Stmt::Input { dest: Some(Lhs::Sub(Box::new(pvar(&simple("Store"))), Box::new(Prim::Lit(Lit::Num(rng.below(3) as f64))))) });
                top.push(say(var(&simple("Store"))));
            }
            8 => {
                // a loop that echoes k lines
                let k = rng.range(1, 3) as f64;
                top.push(put(num(0.0), &vars[2]));
                top.push(Stmt::While {
                    cond: bin(BinOp::Less, var(&vars[2]), num(k)),
                    body: vec![
                        Stmt::Inc { dest: Ident::Name(vars[2].clone()), n: 1 },
                        Stmt::Input { dest: Some(Lhs::Ident(Ident::Name(vars[0].clone()))) },
                        say(var(&vars[0])),
                    ],
                });
            }
            9 => {
                let m1 = mk(rng);
                let m2 = mk(rng);
                top.push(Stmt::If { cond: bin(BinOp::Eq, var(&vars[0]), strlit("")), then: vec![m1], els: Some(vec![m2, Stmt::Input { dest: None }]) });
            }
            10 => top.push(Stmt::Inc { dest: Ident::Name(vars[2].clone()), n: 1 }),
            _ => top.push(say(var(rng.pick(&vars)))),
        }
    }
    top.push(mk(rng));
    Program::single(top)
}

fn input(rng: &mut Rng) -> Vec<u8> {
    const LINES: &[&str] = &["hello", "", "  spaced  ", "日本語 テキスト", "é", "42", "a,b,c", "\t", "say 1", "🎸", "x"];
    let n = rng.below(7);
    let mut s = String::new();
    for _ in 0..n {
        if rng.chance(1, 12) {
            // a long line: around every power-of-two buffer size, ASCII or multi-byte (a character may
            // straddle the boundary), up to well beyond BufReader's 8 KiB buffer
            let len = *rng.pick(&[
                255usize, 256, 257, 511, 512, 513, 1023, 1024, 1025, 2047, 2048, 2049, 4095, 4096, 4097, 8191, 8192, 8193, 10_000,
                16_383, 16_384, 16_385, 32_768, 65_535, 65_536, 65_537,
            ]);
            let unit = *rng.pick(&["x", "long ", "é", "日", "🎸"]);
            let mut line = String::new();
            if rng.coin() {
                line.push('a'); // shift multi-byte characters off the alignment
            }
            while line.len() + unit.len() <= len {
                line.push_str(unit);
            }
            s.push_str(&line);
        } else {
            s.push_str(rng.pstr(LINES));
        }
        s.push('\n');
    }
    if rng.chance(1, 3) && !s.is_empty() {
        s.pop(); // no final newline
    }
    if rng.chance(1, 10) {
        s.push_str("\r\n");
    }
    s.into_bytes()
}

struct History {
    result: Result<(), String>,
    panicked: Option<mon::PanicInfo>,
    io: Vec<IoEvent>,
    stmts: Vec<StmtEvent>,
}

fn run_with(prog: &rrss::frontend::ast::Program, stdin: &[u8], plan: &IoPlan, fuel: u64) -> History {
    let log = Rc::new(RefCell::new(Vec::new()));
    let w = RecWriter::new(log.clone(), plan.clone());
    let r = RecReader::new(log.clone(), plan.clone(), stdin, true);
    let dummy = SharedBuf::new();
    let opts = ExecOpts { fuel, log_events: true, log_dict: false, trap: true };
    let out = mon::exec_guarded_io(prog, r, w, &opts, &dummy);
    let io = log.borrow().clone();
    match out {
        ExecOutcome::Done(run) => History { result: run.result, panicked: None, io, stmts: run.events },
        ExecOutcome::Panicked(p, _) => History { result: Err("panic".into()), panicked: Some(p), io, stmts: Vec::new() },
    }
}

fn accepted(io: &[IoEvent]) -> Vec<u8> {
    let mut v = Vec::new();
    for e in io {
        if let IoEvent::Write { offered, accepted, .. } = e {
            v.extend_from_slice(&offered[..*accepted]);
        }
    }
    v
}

fn accepted_before(io: &[IoEvent], seq: u64) -> Vec<u8> {
    let mut v = Vec::new();
    for e in io {
        if e.seq() >= seq {
            break;
        }
        if let IoEvent::Write { offered, accepted, .. } = e {
            v.extend_from_slice(&offered[..*accepted]);
        }
    }
    v
}

fn read_before(io: &[IoEvent], seq: u64) -> usize {
    io.iter()
        .filter(|e| e.seq() < seq)
        .map(|e| match e {
            IoEvent::Read { returned, fault: None, .. } => returned.len(),
            _ => 0,
        })
        .sum()
}

/// ordering + exactly-once checks of a fault-free history against the model
fn check_history(h: &History, model: &refi::RefRun, stdin: &[u8]) -> Option<(String, String)> {
    let acc = accepted(&h.io);
    if acc != model.out {
        return Some((
            "output_bytes_differ".into(),
            format!("writer accepted {:?}, model printed {:?}", String::from_utf8_lossy(&acc), String::from_utf8_lossy(&model.out)),
        ));
    }
    // statement boundaries
    let mut outputs_done = 0usize;
    let mut inputs_done = 0usize;
    let mut open: Vec<&StmtEvent> = Vec::new();
    for e in &h.stmts {
        match e.phase {
            Phase::Before => {
                // everything said so far is with the writer before the next statement starts
                let a = accepted_before(&h.io, e.seq);
                let nl = a.iter().filter(|b| **b == b'\n').count();
                if nl != outputs_done || (outputs_done > 0 && !a.ends_with(b"\n")) {
                    return Some((
                        "say_not_complete_before_next_statement".into(),
                        format!("{} say statements had completed but the writer holds {} complete lines when the next {} statement starts", outputs_done, nl, e.kind),
                    ));
                }
                open.push(e);
            }
            Phase::After => {
                open.pop();
                if e.kind == "Output" {
                    outputs_done += 1;
                    let a = accepted_before(&h.io, e.seq);
                    let nl = a.iter().filter(|b| **b == b'\n').count();
                    if nl != outputs_done || !a.ends_with(b"\n") {
                        return Some((
                            "say_did_not_write_exactly_one_line".into(),
                            format!("after say #{} the writer holds {} lines: {:?}", outputs_done, nl, String::from_utf8_lossy(&a)),
                        ));
                    }
                }
                if e.kind == "Input" {
                    inputs_done += 1;
                    let got = read_before(&h.io, e.seq);
                    let want = model.read_offsets.get(inputs_done - 1).copied().unwrap_or(usize::MAX);
                    if got != want {
                        return Some((
                            "listen_did_not_consume_exactly_one_line".into(),
                            format!("after listen #{} the reader has handed out {} bytes, one line per listen means {} (input {} bytes)", inputs_done, got, want, stdin.len()),
                        ));
                    }
                }
            }
        }
    }
    if inputs_done != model.read_offsets.len() {
        return Some(("listen_count_differs".into(), format!("{} listens ran, model {}", inputs_done, model.read_offsets.len())));
    }
    None
}

fn case(ctx: &mut Ctx, rng: &mut Rng) {
    let tree = program(rng);
    let stdin = input(rng);
    let sp = if rng.coin() { Spelling::canonical() } else { Spelling::mild(rng) };
    let text = match render(&tree, &sp, rng) {
        Ok(r) => r.text,
        Err(_) => {
            ctx.count("generator_inexpressible");
            return;
        }
    };
    let prog = match mon::parse_quiet(&text) {
        Ok(p) => p,
        Err(e) => {
            ctx.violation("program_did_not_parse", &e, Json::obj().with("src", Json::s(&text)));
            return;
        }
    };
    let model = refi::run(&tree, &stdin, &refi::Budget::default());
    if model.outcome != RefOutcome::Ok {
        ctx.count("model_not_ok_skipped");
        return;
    }
    ctx.count("programs");
    let fuel = model.steps * 8 + 1000;
    let case = |plan: &str, h: &History| {
        Json::obj()
            .with("src", Json::s(&text))
            .with("stdin", Json::s(String::from_utf8_lossy(&stdin).chars().take(400).collect::<String>()))
            .with("plan", Json::s(plan))
            .with("result", Json::s(format!("{:?}", h.result)))
            .with("io_events", Json::u(h.io.len() as u64))
    };
    // 1. fault-free histories (plain, short writes, interrupted calls)
    let mut base: Option<History> = None;
    for (name, plan) in [
        ("fault_free", IoPlan::default()),
        ("short_writes", IoPlan { short_writes: true, ..Default::default() }),
        ("interrupted", IoPlan { interrupted_writes: true, interrupted_reads: true, ..Default::default() }),
    ] {
        let h = run_with(&prog, &stdin, &plan, fuel);
        ctx.eval();
        ctx.sites.absorb();
        ctx.add("events_checked", (h.io.len() + h.stmts.len()) as u64);
        if let Some(p) = &h.panicked {
            ctx.panic_outcome(&format!("io:{}", name), p, case(name, &h));
            return;
        }
        if h.result.is_err() {
            ctx.violation(&format!("io:{}:unexpected_error", name), &format!("{:?}", h.result), case(name, &h));
            return;
        }
        if let Some((sig, detail)) = check_history(&h, &model, &stdin) {
            ctx.violation(&format!("io:{}:{}", name, sig), &detail, case(name, &h));
            return;
        }
        ctx.count(&format!("histories.{}", name));
        if name == "fault_free" {
            base = Some(h);
        }
    }
    let base = base.unwrap();
    let writes: Vec<&IoEvent> = base.io.iter().filter(|e| matches!(e, IoEvent::Write { .. })).collect();
    let reads: Vec<&IoEvent> = base.io.iter().filter(|e| matches!(e, IoEvent::Read { .. })).collect();
    let (w, r) = (writes.len(), reads.len());
    ctx.max("max_write_calls", w as u64);
    ctx.max("max_read_calls", r as u64);
    if w > 0 && r > 0 {
        ctx.count("histories_with_read_write_interleaving");
        ctx.nontrivial(hash_str(&text) ^ crate::rng::hash_bytes(&stdin));
    }
    if ctx.samples.len() < 2 && text.len() < 700 {
        ctx.sample(Json::obj().with("src", Json::s(&text)).with("stdin", Json::s(String::from_utf8_lossy(&stdin).chars().take(200).collect::<String>())).with("write_calls", Json::u(w as u64)).with("read_calls", Json::u(r as u64)).with("fault_plans", Json::u((2 * w + 2 * r) as u64)));
    }
    // 2. every fault position x every fault kind
    let mut plans: Vec<(String, IoPlan, usize, bool)> = Vec::new();
    for k in 1..=w {
        plans.push((format!("write_error@{}", k), IoPlan { write_fault: Some(WriteFault::ErrorAt(k)), ..Default::default() }, k, true));
        plans.push((format!("write_zero@{}", k), IoPlan { write_fault: Some(WriteFault::ZeroAt(k)), ..Default::default() }, k, true));
    }
    for k in 1..=r {
        plans.push((format!("read_error@{}", k), IoPlan { read_fault: Some(ReadFault::ErrorAt(k)), ..Default::default() }, k, false));
        plans.push((format!("read_invalid_utf8@{}", k), IoPlan { read_fault: Some(ReadFault::InvalidUtf8At(k)), ..Default::default() }, k, false));
    }
    for (name, plan, k, is_write) in plans {
        let h = run_with(&prog, &stdin, &plan, fuel);
        ctx.eval();
        ctx.sites.absorb();
        ctx.count("fault_plans_run");
        ctx.add("events_checked", (h.io.len() + h.stmts.len()) as u64);
        let kind = name.split('@').next().unwrap_or("").to_string();
        ctx.count(&format!("fault_kind.{}", kind));
        if let Some(p) = &h.panicked {
            ctx.panic_outcome(&format!("fault:{}", kind), p, case(&name, &h));
            continue;
        }
        if h.result.is_ok() {
            ctx.violation(&format!("fault:{}:returned_ok", kind), "execution reported success although a stream failed", case(&name, &h));
            continue;
        }
        // nothing is written or read after the fault
        let fault_idx = h.io.iter().position(|e| matches!(e, IoEvent::Write { fault: Some(f), .. } | IoEvent::Read { fault: Some(f), .. } if *f != "interrupted"));
        match fault_idx {
            None => {
                ctx.violation(&format!("fault:{}:fault_never_reached", kind), "the run failed before the planned fault position", case(&name, &h));
                continue;
            }
            Some(i) => {
                let later: Vec<&IoEvent> = h.io[i + 1..].iter().filter(|e| !matches!(e, IoEvent::Flush { .. })).collect();
                if !later.is_empty() {
                    ctx.violation(
                        &format!("fault:{}:io_after_fault", kind),
                        &format!("{} further read/write calls after the fault, first: {:?}", later.len(), later[0]),
                        case(&name, &h),
                    );
                    continue;
                }
            }
        }
        // everything written before the fault is intact: exactly the fault-free bytes up to that call
        let got = accepted(&h.io);
        let want: Vec<u8> = if is_write {
            let seq = writes[k - 1].seq();
            accepted_before(&base.io, seq)
        } else {
            let seq = reads[k - 1].seq();
            accepted_before(&base.io, seq)
        };
        if got != want {
            ctx.violation(
                &format!("fault:{}:output_before_fault_not_intact", kind),
                &format!("writer holds {:?}, the fault-free run had written {:?} by then", String::from_utf8_lossy(&got), String::from_utf8_lossy(&want)),
                case(&name, &h),
            );
            continue;
        }
        // which statement kind was running when the fault hit
        if let Some(last) = h.stmts.iter().rev().find(|e| e.phase == Phase::Before) {
            ctx.seen("statement_kinds_at_fault", last.kind);
        }
        ctx.count("fault_plans_held");
    }
}

pub fn run(ctx: &mut Ctx) {
    if ctx.miri {
        ctx.cases("miri", ctx.nshards as u64, |ctx, rng, _| case(ctx, rng));
        return;
    }
    let n = ctx.size(6_000, 200_000);
    ctx.cases("programs", n, |ctx, rng, _| case(ctx, rng));
}

/// `vcheck emit C08`: programs + inputs for the process-level fault stage of the driver
pub fn emit(dir: &str, seed: u64, n: usize) {
    let mut written = 0usize;
    let mut attempt = 0u64;
    while written < n && attempt < n as u64 * 10 {
        attempt += 1;
        let mut rng = Rng::new(crate::rng::mix(&[seed, 0xC08, attempt]));
        let tree = program(&mut rng);
        let stdin = input(&mut rng);
        let text = match render(&tree, &Spelling::canonical(), &mut rng) {
            Ok(r) => r.text,
            Err(_) => continue,
        };
        let model = refi::run(&tree, &stdin, &refi::Budget::default());
        if model.outcome != RefOutcome::Ok {
            continue;
        }
        let base = format!("{}/case_{}", dir, written);
        let _ = std::fs::write(format!("{}.rock", base), &text);
        let _ = std::fs::write(format!("{}.stdin", base), &stdin);
        let j = Json::obj()
            .with("writes", Json::u(model.says))
            .with("reads", Json::u(model.reads))
            .with("reads_before_writes", Json::Bool(true));
        let _ = std::fs::write(format!("{}.json", base), j.to_text());
        written += 1;
    }
}
