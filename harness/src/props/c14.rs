//! C14 — equality, ordering and logic obey their algebraic laws on all values.
//!
//! The laws themselves are the oracle (no model needed), evaluated for ALL ordered pairs of the
//! value universe (i) on the public `Val` API / `binary_operator_fold`, (ii) through programs.

use crate::ctx::Ctx;
use crate::json::Json;
use crate::mast::*;
use crate::mon;
use crate::refi::{self, RefOutcome, V};
use crate::render::render_plain;
use crate::rng::hash_str;
use crate::vals::{build_stmts, to_val, universe, UVal};
use rrss::exec::val::Val;
use rrss::frontend::ast::BinaryOperator as BO;

#[derive(Clone, Debug, PartialEq)]
pub enum R {
    T,
    F,
    Err,
    Other(String),
}

fn fold(op: BO, a: &Val, b: &Val) -> Result<R, mon::PanicInfo> {
    mon::guarded(|| {
        let bb = b.clone();
        let rhs = std::iter::once(move |_: &mut ()| Ok(bb.clone()));
        match rrss::exec::produce_val::binary_operator_fold(op, a.clone(), rhs, &mut ()) {
            Ok(Val::Boolean(true)) => R::T,
            Ok(Val::Boolean(false)) => R::F,
            Ok(other) => R::Other(format!("{}", other)),
            Err(_) => R::Err,
        }
    })
}

fn neg(r: &R) -> R {
    match r {
        R::T => R::F,
        R::F => R::T,
        other => other.clone(),
    }
}

fn law(ctx: &mut Ctx, layer: &str, name: &str, holds: bool, a: &UVal, b: &UVal, detail: String) {
    ctx.count("law_instances");
    ctx.count(&format!("law.{}", name));
    if !holds {
        ctx.violation(
            &format!("{}:{}", layer, name),
            &format!("a = {}, b = {}: {}", if a.label == "random" { format!("{:?}", a.v) } else { a.label.to_string() }, if b.label == "random" { format!("{:?}", b.v) } else { b.label.to_string() }, detail),
            Json::obj()
                .with("a", Json::s(a.label))
                .with("b", Json::s(b.label))
                .with("a_value", Json::s(format!("{:?}", a.v)))
                .with("b_value", Json::s(format!("{:?}", b.v)))
                .with("law", Json::s(name))
                .with("detail", Json::s(detail.clone())),
        );
    }
}

fn api_pair(ctx: &mut Ctx, a: &UVal, b: &UVal) {
    ctx.eval();
    let (va, vb) = (to_val(&a.v), to_val(&b.v));
    let ev = |op: BO, x: &Val, y: &Val, ctx: &mut Ctx| -> R {
        match fold(op, x, y) {
            Ok(r) => r,
            Err(p) => {
                ctx.panic_outcome("api", &p, Json::obj().with("a", Json::s(a.label)).with("b", Json::s(b.label)));
                R::Other("panic".into())
            }
        }
    };
    let eq_ab = ev(BO::Eq, &va, &vb, ctx);
    let eq_ba = ev(BO::Eq, &vb, &va, ctx);
    let ne_ab = ev(BO::NotEq, &va, &vb, ctx);
    law(ctx, "api", "is_symmetric", eq_ab == eq_ba, a, b, format!("a is b = {:?}, b is a = {:?}", eq_ab, eq_ba));
    law(ctx, "api", "isnt_is_negation", ne_ab == neg(&eq_ab), a, b, format!("a is b = {:?}, a isnt b = {:?}", eq_ab, ne_ab));
    let direct = mon::guarded(|| (va.equals(&vb), vb.equals(&va))).unwrap_or((false, true));
    law(ctx, "api", "equals_symmetric", direct.0 == direct.1, a, b, format!("{:?}", direct));
    law(ctx, "api", "equals_matches_operator", (eq_ab == R::T) == direct.0, a, b, format!("{:?} vs {:?}", eq_ab, direct.0));
    let lt = ev(BO::Less, &va, &vb, ctx);
    let gt_r = ev(BO::Greater, &vb, &va, ctx);
    let le = ev(BO::LessEq, &va, &vb, ctx);
    let ge_r = ev(BO::GreaterEq, &vb, &va, ctx);
    let ge = ev(BO::GreaterEq, &va, &vb, ctx);
    let gt = ev(BO::Greater, &va, &vb, ctx);
    law(ctx, "api", "less_mirrors_greater", lt == gt_r, a, b, format!("a < b = {:?}, b > a = {:?}", lt, gt_r));
    law(ctx, "api", "lesseq_mirrors_greatereq", le == ge_r, a, b, format!("a <= b = {:?}, b >= a = {:?}", le, ge_r));
    let errs = [&lt, &gt_r, &le, &ge_r, &ge, &gt];
    let n_err = errs.iter().filter(|r| ***r == R::Err).count();
    law(ctx, "api", "error_on_one_side_iff_other", n_err == 0 || n_err == errs.len(), a, b, format!("{:?}", errs));
    if n_err == errs.len() {
        ctx.count("error_symmetric_pairs");
    }
    // when an ordering exists, (<= and >=) coincides with equality
    let cmp = mon::guarded(|| va.compare(&vb)).ok();
    if let Some(Ok(Some(_))) = cmp {
        ctx.count("pairs_with_an_ordering");
        let both = le == R::T && ge == R::T;
        law(ctx, "api", "le_and_ge_is_equality", both == (eq_ab == R::T), a, b, format!("<= {:?}, >= {:?}, is {:?}", le, ge, eq_ab));
        // exactly one of <, is, > (trichotomy on ordered pairs)
        let n_true = [&lt, &gt].iter().filter(|r| ***r == R::T).count() + (eq_ab == R::T) as usize;
        law(ctx, "api", "trichotomy_when_ordered", n_true == 1, a, b, format!("< {:?}, > {:?}, is {:?}", lt, gt, eq_ab));
    } else if let Some(Ok(None)) = cmp {
        ctx.count("pairs_without_order");
        law(ctx, "api", "no_order_all_false", [&lt, &gt, &le, &ge].iter().all(|r| **r == R::F), a, b, format!("{:?}", [&lt, &gt, &le, &ge]));
    }
    // logic vs truthiness
    let (ta, tb) = (va.is_truthy(), vb.is_truthy());
    let and = ev(BO::And, &va, &vb, ctx);
    let or = ev(BO::Or, &va, &vb, ctx);
    let nor = ev(BO::Nor, &va, &vb, ctx);
    let b2r = |x: bool| if x { R::T } else { R::F };
    law(ctx, "api", "and_is_truthiness", and == b2r(ta && tb), a, b, format!("{:?}", and));
    law(ctx, "api", "or_is_truthiness", or == b2r(ta || tb), a, b, format!("{:?}", or));
    law(ctx, "api", "nor_is_not_or", nor == neg(&or), a, b, format!("nor {:?}, or {:?}", nor, or));
}

/// run a program, return its stdout lines or "ERR"
fn run_prog(ctx: &mut Ctx, tree: &Program) -> Option<Result<Vec<String>, String>> {
    let text = render_plain(tree);
    let model = refi::run(tree, b"", &refi::Budget::default());
    if let RefOutcome::OverBudget(_) = model.outcome {
        ctx.count("discarded_over_budget");
        return None;
    }
    let prog = match mon::parse_quiet(&text) {
        Ok(p) => p,
        Err(e) => {
            ctx.violation("program:did_not_parse", &e, Json::obj().with("src", Json::s(&text)));
            return None;
        }
    };
    ctx.eval();
    ctx.nontrivial(hash_str(&text));
    let opts = mon::ExecOpts { fuel: model.steps * 8 + 1000, ..Default::default() };
    match mon::exec_guarded(&prog, b"", &opts) {
        mon::ExecOutcome::Panicked(p, _) => {
            ctx.panic_outcome("program", &p, Json::obj().with("src", Json::s(&text)));
            ctx.sites.absorb();
            None
        }
        mon::ExecOutcome::Done(run) => {
            ctx.sites.absorb();
            let lines: Vec<String> = String::from_utf8_lossy(&run.stdout).lines().map(|l| l.to_string()).collect();
            Some(match run.result {
                Ok(()) => Ok(lines),
                Err(e) => Err(e),
            })
        }
    }
}

fn prelude(a: &UVal, b: &UVal) -> (Vec<Stmt>, Name, Name) {
    let na = simple("Alpha");
    let nb = simple("Beta");
    let mut v = Vec::new();
    build_stmts(&a.v, &na, "tmpa", &mut v);
    build_stmts(&b.v, &nb, "tmpb", &mut v);
    (v, na, nb)
}

fn program_pair(ctx: &mut Ctx, a: &UVal, b: &UVal) {
    let (pre, na, nb) = prelude(a, b);
    let (ea, eb) = (var(&na), var(&nb));
    // equality and logic in one program (none of these can fail)
    let mut ss = pre.clone();
    ss.push(say(bin(BinOp::Eq, ea.clone(), eb.clone())));
    ss.push(say(bin(BinOp::Eq, eb.clone(), ea.clone())));
    ss.push(say(bin(BinOp::NotEq, ea.clone(), eb.clone())));
    ss.push(say(Expr::Un(UnOp::Not, Box::new(ea.clone()))));
    ss.push(say(bin(BinOp::And, ea.clone(), eb.clone())));
    ss.push(say(bin(BinOp::Or, ea.clone(), eb.clone())));
    ss.push(say(bin(BinOp::Nor, ea.clone(), eb.clone())));
    ss.push(say(Expr::Un(UnOp::Not, Box::new(eb.clone()))));
    let tree = Program::single(ss);
    let src = render_plain(&tree);
    // `a is not b` is a spelling of the same operator as `a isnt b`; check it through text
    // (the canonical rendering writes `is not`; the other spelling is obtained through the text)
    let src_isnot = src.replacen("say Alpha is not Beta", "say Alpha isnt Beta", 1);
    match run_prog(ctx, &tree) {
        Some(Ok(l)) if l.len() == 8 => {
            let t = |s: &str| s == "true";
            law(ctx, "program", "is_symmetric", l[0] == l[1], a, b, format!("{} vs {}", l[0], l[1]));
            law(ctx, "program", "isnt_is_negation", t(&l[2]) == !t(&l[0]), a, b, format!("is {}, isnt {}", l[0], l[2]));
            let (ta, tb) = (!t(&l[3]), !t(&l[7]));
            law(ctx, "program", "and_is_truthiness", t(&l[4]) == (ta && tb), a, b, l[4].clone());
            law(ctx, "program", "or_is_truthiness", t(&l[5]) == (ta || tb), a, b, l[5].clone());
            law(ctx, "program", "nor_is_not_or", t(&l[6]) == !t(&l[5]), a, b, format!("nor {}, or {}", l[6], l[5]));
            // `is not`
            if src_isnot != src {
                if let Ok(p) = mon::parse_quiet(&src_isnot) {
                    ctx.eval();
                    if let mon::ExecOutcome::Done(run) = mon::exec_guarded(&p, b"", &mon::ExecOpts::default()) {
                        let l2: Vec<String> = String::from_utf8_lossy(&run.stdout).lines().map(|x| x.to_string()).collect();
                        law(ctx, "program", "is_not_is_negation", l2.get(2) == Some(&l[2]), a, b, format!("is not {:?}, isnt {:?}", l[2], l2.get(2)));
                    }
                }
            }
        }
        Some(other) => {
            law(ctx, "program", "equality_and_logic_never_fail", false, a, b, format!("{:?}", other));
        }
        None => {}
    }
    // the four ordering operators, each in its own program (an error stops the program)
    let ord = |ctx: &mut Ctx, op: BinOp, l: &Expr, r: &Expr| -> Option<R> {
        let mut ss = pre.clone();
        ss.push(say(bin(op, l.clone(), r.clone())));
        match run_prog(ctx, &Program::single(ss)) {
            Some(Ok(l)) if l.len() == 1 => Some(if l[0] == "true" { R::T } else if l[0] == "false" { R::F } else { R::Other(l[0].clone()) }),
            Some(Err(_)) => Some(R::Err),
            Some(Ok(l)) => Some(R::Other(format!("{:?}", l))),
            None => None,
        }
    };
    let lt = ord(ctx, BinOp::Less, &ea, &eb);
    let gt_r = ord(ctx, BinOp::Greater, &eb, &ea);
    let le = ord(ctx, BinOp::LessEq, &ea, &eb);
    let ge_r = ord(ctx, BinOp::GreaterEq, &eb, &ea);
    if let (Some(lt), Some(gt_r), Some(le), Some(ge_r)) = (lt, gt_r, le, ge_r) {
        law(ctx, "program", "less_mirrors_greater", lt == gt_r, a, b, format!("a < b = {:?}, b > a = {:?}", lt, gt_r));
        law(ctx, "program", "lesseq_mirrors_greatereq", le == ge_r, a, b, format!("a <= b = {:?}, b >= a = {:?}", le, ge_r));
        let errs = [&lt, &gt_r, &le, &ge_r];
        let n_err = errs.iter().filter(|r| ***r == R::Err).count();
        law(ctx, "program", "error_on_one_side_iff_other", n_err == 0 || n_err == 4, a, b, format!("{:?}", errs));
    }
    // compound assignment: `let x be op e` == `let x be x op e`
    for (op, label) in [(BinOp::Plus, "plus"), (BinOp::Minus, "minus"), (BinOp::Multiply, "times"), (BinOp::Divide, "over")] {
        let probe = |ctx: &mut Ctx, compound: bool| {
            let mut ss = pre.clone();
            if compound {
                ss.push(Stmt::Assign { dest: Lhs::Ident(Ident::Name(na.clone())), op: Some(op), value: vec![eb.clone()] });
            } else {
                ss.push(Stmt::Assign { dest: Lhs::Ident(Ident::Name(na.clone())), op: None, value: vec![bin(op, ea.clone(), eb.clone())] });
            }
            ss.push(say(ea.clone()));
            // arrays print as their length: also show kind-revealing facts
            ss.push(say(bin(BinOp::Eq, ea.clone(), Expr::Prim(Prim::Lit(Lit::Mysterious)))));
            ss.push(say(bin(BinOp::Plus, strlit("<"), ea.clone())));
            run_prog(ctx, &Program::single(ss))
        };
        let c = probe(ctx, true);
        let p = probe(ctx, false);
        if let (Some(c), Some(p)) = (c, p) {
            let same = match (&c, &p) {
                (Ok(x), Ok(y)) => x == y,
                (Err(_), Err(_)) => true,
                _ => false,
            };
            law(ctx, "program", &format!("compound_assignment_{}", label), same, a, b, format!("compound {:?}, plain {:?}", c, p));
        }
    }
}

fn build_knock(ctx: &mut Ctx, a: &UVal) {
    let eligible = match &a.v {
        V::Bool(_) => true,
        V::Num(n) => n.fract() == 0.0 && n.abs() + 5.0 < 9007199254740992.0,
        _ => false,
    };
    if !eligible {
        return;
    }
    for k in 1..=5usize {
        let x = simple("Xavier");
        let y = simple("Yolanda");
        let mut ss = Vec::new();
        build_stmts(&a.v, &x, "tmpx", &mut ss);
        ss.push(put(var(&x), &y));
        ss.push(Stmt::Inc { dest: Ident::Name(x.clone()), n: k });
        ss.push(Stmt::Dec { dest: Ident::Name(x.clone()), n: k });
        ss.push(say(bin(BinOp::Eq, var(&x), var(&y))));
        ss.push(say(var(&x)));
        ss.push(say(var(&y)));
        if let Some(r) = run_prog(ctx, &Program::single(ss)) {
            let ok = match &r {
                Ok(l) if l.len() == 3 => {
                    let neg_zero = matches!(&a.v, V::Num(n) if *n == 0.0 && n.is_sign_negative());
                    l[0] == "true" && (l[1] == l[2] || neg_zero)
                }
                _ => false,
            };
            law(ctx, "program", "build_then_knock_restores", ok, a, a, format!("k = {}: {:?}", k, r));
        }
        // and the other way round
        let mut ss = Vec::new();
        build_stmts(&a.v, &x, "tmpx", &mut ss);
        ss.push(put(var(&x), &y));
        ss.push(Stmt::Dec { dest: Ident::Name(x.clone()), n: k });
        ss.push(Stmt::Inc { dest: Ident::Name(x.clone()), n: k });
        ss.push(say(bin(BinOp::Eq, var(&x), var(&y))));
        if let Some(r) = run_prog(ctx, &Program::single(ss)) {
            let ok = matches!(&r, Ok(l) if l.len() == 1 && l[0] == "true");
            law(ctx, "program", "knock_then_build_restores", ok, a, a, format!("k = {}: {:?}", k, r));
        }
    }
}

pub fn run(ctx: &mut Ctx) {
    let u = universe();
    let n = u.len() as u64;
    ctx.counters.insert("universe_size".into(), n);
    // (i) API layer: all ordered pairs
    ctx.cases("api_pairs", n * n, |ctx, _, idx| {
        let (a, b) = (&u[(idx / n) as usize], &u[(idx % n) as usize]);
        ctx.count("ordered_pairs_api");
        ctx.nontrivial(hash_str(a.label) ^ hash_str(b.label).rotate_left(1));
        api_pair(ctx, a, b);
    });
    // (ii) program layer: all ordered pairs in thorough, all pairs as well in quick (cheap enough)
    ctx.cases("program_pairs", n * n, |ctx, _, idx| {
        let (a, b) = (&u[(idx / n) as usize], &u[(idx % n) as usize]);
        ctx.count("ordered_pairs_program");
        if ctx.samples.len() < 2 && idx % 97 == 3 {
            let (pre, na, nb) = prelude(a, b);
            let mut ss = pre;
            ss.push(say(bin(BinOp::Less, var(&na), var(&nb))));
            ctx.sample(Json::obj().with("a", Json::s(a.label)).with("b", Json::s(b.label)).with("one_of_its_programs", Json::s(render_plain(&Program::single(ss)))));
        }
        program_pair(ctx, a, b);
    });
    ctx.cases("build_knock", n, |ctx, _, idx| {
        build_knock(ctx, &u[idx as usize]);
    });
    // (iii) beyond the fixed universe: random values (one of the pair is sometimes a universe value)
    let m = ctx.size(4_000, 2_000_000);
    ctx.cases("random_api_pairs", m, |ctx, rng, _| {
        let a = if rng.chance(1, 4) { rng.pick(&u).clone() } else { UVal { label: "random", v: crate::vals::random_value(rng, 0) } };
        let mut b = if rng.chance(1, 4) { rng.pick(&u).clone() } else { UVal { label: "random", v: crate::vals::random_value(rng, 0) } };
        if rng.chance(1, 5) {
            // a near miss of `a`: the adjacent double, its text, the same array with one more key, the same text
            // with a blank - what a tolerance, a shortcut or a forgotten field would take for equal
            if let Some(v) = crate::vals::near_miss(rng, &a.v) {
                b = UVal { label: "random", v };
                ctx.count("near_miss_pairs_api");
            }
        }
        ctx.count("random_pairs_api");
        ctx.nontrivial(hash_str(&format!("{:?}{:?}", a.v, b.v)));
        api_pair(ctx, &a, &b);
    });
    let m = ctx.size(150, 60_000);
    ctx.cases("random_program_pairs", m, |ctx, rng, _| {
        let a = UVal { label: "random", v: crate::vals::random_value(rng, 0) };
        let b = if rng.chance(1, 3) { rng.pick(&u).clone() } else { UVal { label: "random", v: crate::vals::random_value(rng, 0) } };
        ctx.count("random_pairs_program");
        program_pair(ctx, &a, &b);
    });
}
