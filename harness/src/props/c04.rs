//! C04 — control flow follows the program text: branches, loops, break/continue.
//!
//! Every `say` prints a unique marker, so the output identifies exactly which statements ran and
//! in which order. Oracle: the reference interpreter's trace + outcome, the number of statements
//! started (H3), and the H3 invariants (a loop never completes in state Breaking/Continuing, no
//! statement starts in a non-Normal state, scope depth is preserved).

use crate::ctx::Ctx;
use crate::json::Json;
use crate::mast::*;
use crate::props::{exec_compare, Verdict};
use crate::render::Spelling;
use crate::rng::{hash_str, Rng};
use crate::vals::{scalar_expr, universe};

struct G<'a> {
    rng: &'a mut Rng,
    next_marker: u32,
    next_counter: u32,
    /// conditions draw from these variables (universe values of every kind)
    cond_vars: Vec<Name>,
    max_depth: usize,
    skeleton: String,
    planted_error: bool,
}

fn counter_name(i: u32) -> Name {
    // digits are not allowed in identifiers
    let letters = ["Ace", "Bee", "Cee", "Dee", "Eff", "Gee", "Aitch", "Jay", "Kay", "Ell", "Emm", "Enn", "Pee", "Queue", "Arr", "Ess", "Tee", "Vee"];
    let base = letters[(i as usize) % letters.len()];
    let rep = i as usize / letters.len();
    Name::Simple(format!("{}{}", base, "x".repeat(rep)))
}

impl<'a> G<'a> {
    fn marker(&mut self) -> Stmt {
        self.next_marker += 1;
        say(num(self.next_marker as f64))
    }

    fn any_cond(&mut self) -> Expr {
        // a condition of any value kind
        match self.rng.below(6) {
            0 | 1 => var(self.rng.pick(&self.cond_vars.clone())),
            2 => Expr::Un(UnOp::Not, Box::new(var(self.rng.pick(&self.cond_vars.clone())))),
            3 => {
                let u = universe();
                loop {
                    if let Some(e) = scalar_expr(&self.rng.pick(&u).v) {
                        return e;
                    }
                }
            }
            4 => {
                let a = var(self.rng.pick(&self.cond_vars.clone()));
                let b = var(self.rng.pick(&self.cond_vars.clone()));
                let op = *self.rng.pick(&[BinOp::And, BinOp::Or, BinOp::Nor, BinOp::Eq, BinOp::NotEq]);
                bin(op, a, b)
            }
            _ => Expr::Prim(Prim::Lit(Lit::Bool(self.rng.coin()))),
        }
    }

    fn simple(&mut self, in_loop: bool) -> Stmt {
        if in_loop && self.rng.chance(1, 4) {
            self.skeleton.push(if self.rng.coin() { 'b' } else { 'c' });
            return if self.skeleton.ends_with('b') { Stmt::Break } else { Stmt::Continue };
        }
        if !self.planted_error && self.rng.chance(1, 40) {
            self.planted_error = true;
            self.skeleton.push('!');
            // a statement that must stop the program: negating a string
            return say(Expr::Un(UnOp::Minus, Box::new(strlit("boom"))));
        }
        self.skeleton.push('s');
        self.marker()
    }

    fn block(&mut self, depth: usize, in_loop: bool) -> Vec<Stmt> {
        let n = self.rng.weighted(&[2, 4, 4, 3, 1]);
        let mut v = Vec::new();
        self.skeleton.push('[');
        for _ in 0..n {
            self.stmt(depth, in_loop, &mut v);
        }
        self.skeleton.push(']');
        v
    }

    fn stmt(&mut self, depth: usize, in_loop: bool, out: &mut Vec<Stmt>) {
        if depth == 0 || self.rng.chance(2, 5) {
            let s = self.simple(in_loop);
            out.push(s);
            return;
        }
        match self.rng.below(5) {
            0 | 1 => {
                self.skeleton.push('i');
                let cond = self.any_cond();
                let then = self.block(depth - 1, in_loop);
                let els = if self.rng.coin() {
                    self.skeleton.push('e');
                    Some(self.block(depth - 1, in_loop))
                } else {
                    None
                };
                out.push(Stmt::If { cond, then, els });
            }
            k => {
                // a loop with its own counter: initialised in front of it, bumped first thing in the body
                let c = counter_name(self.next_counter);
                self.next_counter += 1;
                let limit = self.rng.range(0, 3) as f64;
                out.push(put(num(0.0), &c));
                let is_while = k % 2 == 0;
                self.skeleton.push(if is_while { 'w' } else { 'u' });
                if self.rng.chance(1, 6) {
                    // the condition has an effect of its own: `while roll Queue` - every evaluation removes an
                    // element, so the queue printed afterwards tells how often the condition was evaluated
                    // (once per iteration and once more at the normal end, not again after a break). The body
                    // may be empty.
                    self.skeleton.push('q');
                    let q = Name::Simple(format!("Queue{}", counter_name(self.next_counter).text()));
                    self.next_counter += 1;
                    let k = self.rng.range(0, 3);
                    let mut vals: Vec<Expr> = Vec::new();
                    for _ in 0..k {
                        vals.push(if is_while { num(self.rng.range(1, 9) as f64) } else { num(0.0) });
                    }
                    vals.push(if is_while { num(0.0) } else { num(7.0) });
                    for _ in 0..self.rng.range(1, 3) {
                        vals.push(num(self.rng.range(1, 9) as f64));
                    }
                    out.push(put(Expr::Prim(Prim::Lit(Lit::Mysterious)), &q));
                    out.push(Stmt::Push { array: pvar(&q), value: Some(PushRhs::List(vals)) });
                    let cond = Expr::Prim(Prim::Pop(Box::new(pvar(&q))));
                    let body = if self.rng.chance(1, 3) { Vec::new() } else { self.block(depth - 1, true) };
                    out.push(if is_while { Stmt::While { cond, body } } else { Stmt::Until { cond, body } });
                    out.push(say(var(&q)));
                    return;
                }
                if self.rng.chance(1, 4) {
                    // the condition IS a value of any kind (an empty array is as true as a full one); the
                    // loop is bounded by a guard at the top of its body
                    self.skeleton.push('v');
                    let cond = match self.rng.below(4) {
                        0 => Expr::Un(UnOp::Not, Box::new(var(self.rng.pick(&self.cond_vars.clone())))),
                        _ => var(self.rng.pick(&self.cond_vars.clone())),
                    };
                    let mut body = vec![
                        Stmt::Inc { dest: Ident::Name(c.clone()), n: 1 },
                        Stmt::If { cond: bin(BinOp::Greater, var(&c), num(limit)), then: vec![Stmt::Break], els: None },
                    ];
                    body.extend(self.block(depth - 1, true));
                    out.push(if is_while { Stmt::While { cond, body } } else { Stmt::Until { cond, body } });
                    return;
                }
                let extra = if self.rng.chance(1, 3) {
                    // the right operand of and/or must bind tighter than and/or (there are no parentheses)
                    let mut e = self.any_cond();
                    while matches!(&e, Expr::Bin(op, _, _) if op.level() == 0) {
                        e = self.any_cond();
                    }
                    Some(e)
                } else {
                    None
                };
                let cond = if is_while {
                    let base = bin(BinOp::Less, var(&c), num(limit));
                    match extra {
                        Some(e) => bin(BinOp::And, base, e),
                        None => base,
                    }
                } else {
                    let base = bin(BinOp::GreaterEq, var(&c), num(limit));
                    match extra {
                        Some(e) => bin(BinOp::Or, base, e),
                        None => base,
                    }
                };
                let mut body = vec![Stmt::Inc { dest: Ident::Name(c.clone()), n: 1 }];
                body.extend(self.block(depth - 1, true));
                out.push(if is_while { Stmt::While { cond, body } } else { Stmt::Until { cond, body } });
            }
        }
    }
}

pub fn program(rng: &mut Rng) -> (Program, String) {
    let u = universe();
    let mut pre = Vec::new();
    let mut cond_vars = Vec::new();
    let names = ["Alpha", "Beta", "Gamma", "Delta"];
    for (i, n) in names.iter().enumerate() {
        let name = simple(n);
        let uv = rng.pick(&u).clone();
        crate::vals::build_stmts(&uv.v, &name, &format!("tmp{}", (b'a' + i as u8) as char), &mut pre);
        cond_vars.push(name);
    }
    let max_depth = *rng.pick(&[1usize, 2, 3, 4, 5]);
    let mut g = G {
        rng,
        next_marker: 0,
        next_counter: 0,
        cond_vars,
        max_depth,
        skeleton: String::new(),
        planted_error: false,
    };
    let mut body = Vec::new();
    let n = g.rng.range(1, 4);
    for _ in 0..n {
        let d = g.max_depth;
        g.stmt(d, false, &mut body);
    }
    body.push(g.marker());
    let sk = g.skeleton.clone();
    pre.extend(body);
    (Program::single(pre), sk)
}

/// A second program on an interpreter value that has run one before (`ExecStmt::visit_program` takes `&mut self`):
/// its statements run in order like anybody's, however the first program ended.
fn interpreter_reuse_case(ctx: &mut Ctx, idx: u64) {
    const FIRST: &[&str] = &[
        "say 0\n",
        "say 0\nbreak\n",
        "say 0\ntake it to the top\n",
        "say 0\ncontinue\n",
        "say 0\ngive back 1\n",
        "say 0\nsay mysterious at 0\n",
        "X is 1\nwhile X\nsay 0\nbreak\n\n",
    ];
    const SECOND: &[(&str, &str)] = &[
        ("say 1\nsay 2\n", "1\n2\n"),
        ("Y is 2\nwhile Y\nsay Y\nknock Y down\n\nsay 9\n", "2\n1\n9\n"),
        ("say 1\nbreak\nsay 2\n", "1\n"),
        ("say 1\ngive back 2\n", "1\n"),
        ("say 1\n\nsay 2\n\nsay 3\n", "1\n2\n3\n"),
    ];
    let first = FIRST[(idx as usize) % FIRST.len()];
    let (second, want) = SECOND[(idx as usize / FIRST.len()) % SECOND.len()];
    let case = || Json::obj().with("first_program", Json::s(first)).with("second_program", Json::s(second));
    let (p1, p2) = match (crate::mon::parse_quiet(first), crate::mon::parse_quiet(second)) {
        (Ok(a), Ok(b)) => (a, b),
        _ => {
            ctx.count("interpreter_reuse_programs_rejected_by_the_parser");
            return;
        }
    };
    ctx.eval();
    match crate::mon::exec_sequence_guarded(&[&p1, &p2], 10_000) {
        Err(p) => {
            ctx.sites.absorb();
            ctx.panic_outcome("reused_interpreter", &p, case());
        }
        Ok(res) => {
            ctx.sites.absorb();
            let got = String::from_utf8_lossy(&res[1].0).to_string();
            if got != want || res[1].1.is_err() {
                ctx.violation(
                    "second_program_on_a_reused_interpreter_does_not_run_in_order",
                    &format!("the second program printed {:?} and ended with {:?}; its statements in order print {:?}", got, res[1].1, want),
                    case(),
                );
            } else {
                ctx.count("interpreter_reuse_cases_held");
            }
        }
    }
}

pub fn run(ctx: &mut Ctx) {
    ctx.log_events = true;
    if ctx.miri {
        ctx.cases("miri", ctx.nshards as u64 * 2, |ctx, rng, _| {
            let (tree, _) = program(rng);
            exec_compare(ctx, "flow", &tree, b"", &Spelling::canonical(), rng);
        });
        return;
    }
    ctx.cases("interpreter_reuse", 35, |ctx, _, idx| interpreter_reuse_case(ctx, idx));
    let n = ctx.size(60_000, 2_000_000);
    ctx.cases("programs", n, |ctx, rng, _| {
        let (tree, skeleton) = program(rng);
        let sp = if rng.chance(1, 2) { Spelling::canonical() } else { Spelling::mild(rng) };
        let c = exec_compare(ctx, "flow", &tree, b"", &sp, rng);
        ctx.count("programs");
        ctx.max("max_block_depth", tree.max_depth() as u64);
        if let Some(m) = &c.model {
            for k in ["loop_iterations", "breaks", "continues", "if_true", "if_false", "else_taken"] {
                ctx.add(&format!("model.{}", k), m.stats.get(k).copied().unwrap_or(0));
            }
            if let Verdict::Agree = c.verdict {
                let interesting = m.stats.get("loop_iterations").copied().unwrap_or(0) >= 1
                    && (m.stats.get("breaks").copied().unwrap_or(0)
                        + m.stats.get("continues").copied().unwrap_or(0)
                        + m.stats.get("else_taken").copied().unwrap_or(0)
                        >= 1
                        || tree.max_depth() >= 2);
                if interesting {
                    ctx.nontrivial(hash_str(&c.text));
                }
                ctx.seen("nesting_shapes_sample", &skeleton.chars().take(40).collect::<String>());
                ctx.nontrivial_shape(hash_str(&skeleton));
                ctx.add("markers_checked", m.says);
                if matches!(m.outcome, crate::refi::RefOutcome::Error(_)) {
                    ctx.count("runs_stopped_by_planted_error_with_output_preserved");
                }
                if ctx.samples.len() < 3 && c.text.len() < 900 && interesting {
                    ctx.sample(
                        Json::obj()
                            .with("src", Json::s(&c.text))
                            .with("trace", Json::s(String::from_utf8_lossy(&c.rrss_out).replace('\n', " ")))
                            .with("skeleton", Json::s(&skeleton)),
                    );
                }
            }
        }
    });
}
