//! C06 — arrays are independent values with queue and dictionary behaviour.
//!
//! Histories of copy / mutate steps over several variables. The generator runs the reference
//! model alongside, so after EVERY step the program dumps the complete stored state of every
//! variable (length, every index and one past the end, every dictionary key, nested arrays
//! recursively). Written values carry unique ids, so an alias shows up as a change in a variable
//! that was not the target.

use crate::ctx::Ctx;
use crate::json::Json;
use crate::mast::*;
use crate::props::{exec_compare, Verdict};
use crate::refi::{self, Key, RefOutcome, V};
use crate::render::Spelling;
use crate::rng::{hash_str, Rng};

const VARS: &[&str] = &["Alpha", "Beta", "Gamma", "Delta", "Omega"];

fn v(name: &str) -> Name {
    simple(name)
}

fn key_lit(k: &Key) -> Lit {
    match k {
        Key::Mys => Lit::Mysterious,
        Key::Null => Lit::Null,
        Key::Bool(b) => Lit::Bool(*b),
        Key::Str(s) => Lit::Str(s.clone()),
    }
}

/// statements that print everything stored under `place` (a variable or element)
fn dump(place: &Prim, val: &V, depth: usize, out: &mut Vec<Stmt>) {
    out.push(say(Expr::Prim(place.clone())));
    if let V::Arr(a) = val {
        // subscripts of subscripts: `X at 1 at 2` is (X at 1) at 2
        let at = |k: Prim| Prim::Sub(Box::new(place.clone()), Box::new(k));
        for i in 0..=a.seq.len() {
            let p = at(Prim::Lit(Lit::Num(i as f64)));
            match a.seq.get(i) {
                Some(e) if depth > 0 => dump(&p, e, depth - 1, out),
                _ => out.push(say(Expr::Prim(p))),
            }
        }
        for (k, e) in &a.dict {
            let p = at(Prim::Lit(key_lit(k)));
            if depth > 0 {
                dump(&p, e, depth - 1, out);
            } else {
                out.push(say(Expr::Prim(p)));
            }
        }
    }
}

struct H<'a> {
    rng: &'a mut Rng,
    next_id: u32,
    ops: Vec<&'static str>,
}

impl<'a> H<'a> {
    fn id(&mut self) -> Expr {
        self.next_id += 1;
        if self.next_id % 3 == 0 {
            strlit(&format!("v{}", self.next_id))
        } else {
            num(1000.0 + self.next_id as f64)
        }
    }
}

fn mutate_fn() -> Stmt {
    // Mutate takes Arr: changes its parameter in every way and returns it
    let arr = simple("Arr");
    Stmt::Function {
        name: simple("Mutate"),
        params: vec![arr.clone()],
        body: vec![
            Stmt::Push { array: pvar(&arr), value: Some(PushRhs::List(vec![num(99.0)])) },
            Stmt::Assign { dest: Lhs::Sub(Box::new(pvar(&arr)), Box::new(Prim::Lit(Lit::Num(0.0)))), op: None, value: vec![num(98.0)] },
            Stmt::Assign { dest: Lhs::Sub(Box::new(pvar(&arr)), Box::new(Prim::Lit(Lit::Str("inside".into())))), op: None, value: vec![num(97.0)] },
            say(var(&arr)),
            Stmt::Return { value: var(&arr) },
        ],
    }
}

fn lookup<'s>(state: &'s [(String, V)], name: &str) -> Option<&'s V> {
    let key = format!("s:{}", name.to_lowercase());
    state.iter().find(|(k, _)| *k == key).map(|(_, v)| v)
}

pub struct History {
    pub tree: Program,
    pub ops: Vec<&'static str>,
    pub copy_then_mutate: u32,
    pub terminal_error: bool,
}

pub fn history(rng: &mut Rng, max_ops: usize) -> History {
    let nvars = rng.range(2, VARS.len());
    let vars: Vec<&str> = VARS[..nvars].to_vec();
    let mut h = H { rng, next_id: 0, ops: Vec::new() };
    let mut stmts: Vec<Stmt> = vec![mutate_fn()];
    let budget = refi::Budget::default();
    let mut copied: Vec<(String, String)> = Vec::new();
    let mut copy_then_mutate = 0u32;
    let mut terminal_error = false;
    let nops = h.rng.range(5, max_ops);
    for _ in 0..nops {
        let (run, state) = refi::run_full(&Program::single(stmts.clone()), b"", &budget);
        if run.outcome != RefOutcome::Ok {
            break;
        }
        let target = *h.rng.pick(&vars);
        let other = *h.rng.pick(&vars);
        let tv = lookup(&state, target).cloned();
        let t = v(target);
        let len = match &tv {
            Some(V::Arr(a)) => a.seq.len(),
            _ => 0,
        };
        let is_arrayish = matches!(tv, Some(V::Arr(_)) | Some(V::Mys) | None);
        let mut mutated: Option<&str> = None;
        let op: &'static str = match h.rng.below(24) {
            0 | 1 | 2 if is_arrayish => {
                let k = match h.rng.below(4) {
                    0 => len + h.rng.range(1, 3),
                    1 => len,
                    _ => h.rng.below(len.max(1)),
                };
                let val = h.id();
                stmts.push(Stmt::Assign { dest: Lhs::Sub(Box::new(pvar(&t)), Box::new(Prim::Lit(Lit::Num(k as f64)))), op: None, value: vec![val] });
                mutated = Some(target);
                if k > len { "index_write_beyond_end" } else { "index_write" }
            }
            3 | 4 if is_arrayish => {
                let key = match h.rng.below(6) {
                    0 => Lit::Str("k".into()),
                    1 => Lit::Str("other key".into()),
                    2 => Lit::Bool(h.rng.coin()),
                    3 => Lit::Null,
                    4 => Lit::Mysterious,
                    _ => Lit::Str("".into()),
                };
                let val = h.id();
                stmts.push(Stmt::Assign { dest: Lhs::Sub(Box::new(pvar(&t)), Box::new(Prim::Lit(key))), op: None, value: vec![val] });
                mutated = Some(target);
                "dictionary_write"
            }
            5 if is_arrayish => {
                // nested write: (T at i) at j; creates the inner array when the element is mysterious
                let i = h.rng.below(len + 1);
                let inner_ok = match &tv {
                    Some(V::Arr(a)) => matches!(a.seq.get(i), None | Some(V::Mys) | Some(V::Arr(_))),
                    _ => true,
                };
                let j = h.rng.below(3);
                let val = h.id();
                let place = Prim::Sub(Box::new(pvar(&t)), Box::new(Prim::Lit(Lit::Num(i as f64))));
                stmts.push(Stmt::Assign { dest: Lhs::Sub(Box::new(place), Box::new(Prim::Lit(Lit::Num(j as f64)))), op: None, value: vec![val] });
                mutated = Some(target);
                if inner_ok { "nested_write" } else { "nested_write_into_scalar_element" }
            }
            6 | 7 => {
                let value = match h.rng.below(4) {
                    0 => None,
                    1 => Some(PushRhs::List(vec![h.id()])),
                    2 => Some(PushRhs::List(vec![h.id(), h.id(), h.id()])),
                    _ => Some(PushRhs::Poetic(vec![PoeticElem::Word("a".into()), PoeticElem::Word("lovestruck".into()), PoeticElem::Word("bee".into())])),
                };
                let kind = match (&tv, &value) {
                    (Some(V::Arr(_)), _) => "rock_array",
                    (Some(V::Mys), _) | (None, _) => "rock_mysterious",
                    _ => "rock_scalar",
                };
                stmts.push(Stmt::Push { array: pvar(&t), value });
                mutated = Some(target);
                kind
            }
            8 | 9 if matches!(tv, Some(V::Arr(_))) => {
                let dest = v(other);
                match h.rng.below(4) {
                    0 => {
                        stmts.push(Stmt::Pop { array: pvar(&t), dest: None });
                        mutated = Some(target);
                        "roll_statement"
                    }
                    1 if other != target => {
                        stmts.push(Stmt::Pop { array: pvar(&t), dest: Some(Lhs::Ident(Ident::Name(dest))) });
                        mutated = Some(target);
                        "roll_into"
                    }
                    2 => {
                        stmts.push(say(Expr::Prim(Prim::Pop(Box::new(pvar(&t))))));
                        mutated = Some(target);
                        "roll_expression"
                    }
                    _ => {
                        // roll until empty and once more (mysterious)
                        for _ in 0..=len.min(4) {
                            stmts.push(say(Expr::Prim(Prim::Pop(Box::new(pvar(&t))))));
                        }
                        mutated = Some(target);
                        "roll_past_empty"
                    }
                }
            }
            10 | 11 | 12 if other != target && tv.is_some() => {
                stmts.push(put(var(&t), &v(other)));
                copied.push((target.to_string(), other.to_string()));
                "copy_by_assignment"
            }
            13 if other != target && tv.is_some() => {
                let k = h.rng.below(3);
                let ok = matches!(lookup(&state, other), Some(V::Arr(_)) | Some(V::Mys) | None);
                if !ok {
                    continue;
                }
                stmts.push(Stmt::Assign { dest: Lhs::Sub(Box::new(pvar(&v(other))), Box::new(Prim::Lit(Lit::Num(k as f64)))), op: None, value: vec![var(&t)] });
                copied.push((target.to_string(), other.to_string()));
                "copy_by_storing_into_array"
            }
            14 | 15 if tv.is_some() => {
                // by-value argument passing
                let call = Expr::Prim(Prim::Call(simple("Mutate"), vec![var(&t)]));
                if other != target && h.rng.coin() {
                    stmts.push(put(call, &v(other)));
                    copied.push((target.to_string(), other.to_string()));
                } else {
                    stmts.push(say(call));
                }
                "argument_passing"
            }
            16 if tv.is_some() => {
                let e = match h.rng.below(6) {
                    0 => bin(BinOp::Plus, var(&t), num(1.0)),
                    1 => bin(BinOp::Multiply, var(&t), num(2.0)),
                    2 => bin(BinOp::Eq, var(&t), num(len as f64)),
                    3 => bin(BinOp::Eq, var(&t), var(&v(other))),
                    4 => bin(BinOp::Minus, var(&t), var(&v(other))),
                    _ => bin(BinOp::Less, var(&t), num(2.0)),
                };
                if lookup(&state, other).is_none() {
                    continue;
                }
                stmts.push(say(e));
                "array_in_expression"
            }
            17 => {
                stmts.push(put(h.id(), &t));
                mutated = Some(target);
                "overwrite_with_scalar"
            }
            18 if matches!(tv, Some(V::Arr(_))) && len > 0 => {
                let k = h.rng.below(len);
                stmts.push(Stmt::Assign { dest: Lhs::Sub(Box::new(pvar(&t)), Box::new(Prim::Lit(Lit::Num(k as f64)))), op: Some(BinOp::Plus), value: vec![num(1.0)] });
                mutated = Some(target);
                "compound_assignment_on_element"
            }
            19 if h.rng.chance(1, 3) => {
                // terminal errors
                terminal_error = true;
                match (h.rng.below(4), &tv) {
                    (0, Some(V::Num(_))) | (0, Some(V::Bool(_))) | (0, Some(V::Null)) => {
                        stmts.push(say(Expr::Prim(Prim::Sub(Box::new(pvar(&t)), Box::new(Prim::Lit(Lit::Num(0.0)))))));
                        "error_read_index_of_non_indexable"
                    }
                    (1, Some(V::Num(_))) | (1, Some(V::Bool(_))) | (1, Some(V::Null)) => {
                        stmts.push(Stmt::Assign { dest: Lhs::Sub(Box::new(pvar(&t)), Box::new(Prim::Lit(Lit::Num(0.0)))), op: None, value: vec![num(1.0)] });
                        "error_write_index_of_non_indexable"
                    }
                    (2, Some(V::Arr(_))) if matches!(lookup(&state, other), Some(V::Arr(_))) => {
                        stmts.push(say(Expr::Prim(Prim::Sub(Box::new(pvar(&t)), Box::new(pvar(&v(other)))))));
                        "error_array_as_key_read"
                    }
                    (3, Some(V::Arr(_))) if matches!(lookup(&state, other), Some(V::Arr(_))) => {
                        stmts.push(Stmt::Assign { dest: Lhs::Sub(Box::new(pvar(&t)), Box::new(pvar(&v(other)))), op: None, value: vec![num(1.0)] });
                        "error_array_as_key_write"
                    }
                    _ => {
                        terminal_error = false;
                        continue;
                    }
                }
            }
            _ => continue,
        };
        h.ops.push(op);
        if let Some(m) = mutated {
            if copied.iter().any(|(a, b)| a == m || b == m) {
                copy_then_mutate += 1;
            }
        }
        // dump the complete state after the step
        let (run2, state2) = refi::run_full(&Program::single(stmts.clone()), b"", &budget);
        if run2.outcome != RefOutcome::Ok {
            break;
        }
        for name in &vars {
            if let Some(val) = lookup(&state2, name) {
                dump(&pvar(&v(name)), val, 2, &mut stmts);
            }
        }
    }
    let ops = h.ops.clone();
    History { tree: Program::single(stmts), ops, copy_then_mutate, terminal_error }
}

/// Read-your-writes at a fractional index. The statement does not say which slot `xs at 3.5` is, so the
/// reference model leaves such programs open - but whichever slot it is, a value written there is the value
/// read back from there (or the write itself is refused with a runtime error).
fn fractional_index_case(ctx: &mut Ctx, rng: &mut Rng) {
    use crate::mon::{self, ExecOpts, ExecOutcome};
    let n = rng.below(5);
    let k = rng.below(6);
    let frac = *rng.pick(&["25", "5", "75", "999", "001", "5000001", "4999999"]);
    let idx = format!("{}.{}", k, frac);
    let mut src = String::new();
    if n > 0 {
        src.push_str(&format!("rock Xs with {}\n", (0..n).map(|i| format!("{}", 10 * (i + 1))).collect::<Vec<_>>().join(", ")));
    }
    let form = rng.below(4);
    match form {
        0 => src.push_str(&format!("let Xs at {i} be 77\nsay \"w\"\nsay Xs at {i}\n", i = idx)),
        1 => src.push_str(&format!("put {i} into Index\nlet Xs at Index be 77\nsay \"w\"\nsay Xs at Index\n", i = idx)),
        2 => src.push_str(&format!("rock Ys with 1, 2\nlet Xs at {i} be Ys\nlet Xs at {i} at 1.5 be 77\nsay \"w\"\nsay Xs at {i} at 1.5\n", i = idx)),
        _ => src.push_str(&format!("let Xs at {i} be 70\nlet Xs at {i} be with 7\nsay \"w\"\nsay Xs at {i}\n", i = idx)),
    }
    let case = || Json::obj().with("src", Json::s(&src));
    let prog = match mon::parse_quiet(&src) {
        Ok(p) => p,
        Err(e) => {
            ctx.violation("fractional_index:parse_error", &e, case());
            return;
        }
    };
    ctx.eval();
    let opts = ExecOpts { fuel: 10_000, log_events: false, log_dict: false, trap: true };
    match mon::exec_guarded(&prog, b"", &opts) {
        ExecOutcome::Done(run) => {
            ctx.sites.absorb();
            let out = String::from_utf8_lossy(&run.stdout).to_string();
            match (&run.result, out.as_str()) {
                (Ok(()), "w\n77\n") => ctx.count("fractional_index_read_your_write_held"),
                (Err(_), "") => ctx.count("fractional_index_write_refused"),
                _ => ctx.violation(
                    "fractional_index:value_written_is_not_the_value_read",
                    &format!("index {}: stdout {:?}, result {:?} (expected \"w\\n77\\n\" and success, or a refused write)", idx, out, run.result),
                    case(),
                ),
            }
        }
        ExecOutcome::Panicked(p, _) => {
            ctx.sites.absorb();
            ctx.panic_outcome("exec", &p, case());
        }
    }
}

/// Wide and deep shapes: lists, argument lists and subscript chains around the sizes at which inline buffers
/// spill (8/9, 16/17, 32/33). One program per (shape, size).
pub fn wide_program(idx: u64) -> Option<Program> {
    const SIZES: &[usize] = &[7, 8, 9, 10, 15, 16, 17, 31, 32, 33, 65];
    let shape = (idx as usize) / SIZES.len();
    let n = SIZES[(idx as usize) % SIZES.len()];
    let xs = simple("Xs");
    let mut ss: Vec<Stmt> = Vec::new();
    match shape {
        0 => {
            // rock with a list of n values, read the last and the one past it
            ss.push(Stmt::Push { array: pvar(&xs), value: Some(PushRhs::List((0..n).map(|i| num(i as f64 + 0.5)).collect())) });
            ss.push(say(var(&xs)));
            ss.push(say(Expr::Prim(Prim::Sub(Box::new(pvar(&xs)), Box::new(Prim::Lit(Lit::Num((n - 1) as f64)))))));
            ss.push(say(Expr::Prim(Prim::Sub(Box::new(pvar(&xs)), Box::new(Prim::Lit(Lit::Num(n as f64)))))));
        }
        1 => {
            // a chain of n subscripts, written then read, then one level less (an array: prints its length)
            let chain = |depth: usize| {
                let mut p = pvar(&xs);
                for d in 0..depth {
                    p = Prim::Sub(Box::new(p), Box::new(Prim::Lit(Lit::Num((d % 3) as f64))));
                }
                p
            };
            let lhs = match chain(n) {
                Prim::Sub(a, k) => Lhs::Sub(a, k),
                _ => return None,
            };
            ss.push(Stmt::Assign { dest: lhs, op: None, value: vec![num(77.0)] });
            ss.push(say(Expr::Prim(chain(n))));
            ss.push(say(Expr::Prim(chain(n - 1))));
            ss.push(say(var(&xs)));
        }
        2 => {
            // a function of n parameters called with n arguments, and with n - 1
            let f = simple("Wide");
            let params: Vec<Name> = (0..n).map(|i| Name::Simple(format!("Par{}", letters(i)))).collect();
            let body = vec![
                say(var(&params[0])),
                say(var(&params[n - 1])),
                Stmt::Return { value: bin(BinOp::Plus, var(&params[n / 2]), var(&params[n - 1])) },
            ];
            ss.push(Stmt::Function { name: f.clone(), params, body });
            ss.push(say(Expr::Prim(Prim::Call(f.clone(), (0..n).map(|i| num(i as f64)).collect()))));
            ss.push(say(Expr::Prim(Prim::Call(f, (0..n - 1).map(|i| num(i as f64)).collect()))));
        }
        3 => {
            // compound assignment with a list of n operands; a sum with a list of n
            ss.push(put(num(1.0), &xs));
            ss.push(Stmt::Assign { dest: Lhs::Ident(Ident::Name(xs.clone())), op: Some(BinOp::Plus), value: (0..n).map(|i| num(i as f64)).collect() });
            ss.push(say(var(&xs)));
            ss.push(say(Expr::Bin(BinOp::Minus, Box::new(num(1000.0)), (0..n).map(|i| num(i as f64)).collect())));
        }
        4 => {
            // join of n strings, cut of a string of n characters
            ss.push(Stmt::Push { array: pvar(&xs), value: Some(PushRhs::List((0..n).map(|i| strlit(&letters(i))).collect())) });
            ss.push(Stmt::Mutation { op: MutOp::Join, operand: pvar(&xs), dest: None, param: Some(strlit("-")) });
            ss.push(say(var(&xs)));
            ss.push(Stmt::Mutation { op: MutOp::Cut, operand: pvar(&xs), dest: None, param: None });
            ss.push(say(var(&xs)));
            ss.push(say(Expr::Prim(Prim::Sub(Box::new(pvar(&xs)), Box::new(Prim::Lit(Lit::Num((n - 1) as f64)))))));
        }
        5 => {
            // n rolls from a queue of n - 1
            ss.push(Stmt::Push { array: pvar(&xs), value: Some(PushRhs::List((0..n - 1).map(|i| num(i as f64)).collect())) });
            for _ in 0..n {
                ss.push(say(Expr::Prim(Prim::Pop(Box::new(pvar(&xs))))));
            }
            ss.push(say(var(&xs)));
        }
        6 => {
            // reads far beyond the end, of an array and of a string: missing elements, not errors
            let far = [1e9, 4294967296.0, 9007199254740992.0, 18446744073709551615.0, 18446744073709551616.0, 1e30, 1e300, f64::MAX];
            let k = far[(idx as usize) % far.len()];
            let elems: Vec<Expr> = (0..(n % 5)).map(|i| num(i as f64)).collect();
            ss.push(Stmt::Push { array: pvar(&xs), value: if elems.is_empty() { None } else { Some(PushRhs::List(elems)) } });
            ss.push(say(Expr::Prim(Prim::Sub(Box::new(pvar(&xs)), Box::new(Prim::Lit(Lit::Num(k)))))));
            ss.push(put(bin(BinOp::Divide, num(1.0), num(0.0)), &simple("Far")));
            ss.push(say(Expr::Prim(Prim::Sub(Box::new(pvar(&xs)), Box::new(pvar(&simple("Far")))))));
            ss.push(put(strlit("text"), &simple("Text")));
            ss.push(say(Expr::Prim(Prim::Sub(Box::new(pvar(&simple("Text"))), Box::new(Prim::Lit(Lit::Num(k)))))));
            ss.push(say(Expr::Prim(Prim::Sub(Box::new(pvar(&simple("Text"))), Box::new(pvar(&simple("Far")))))));
            ss.push(say(var(&xs)));
        }
        _ => return None,
    }
    Some(Program::single(ss))
}

fn letters(i: usize) -> String {
    let mut s = String::new();
    let mut i = i;
    loop {
        s.push((b'a' + (i % 26) as u8) as char);
        i /= 26;
        if i == 0 {
            break;
        }
    }
    s
}

/// Roll / rock / turn / cut aimed at the RESULT of a `roll` expression (a temporary). Whether that is an error
/// (as for the result of a call) or acts on the temporary is not fixed by the statement; what it cannot do is act
/// on some other variable. Per program: the outputs that are acceptable (an early runtime error, or the
/// compositional reading).
const TEMPORARY_TARGETS: &[(&str, &str, &[&str])] = &[
    (
        "roll_of_a_roll",
        "rock Inner with \"a\", \"b\"\nrock Xs with Inner, \"c\"\nsay \"start\"\nlet Y be roll roll Xs\nsay Y\nsay Xs\n",
        &["start\n", "start\na\n1\n"],
    ),
    ("rock_onto_a_roll", "rock Zs with 1, 2\nsay \"start\"\nrock roll Zs with 9\nsay Zs\nsay Zs at 0\n", &["start\n", "start\n1\n2\n"]),
    ("turn_of_a_roll_of_a_number", "let X be 1.5\nsay \"start\"\nturn up roll X\nsay X\n", &["start\n"]),
    ("turn_of_a_roll", "rock Xs with 1.5, 2.5\nsay \"start\"\nturn up roll Xs\nsay Xs\nsay Xs at 0\n", &["start\n", "start\n1\n2.5\n"]),
    ("roll_into_of_a_roll", "rock Inner with 1, 2\nrock Xs with Inner, 3\nsay \"start\"\nroll roll Xs into Y\nsay Y\nsay Xs\n", &["start\n", "start\n1\n1\n"]),
    ("cut_of_a_roll", "rock Xs with \"a,b\", \"c\"\nsay \"start\"\ncut roll Xs with \",\"\nsay Xs\nsay Xs at 0\n", &["start\n", "start\n1\nc\n"]),
];

fn temporary_target_case(ctx: &mut Ctx, idx: u64) {
    use crate::mon::{self, ExecOpts, ExecOutcome};
    let (name, src, acceptable) = TEMPORARY_TARGETS[idx as usize % TEMPORARY_TARGETS.len()];
    let case = || Json::obj().with("src", Json::s(src)).with("case", Json::s(name));
    let prog = match mon::parse_quiet(src) {
        Ok(p) => p,
        Err(_) => {
            // a grammar that does not accept the form at all is one way of refusing it
            ctx.count("temporary_target_rejected_by_the_parser");
            return;
        }
    };
    ctx.eval();
    let opts = ExecOpts { fuel: 10_000, log_events: false, log_dict: false, trap: true };
    match mon::exec_guarded(&prog, b"", &opts) {
        ExecOutcome::Done(run) => {
            ctx.sites.absorb();
            let out = String::from_utf8_lossy(&run.stdout).to_string();
            let early_error = run.result.is_err() && out == acceptable[0];
            let composed = run.result.is_ok() && acceptable[1..].contains(&out.as_str());
            if early_error || composed {
                ctx.count("temporary_target_cases_held");
            } else {
                ctx.violation(
                    &format!("write_into_a_temporary_lands_elsewhere:{}", name),
                    &format!("stdout {:?}, result {:?}; acceptable: a runtime error after {:?}, or success with one of {:?}", out, run.result, acceptable[0], &acceptable[1..]),
                    case(),
                );
            }
        }
        ExecOutcome::Panicked(p, _) => {
            ctx.sites.absorb();
            ctx.panic_outcome("exec", &p, case());
        }
    }
}

/// "when printed, compared with a scalar or used in arithmetic an array counts as its sequence length": a
/// two-element array next to a scalar behaves like the number 2 next to that scalar, for every operator and in both
/// operand orders. No model: two runs of rrss are compared. (The cells in which the pinned code does not go through
/// the length are recorded findings, known_findings.json; any other cell is a violation.)
fn array_as_length_case(ctx: &mut Ctx, idx: u64) {
    use crate::mon::{self, ExecOpts, ExecOutcome};
    const SCALARS: &[(&str, &str)] = &[
        ("2", "number"), ("3", "number"), ("0", "number"), ("0.5", "number"),
        ("\"2\"", "numeric_string"), ("\"1\"", "numeric_string"), ("\"3\"", "numeric_string"),
        ("\"a\"", "other_string"), ("\"\"", "other_string"),
        ("true", "true"), ("false", "false"), ("nothing", "null"), ("mysterious", "mysterious"),
    ];
    const OPS: &[(&str, &str)] = &[
        ("is", "equality"), ("isnt", "equality"),
        ("is less than", "ordering"), ("is greater than", "ordering"), ("is as low as", "ordering"), ("is as high as", "ordering"),
        ("plus", "plus"), ("minus", "arithmetic"), ("times", "arithmetic"), ("over", "arithmetic"),
    ];
    let i = idx as usize;
    let (scalar, kind) = SCALARS[i % SCALARS.len()];
    let (op, class) = OPS[(i / SCALARS.len()) % OPS.len()];
    let array_first = (i / (SCALARS.len() * OPS.len())) % 2 == 0;
    let run = |lhs: &str, rhs: &str| -> Option<(String, bool)> {
        let src = format!("rock Arr with \"p\", \"q\"\nput 2 into Len\nsay {} {} {}\n", lhs, op, rhs);
        let prog = mon::parse_quiet(&src).ok()?;
        let opts = ExecOpts { fuel: 1_000, log_events: false, log_dict: false, trap: true };
        match mon::exec_guarded(&prog, b"", &opts) {
            ExecOutcome::Done(r) => Some((String::from_utf8_lossy(&r.stdout).to_string(), r.result.is_ok())),
            ExecOutcome::Panicked(..) => None,
        }
    };
    ctx.eval();
    let (with_array, with_length) = if array_first { (run("Arr", scalar), run("Len", scalar)) } else { (run(scalar, "Arr"), run(scalar, "Len")) };
    ctx.sites.absorb();
    match (with_array, with_length) {
        (Some(a), Some(l)) => {
            if a == l {
                ctx.count("array_as_length_cells_held");
            } else {
                ctx.violation(
                    &format!("array_does_not_count_as_its_length:{}:{}", class, kind),
                    &format!(
                        "`{}`: with the two-element array {:?} ({}), with the number 2 {:?} ({})",
                        if array_first { format!("Arr {} {}", op, scalar) } else { format!("{} {} Arr", scalar, op) },
                        a.0, if a.1 { "ok" } else { "runtime error" }, l.0, if l.1 { "ok" } else { "runtime error" }
                    ),
                    Json::obj().with("operator", Json::s(op)).with("scalar", Json::s(scalar)).with("array_first", Json::s(if array_first { "yes" } else { "no" })),
                );
            }
        }
        _ => ctx.count("array_as_length_cells_not_run"),
    }
}

pub fn run(ctx: &mut Ctx) {
    if ctx.miri {
        ctx.cases("miri", ctx.nshards as u64, |ctx, rng, _| {
            let h = history(rng, 6);
            exec_compare(ctx, "arrays", &h.tree, b"", &Spelling::canonical(), rng);
        });
        return;
    }
    ctx.cases("fractional_index", 3_000, |ctx, rng, _| fractional_index_case(ctx, rng));
    ctx.cases("temporary_targets", TEMPORARY_TARGETS.len() as u64, |ctx, _, idx| temporary_target_case(ctx, idx));
    ctx.cases("array_counts_as_its_length", 13 * 10 * 2, |ctx, _, idx| array_as_length_case(ctx, idx));
    ctx.cases("wide_and_deep", 77, |ctx, rng, idx| {
        if let Some(p) = wide_program(idx) {
            let c = exec_compare(ctx, "wide", &p, b"", &Spelling::canonical(), rng);
            match c.verdict {
                Verdict::Agree => ctx.count("wide_and_deep_programs_agreed"),
                _ => ctx.count("wide_and_deep_programs_not_decided"),
            }
        }
    });
    let n = ctx.size(12_000, 400_000);
    let max_ops = if ctx.is_quick() { 14 } else { 40 };
    ctx.cases("histories", n, |ctx, rng, _| {
        let h = history(rng, max_ops);
        let sp = if rng.chance(2, 3) { Spelling::canonical() } else { Spelling::mild(rng) };
        let c = exec_compare(ctx, "arrays", &h.tree, b"", &sp, rng);
        ctx.count("histories");
        if let Verdict::Agree = c.verdict {
            for op in &h.ops {
                ctx.count(&format!("op.{}", op));
            }
            ctx.add("operations", h.ops.len() as u64);
            ctx.add("copy_then_mutate_pairs", h.copy_then_mutate as u64);
            if let Some(m) = &c.model {
                ctx.add("dump_lines_compared", m.says);
            }
            if h.ops.len() >= 3 {
                ctx.nontrivial(hash_str(&c.text));
            }
            if ctx.samples.len() < 2 && h.ops.len() >= 4 && c.text.len() < 2500 {
                ctx.sample(Json::obj().with("operations", Json::Arr(h.ops.iter().map(|o| Json::s(*o)).collect())).with("src", Json::s(&c.text)).with("stdout", Json::s(String::from_utf8_lossy(&c.rrss_out).replace('\n', " "))));
            }
        }
    });
}
