//! C11 — poetic literals denote the number or string their words spell.

use crate::ctx::Ctx;
use crate::gen;
use crate::json::Json;
use crate::kw;
use crate::mast::*;
use crate::mon;
use crate::props::{case_src, exec_compare_text, Verdict};
use crate::refi::{poetic_value, ulp_distance};
use crate::render::render_plain;
use crate::rng::{hash_str, Rng};

/// one logical word of a poetic literal: its text, the model elements it lexes to, its length
struct PWord {
    text: String,
    elems: Vec<PoeticElem>,
    len: usize,
}

const LETTERS: &str = "abcdefghijklmnopqrstuvwxyz";
// (the last five change their UTF-8 length when lower-cased or upper-cased: Kelvin, Ohm and Angstrom signs, ẞ, İ)
const ACCENTED: &[char] = &['é', 'ü', 'ñ', 'ж', 'я', 'λ', 'É', 'Ж', '\u{212a}', '\u{2126}', '\u{212b}', 'ẞ', 'İ'];

fn letters(rng: &mut Rng, n: usize) -> String {
    (0..n)
        .map(|_| {
            if rng.chance(1, 12) {
                *rng.pick(ACCENTED)
            } else {
                let c = LETTERS.as_bytes()[rng.below(26)] as char;
                if rng.chance(1, 5) {
                    c.to_ascii_uppercase()
                } else {
                    c
                }
            }
        })
        .collect()
}

fn plain_part(rng: &mut Rng, first: bool, forced_len: Option<usize>) -> (String, usize) {
    loop {
        let (text, n) = if !first && forced_len.is_none() && rng.chance(1, 6) {
            // a keyword used as a word
            let all = kw::all_words();
            let k = rng.pick(all).to_string();
            if k.contains('\'') {
                continue;
            }
            let n = k.chars().count();
            (gen::random_case_word(rng, &k), n)
        } else {
            let n = forced_len.unwrap_or_else(|| match rng.below(10) {
                0 => *rng.pick(&[10usize, 20, 11, 19, 23]),
                // (very long words: the length is counted modulo 10, not modulo 256 first)
                1 if rng.chance(1, 20) => *rng.pick(&[100usize, 255, 256, 257, 300, 1000, 65_536]),
                _ => rng.range(1, 9),
            });
            (letters(rng, n), n)
        };
        if first && kw::is_keyword(&text) {
            continue;
        }
        if !first && kw::is_keyword(&text) && forced_len.is_some() {
            continue;
        }
        // a random word must not accidentally be a keyword in non-first position either unless intended
        return (text, n);
    }
}

fn pword(rng: &mut Rng, first: bool) -> PWord {
    let (mut text, mut len) = plain_part(rng, first, None);
    // inner apostrophe (not counted): only for non-keyword random words
    let mut base_elem_text = text.clone();
    if !kw::is_keyword(&text) && text.chars().count() >= 2 && rng.chance(1, 8) {
        let cs: Vec<char> = text.chars().collect();
        let k = rng.range(1, cs.len() - 1);
        let t: String = cs[..k].iter().collect::<String>() + "'" + &cs[k..].iter().collect::<String>();
        // `x's` / `x're` endings would be split off as suffixes: avoid producing them by accident
        let lower = t.to_lowercase();
        if !(lower.ends_with("'s") || lower.ends_with("'re")) && !kw::is_keyword(&t) {
            text = t.clone();
            base_elem_text = t;
        }
    }
    let mut elems = vec![PoeticElem::Word(base_elem_text)];
    // hyphenated parts
    while rng.chance(1, 8) {
        let fl = rng.range(1, 6);
        let (p, n) = if rng.chance(1, 4) {
            // a part spelled like a keyword (`mother-in-law`, `rock-and-roll`)
            let all = kw::all_words();
            let k = loop {
                let k = rng.pick(all).to_string();
                if !k.contains('\'') {
                    break k;
                }
            };
            let n = k.chars().count();
            (gen::random_case_word(rng, &k), n)
        } else {
            plain_part(rng, false, Some(fl))
        };
        let spacing = *rng.pick(&["-", " -", "- ", " - "]);
        text.push_str(spacing);
        text.push_str(&p);
        elems.push(PoeticElem::Suffix(format!("-{}", p)));
        len += 1 + n;
    }
    // apostrophe suffix (counted with the word: +1 / +2 letters)
    match rng.below(12) {
        0 => {
            let s = *rng.pick(&["'s", "'S"]);
            text.push_str(s);
            elems.push(PoeticElem::Suffix(s.to_string()));
            len += 1;
        }
        1 => {
            let s = *rng.pick(&["'re", "'RE", "'Re"]);
            text.push_str(s);
            elems.push(PoeticElem::Suffix(s.to_string()));
            len += 2;
        }
        2 => {
            // trailing apostrophes are dropped by the lexer and never counted
            text.push('\'');
        }
        _ => {}
    }
    PWord { text, elems, len }
}

struct Literal {
    text: String,
    elems: Vec<PoeticElem>,
    /// expected decimal numeral
    numeral: String,
    shape: Vec<&'static str>,
    lengths: Vec<usize>,
}

fn literal(rng: &mut Rng) -> Literal {
    // (a twelfth of the literals are long runs of words without a period: 18 to 40 integer digits)
    let long_integer = rng.chance(1, 12);
    let n = match rng.below(8) {
        _ if long_integer => rng.range(18, 40),
        0 => 1,
        1 => rng.range(10, 25),
        _ => rng.range(1, 9),
    };
    let mut text = String::new();
    let mut elems = Vec::new();
    let mut int = String::new();
    let mut frac = String::new();
    let mut seen_dot = false;
    let mut shape = Vec::new();
    let mut lengths = Vec::new();
    const NOISE: &[&str] = &[",", " ,", ", ", "!", "?", ";", ":", " ' ", "  ", "\t", " (la la) ", " (a\u{301}) "];
    if rng.chance(1, 15) && !long_integer {
        text.push_str(". ");
        elems.push(PoeticElem::Dot);
        seen_dot = true;
        shape.push("dot_first");
    }
    if long_integer {
        shape.push("long_integer_part");
    }
    for i in 0..n {
        let w = pword(rng, i == 0 && elems.is_empty());
        if i > 0 || !text.is_empty() {
            if !text.ends_with(' ') {
                text.push(' ');
            }
        }
        text.push_str(&w.text);
        if w.elems.len() > 1 {
            shape.push("suffixed_or_hyphenated");
        }
        if w.len % 10 == 0 {
            shape.push("length_multiple_of_10");
        }
        elems.extend(w.elems);
        let d = char::from(b'0' + (w.len % 10) as u8);
        lengths.push(w.len);
        if seen_dot {
            frac.push(d)
        } else {
            int.push(d)
        }
        // punctuation after the word
        if rng.chance(1, 4) {
            let p = *rng.pick(NOISE);
            text.push_str(p);
            shape.push("noise_between_words");
        }
        if i + 1 < n && !long_integer && rng.chance(1, if seen_dot { 10 } else { 4 }) {
            text.push_str(*rng.pick(&[".", " .", ". "]));
            text.push(' ');
            elems.push(PoeticElem::Dot);
            if seen_dot {
                shape.push("later_period");
            }
            seen_dot = true;
        }
    }
    if rng.chance(1, 10) {
        text.push_str(" .");
        elems.push(PoeticElem::Dot);
        shape.push(if seen_dot { "later_period" } else { "dot_last" });
    }
    let numeral = format!(
        "{}.{}",
        if int.is_empty() { "0" } else { &int },
        if frac.is_empty() { "0" } else { &frac }
    );
    Literal { text, elems, numeral, shape, lengths }
}

fn check_number(ctx: &mut Ctx, what: &str, got: f64, want: f64, numeral: &str, case: Json) {
    // "exactly for integers below 2^53" is about the numeral, not about what it rounds to
    let numeral_is_integer = numeral.split('.').nth(1).map_or(true, |f| f.chars().all(|c| c == '0'));
    let d = ulp_distance(got, want);
    ctx.max("max_ulp_distance_seen", d.min(1_000_000));
    let integral_small = numeral_is_integer && want.abs() < 9007199254740992.0;
    // "a few units in the last place": the sum-of-powers evaluation of a 25-word literal was seen 5 ulp
    // off in a 13-million-literal run; 8 ulp is the line drawn here (a wrong digit or exponent is off
    // by orders of magnitude)
    let bad = if integral_small { got != want } else { d > 8 };
    if bad {
        ctx.violation(
            &format!("{}:{}", what, if integral_small { "integer_differs" } else { "more_than_8_ulp" }),
            &format!("numeral {} -> expected {:e}, got {:e} ({} ulp)", numeral, want, got, d),
            case,
        );
    }
}

fn number_case(ctx: &mut Ctx, rng: &mut Rng) {
    let lit = literal(rng);
    let want: f64 = lit.numeral.parse().unwrap();
    // the independent digit rule on the element list must agree with the text-level bookkeeping
    debug_assert_eq!(poetic_value(&lit.elems).map(|x| x.to_bits()), Some(want.to_bits()));
    for s in &lit.shape {
        ctx.seen("shapes", s);
    }
    ctx.count("number_literals");
    let lens: String = lit.lengths.iter().map(|l| l.to_string()).collect::<Vec<_>>().join(",");
    ctx.nontrivial(hash_str(&lens) ^ hash_str(&lit.text));
    ctx.seen("distinct_length_sequences_sample", &lens.chars().take(24).collect::<String>());
    // (1) through a program, in assignment or `rock ... like` position
    let var = *rng.pick(&["X", "my heart", "Tom Sawyer", "élan"]);
    let is = *rng.pick(&[" is ", " are ", " was ", " were ", "'s ", "'re "]);
    let is = if var.contains(' ') || !is.starts_with('\'') { is } else { is };
    let (src, tree) = if rng.chance(1, 4) {
        let src = format!("rock {} like {}\nsay {} at 0\n", var, lit.text, var);
        (src, None)
    } else {
        let src = format!("{}{}{}\nsay {}\n", var, is, lit.text, var);
        (src, Some(()))
    };
    let _ = tree;
    ctx.eval();
    let case = || {
        Json::obj()
            .with("src", Json::s(&src))
            .with("expected_numeral", Json::s(&lit.numeral))
            .with("elements", Json::s(format!("{:?}", lit.elems)))
    };
    match mon::parse_guarded(&src, 1000, true) {
        Err(p) => {
            ctx.panic_outcome("poetic_number:parse", &p, case());
        }
        Ok(r) => match r.result {
            Err(e) => ctx.violation(
                &format!("poetic_number:rejected:{}", e.code),
                &format!("valid poetic literal rejected: {}", e.text),
                case(),
            ),
            Ok(prog) => {
                // the literal must have been taken as these elements
                let m = crate::conv::program(&prog);
                let got_elems = match m.blocks.first().and_then(|b| b.first()) {
                    Some(Stmt::PoeticNum { rhs: PoeticRhs::Lit(e), .. }) => Some(e.clone()),
                    Some(Stmt::Push { value: Some(PushRhs::Poetic(e)), .. }) => Some(e.clone()),
                    _ => None,
                };
                match got_elems {
                    None => ctx.violation(
                        "poetic_number:not_parsed_as_poetic_literal",
                        &format!("first statement is {:?}", m.blocks.first().and_then(|b| b.first())),
                        case(),
                    ),
                    Some(e) if e != lit.elems => ctx.violation(
                        "poetic_number:elements_differ",
                        &format!("expected {:?}\n     got {:?}", lit.elems, e),
                        case(),
                    ),
                    Some(_) => {
                        // (2) compute_value directly, through the public struct
                        let direct = mon::guarded(|| {
                            use rrss::frontend::ast::{PoeticNumberLiteral, PoeticNumberLiteralElem as E};
                            PoeticNumberLiteral {
                                elems: lit
                                    .elems
                                    .iter()
                                    .map(|e| match e {
                                        PoeticElem::Word(w) => E::Word(w.clone()),
                                        PoeticElem::Suffix(w) => E::WordSuffix(w.clone()),
                                        PoeticElem::Dot => E::Dot,
                                    })
                                    .collect(),
                            }
                            .compute_value()
                        });
                        ctx.sites.absorb();
                        match direct {
                            Err(p) => {
                                ctx.panic_outcome("poetic_number:compute_value", &p, case());
                            }
                            Ok(v) => check_number(ctx, "poetic_number:compute_value", v, want, &lit.numeral, case()),
                        }
                        // (3) executed
                        match mon::exec_guarded(&prog, b"", &mon::ExecOpts::default()) {
                            mon::ExecOutcome::Panicked(p, _) => {
                                ctx.panic_outcome("poetic_number:exec", &p, case());
                            }
                            mon::ExecOutcome::Done(run) => {
                                ctx.sites.absorb();
                                let out = String::from_utf8_lossy(&run.stdout).to_string();
                                match (run.result.is_ok(), out.trim_end_matches('\n').parse::<f64>()) {
                                    (true, Ok(v)) if out.ends_with('\n') && out.matches('\n').count() == 1 => {
                                        check_number(ctx, "poetic_number:printed", v, want, &lit.numeral, case());
                                        ctx.count("printed_values_compared");
                                    }
                                    _ => ctx.violation(
                                        "poetic_number:unexpected_run",
                                        &format!("result {:?}, stdout {:?}", run.result, out),
                                        case(),
                                    ),
                                }
                            }
                        }
                    }
                }
            }
        },
    }
    ctx.sites.absorb();
}

const STR_PIECES: &[&str] = &[
    "hello", "world", "Hello, World!", " ", "  ", "!", "?", ".", ",", "it's", "say", "if", "else", "1", "2.5", "é",
    "日本", "\"quoted\"", "(paren)", "-", "+", "&", "'n'", "x_y", "\t", "says", "is", "nothing", "'s", "a'", "<=",
    "🎸", "put 1 into x", "\"\"", "()", "1e5", "0", "true",
];

fn string_case(ctx: &mut Ctx, rng: &mut Rng) {
    let n = rng.range(0, 7);
    let mut text = String::new();
    for i in 0..n {
        if i > 0 && rng.chance(2, 3) {
            text.push(' ');
        }
        text.push_str(rng.pstr(STR_PIECES));
    }
    if rng.chance(1, 6) {
        text.insert(0, ' ');
    }
    if rng.chance(1, 6) {
        text.push(' ');
    }
    let var = *rng.pick(&["X", "my heart", "Tom Sawyer", "it"]);
    let says = *rng.pick(&["says", "said", "say", "SAYS", "Said"]);
    let src = if var == "it" {
        format!("Y is 1\nsay Y\n{} {} {}\nsay Y\n", var, says, text)
    } else {
        format!("{} {} {}\nsay {}\n", var, says, text, var)
    };
    ctx.eval();
    ctx.count("string_literals");
    ctx.nontrivial(hash_str(&src));
    let case = || case_src(&src);
    let want = if var == "it" { format!("1\n{}\n", text) } else { format!("{}\n", text) };
    match mon::parse_guarded(&src, 1000, true) {
        Err(p) => {
            ctx.panic_outcome("poetic_string:parse", &p, case());
        }
        Ok(r) => match r.result {
            Err(e) => ctx.violation(
                &format!("poetic_string:rejected:{}", e.code),
                &format!("valid poetic string rejected: {}", e.text),
                case(),
            ),
            Ok(prog) => match mon::exec_guarded(&prog, b"", &mon::ExecOpts::default()) {
                mon::ExecOutcome::Panicked(p, _) => {
                    ctx.panic_outcome("poetic_string:exec", &p, case());
                }
                mon::ExecOutcome::Done(run) => {
                    if run.result.is_err() || run.stdout != want.as_bytes() {
                        ctx.violation(
                            "poetic_string:text_differs",
                            &format!(
                                "expected {:?}, got {:?} ({:?})",
                                want,
                                String::from_utf8_lossy(&run.stdout),
                                run.result
                            ),
                            case(),
                        );
                    } else {
                        ctx.count("strings_compared");
                    }
                }
            },
        },
    }
    ctx.sites.absorb();
}

/// a right-hand side that starts with a literal word or a negative number is an ordinary expression
fn expression_case(ctx: &mut Ctx, rng: &mut Rng) {
    let x = simple("X");
    let y = simple("Y");
    let first: Expr = match rng.below(8) {
        0 => Expr::Prim(Prim::Lit(Lit::Mysterious)),
        1 => Expr::Prim(Prim::Lit(Lit::Null)),
        2 => Expr::Prim(Prim::Lit(Lit::Bool(rng.coin()))),
        3 => strlit(*rng.pick(&["", "abc", "5", "hello world"])),
        4 | 5 => Expr::Un(UnOp::Minus, Box::new(num(*rng.pick(&[0.0, 1.0, 2.5, 42.0])))),
        _ => num(*rng.pick(&[0.0, 1.0, 2.5, 42.0, 1e21])),
    };
    let e = match rng.below(4) {
        0 => first,
        _ => {
            let op = *rng.pick(&[
                BinOp::Plus, BinOp::Minus, BinOp::Multiply, BinOp::Divide, BinOp::And, BinOp::Or, BinOp::Eq,
                BinOp::NotEq, BinOp::Less, BinOp::GreaterEq,
            ]);
            let rhs = match rng.below(4) {
                0 => var(&y),
                1 => strlit("z"),
                2 => Expr::Prim(Prim::Lit(Lit::Null)),
                _ => num(*rng.pick(&[0.0, 2.0, 7.0])),
            };
            Expr::Bin(op, Box::new(first), vec![rhs])
        }
    };
    let tree = Program::single(vec![
        put(num(3.0), &y),
        Stmt::PoeticNum { dest: Lhs::Ident(Ident::Name(x.clone())), rhs: PoeticRhs::Expr(e) },
        say(var(&x)),
    ]);
    let sp = crate::render::Spelling::mild(rng);
    let text = match crate::render::render(&tree, &sp, rng) {
        Ok(r) => r.text,
        Err(_) => render_plain(&tree),
    };
    ctx.count("ordinary_expression_cases");
    ctx.nontrivial(hash_str(&text));
    let c = exec_compare_text(ctx, "poetic_expression", &tree, &text, b"");
    if let Verdict::Agree = c.verdict {
        ctx.count("ordinary_expression_cases_agreed");
    }
}

pub fn run(ctx: &mut Ctx) {
    if ctx.miri {
        let n = ctx.nshards as u64 * 2;
        ctx.cases("miri_numbers", n, |ctx, rng, _| number_case(ctx, rng));
        return;
    }
    let n = ctx.size(120_000, 4_000_000);
    ctx.cases("numbers", n, |ctx, rng, _| {
        number_case(ctx, rng);
    });
    let n = ctx.size(60_000, 2_000_000);
    ctx.cases("strings", n, |ctx, rng, _| {
        string_case(ctx, rng);
    });
    let n = ctx.size(20_000, 500_000);
    ctx.cases("expressions", n, |ctx, rng, _| {
        expression_case(ctx, rng);
    });
    ctx.cases("named", 1, |ctx, _, _| {
        // the shapes the property names explicitly
        for (src, want) in [
            ("X is a lovestruck ladykiller\nsay X\n", "100\n"),
            ("X is ice. A life unfulfilled; wakin' everybody up, taking booze and pills\nsay X\n", "3.1415926535\n"),
            ("X is nothing\nsay X\n", "null\n"),
            ("X is -5\nsay X\n", "-5\n"),
            ("X is rock'n'roll\nsay X\n", "9\n"),
        ] {
            ctx.eval();
            match mon::parse_guarded(src, 1000, true).map(|r| r.result) {
                Ok(Ok(prog)) => match mon::exec_guarded(&prog, b"", &mon::ExecOpts::default()) {
                    mon::ExecOutcome::Done(run) if run.stdout == want.as_bytes() => ctx.count("named_cases_ok"),
                    other => ctx.violation(
                        "named_case",
                        &format!("expected {:?}, got {:?}", want, other),
                        case_src(src),
                    ),
                },
                other => ctx.violation("named_case", &format!("did not parse: {:?}", other.map(|r| r.err())), case_src(src)),
            }
        }
    });
    let _ = sample_guard(ctx);
}

fn sample_guard(ctx: &mut Ctx) -> usize {
    if ctx.samples.is_empty() {
        let mut rng = Rng::new(ctx.seed);
        for _ in 0..3 {
            let l = literal(&mut rng);
            ctx.sample(Json::obj().with("literal", Json::s(&l.text)).with("numeral", Json::s(&l.numeral)));
        }
    }
    ctx.samples.len()
}
