//! One module per property: workload + oracle + evidence counters.

use crate::ctx::Ctx;
use crate::json::Json;

pub mod c01;
pub mod c02;
pub mod c03;
pub mod c04;
pub mod c05;
pub mod c06;
pub mod c07;
pub mod c08;
pub mod c09;
pub mod c10;
pub mod c11;
pub mod c12;
pub mod c13;
pub mod c14;
pub mod c15;
pub mod c16;
pub mod c17;
pub mod c18;
pub mod c19;
pub mod c20;

pub fn run(ctx: &mut Ctx) -> bool {
    match ctx.prop.as_str() {
        "C01" => c01::run(ctx),
        "C02" => c02::run(ctx),
        "C03" => c03::run(ctx),
        "C04" => c04::run(ctx),
        "C05" => c05::run(ctx),
        "C06" => c06::run(ctx),
        "C07" => c07::run(ctx),
        "C08" => c08::run(ctx),
        "C09" => c09::run(ctx),
        "C10" => c10::run(ctx),
        "C11" => c11::run(ctx),
        "C12" => c12::run(ctx),
        "C13" => c13::run(ctx),
        "C14" => c14::run(ctx),
        "C15" => c15::run(ctx),
        "C16" => c16::run(ctx),
        "C17" => c17::run(ctx),
        "C18" => c18::run(ctx),
        "C19" => c19::run(ctx),
        _ => return false,
    }
    true
}

pub fn case_src(src: &str) -> Json {
    Json::obj().with("src", Json::s(src))
}

pub fn case_src_in(src: &str, stdin: &[u8]) -> Json {
    Json::obj()
        .with("src", Json::s(src))
        .with("stdin", Json::s(String::from_utf8_lossy(stdin).to_string()))
}

// --------------------------------------------------------------------------- shared oracle

use crate::mast::Program;
use crate::mon::{ExecOpts, ExecOutcome};
use crate::refi::{self, RefOutcome, RefRun};
use crate::render::{render, Spelling};
use crate::rng::Rng;

#[derive(Debug)]
pub enum Verdict {
    /// compared and equal
    Agree,
    /// a violation was recorded
    Violation,
    DontCare,
    Discarded,
    /// the program could not be rendered / did not parse (recorded separately)
    NotRun,
}

pub struct Compared {
    pub verdict: Verdict,
    pub text: String,
    pub model: Option<RefRun>,
    pub rrss_out: Vec<u8>,
    pub rrss_err: Option<String>,
}

fn show(bytes: &[u8]) -> String {
    let s = String::from_utf8_lossy(bytes);
    if s.len() > 1500 {
        format!("{}…", s.chars().take(1500).collect::<String>())
    } else {
        s.to_string()
    }
}

/// Render `tree`, parse it with rrss, run the reference model and rrss on `stdin`, compare
/// stdout and the Ok/Err class (history + model oracle). `what` prefixes violation signatures.
pub fn exec_compare(
    ctx: &mut Ctx,
    what: &str,
    tree: &Program,
    stdin: &[u8],
    sp: &Spelling,
    rng: &mut Rng,
) -> Compared {
    let rendered = match render(tree, sp, rng) {
        Ok(r) => r,
        Err(e) => {
            ctx.count("generator_inexpressible");
            ctx.seen("generator_inexpressible_reasons", &e.0);
            return Compared { verdict: Verdict::NotRun, text: String::new(), model: None, rrss_out: vec![], rrss_err: None };
        }
    };
    let text = rendered.text;
    exec_compare_text(ctx, what, tree, &text, stdin)
}

pub fn exec_compare_text(ctx: &mut Ctx, what: &str, tree: &Program, text: &str, stdin: &[u8]) -> Compared {
    let mk = |verdict, model, out: Vec<u8>, err| Compared { verdict, text: text.to_string(), model, rrss_out: out, rrss_err: err };
    let case = |extra: Json| {
        Json::obj()
            .with("src", Json::s(text))
            .with("stdin", Json::s(String::from_utf8_lossy(stdin).to_string()))
            .with("observed", extra)
    };
    // reference first: programs outside the budget are discarded before rrss runs
    let model = refi::run(tree, stdin, &refi::Budget::default());
    if ctx.verbose {
        eprintln!("--- case source ---\n{}\n--- model: {:?} / {:?}", text, model.outcome, String::from_utf8_lossy(&model.out));
    }
    if let RefOutcome::OverBudget(w) = &model.outcome {
        ctx.count("discarded_over_budget");
        ctx.seen("discard_reasons", w);
        return mk(Verdict::Discarded, Some(model), vec![], None);
    }
    if let RefOutcome::DontCare(w) = &model.outcome {
        // The model stopped at a region the properties leave open and cannot tell whether the rest
        // of the run stays within the resource budget: rrss is not run (C09 covers crash-freedom
        // of such programs with its own resource handling).
        ctx.count("dont_care_runs");
        ctx.seen("dont_care_reasons", w);
        return mk(Verdict::DontCare, Some(model), vec![], None);
    }
    let parsed = match crate::mon::parse_guarded(text, 1000, true) {
        Err(p) => {
            ctx.sites.absorb();
            ctx.panic_outcome(&format!("{}:parse", what), &p, case(Json::Null));
            return mk(Verdict::Violation, Some(model), vec![], None);
        }
        Ok(r) => r,
    };
    ctx.sites.absorb();
    let prog = match parsed.result {
        Ok(p) => p,
        Err(e) => {
            // a generated valid program that is rejected is C02's violation; here the case is unusable
            ctx.count("valid_program_rejected_by_parser");
            ctx.violation(
                &format!("{}:valid_program_rejected:{}", what, e.code),
                &format!("generated program does not parse: {}", e.text),
                case(Json::s(&e.text)),
            );
            return mk(Verdict::Violation, Some(model), vec![], None);
        }
    };
    if crate::conv::program(&prog) != *tree {
        ctx.count("parsed_tree_differs_from_generated");
        ctx.violation(
            &format!("{}:parsed_tree_differs", what),
            "the program parsed to a different tree than the one generated (see C02)",
            case(Json::s(format!("{:?}", crate::conv::program(&prog)).chars().take(1500).collect::<String>())),
        );
        return mk(Verdict::Violation, Some(model), vec![], None);
    }
    let opts = ExecOpts {
        fuel: model.steps.saturating_mul(8) + 1000,
        log_events: ctx.log_events,
        log_dict: false,
        trap: true,
    };
    ctx.eval();
    let out = crate::mon::exec_guarded(&prog, stdin, &opts);
    ctx.sites.absorb();
    match out {
        ExecOutcome::Panicked(p, partial) => {
            let c = case(Json::s(show(&partial)));
            ctx.panic_outcome(&format!("{}:exec", what), &p, c);
            mk(Verdict::Violation, Some(model), partial, None)
        }
        ExecOutcome::Done(run) => {
            ctx.max("max_statements_executed", run.stmts);
            let want_err = matches!(model.outcome, RefOutcome::Error(_));
            let got_err = run.result.is_err();
            if let Some(k) = &run.err_kind {
                ctx.seen("rrss_error_kinds", k);
            }
            let observed = Json::obj()
                .with("expected_stdout", Json::s(show(&model.out)))
                .with("rrss_stdout", Json::s(show(&run.stdout)))
                .with("expected_outcome", Json::s(format!("{:?}", model.outcome)))
                .with("rrss_result", Json::s(format!("{:?}", run.result)));
            if run.stdout != model.out {
                // locate the first differing line for the signature class
                let exp = String::from_utf8_lossy(&model.out).to_string();
                let got = String::from_utf8_lossy(&run.stdout).to_string();
                let k = exp.lines().zip(got.lines()).position(|(a, b)| a != b);
                let class = match k {
                    Some(_) => "line_differs",
                    None => {
                        if got.lines().count() < exp.lines().count() {
                            "output_missing"
                        } else {
                            "extra_output"
                        }
                    }
                };
                ctx.violation(
                    &format!("{}:stdout:{}", what, class),
                    &format!(
                        "first difference at line {:?}\nexpected: {:?}\n     got: {:?}\nmodel outcome {:?}, rrss {:?}",
                        k.map(|k| k + 1),
                        k.and_then(|k| exp.lines().nth(k)).unwrap_or("<end>"),
                        k.and_then(|k| got.lines().nth(k)).unwrap_or("<end>"),
                        model.outcome,
                        run.result
                    ),
                    case(observed),
                );
                return mk(Verdict::Violation, Some(model), run.stdout, run.result.err());
            }
            if want_err != got_err {
                let sig = if want_err {
                    format!("{}:missing_runtime_error:{}", what, match &model.outcome { RefOutcome::Error(k) => k.clone(), _ => String::new() })
                } else {
                    format!("{}:unexpected_runtime_error:{}", what, run.err_kind.clone().unwrap_or_default())
                };
                ctx.violation(
                    &sig,
                    &format!("model outcome {:?}, rrss result {:?}", model.outcome, run.result),
                    case(observed),
                );
                return mk(Verdict::Violation, Some(model), run.stdout, run.result.err());
            }
            if run.stmts != model.stmts {
                ctx.violation(
                    &format!("{}:statements_executed_differ:{}", what, if run.stmts > model.stmts { "more" } else { "fewer" }),
                    &format!("rrss started {} statements, the model {} (same output and outcome)", run.stmts, model.stmts),
                    case(observed),
                );
                return mk(Verdict::Violation, Some(model), run.stdout, run.result.err());
            }
            ctx.add("statements_matched", run.stmts);
            if ctx.log_events {
                if let Some((sig, detail)) = h3_invariants(&run.events, run.result.is_ok()) {
                    ctx.violation(&format!("{}:h3:{}", what, sig), &detail, case(observed));
                    return mk(Verdict::Violation, Some(model), run.stdout, run.result.err());
                }
                ctx.add("h3_events_checked", run.events.len() as u64);
            }
            if want_err {
                ctx.count("error_outcomes_agreed");
            } else {
                ctx.count("ok_outcomes_agreed");
            }
            ctx.add("output_lines_compared", model.says);
            mk(Verdict::Agree, Some(model), run.stdout, run.result.err())
        }
    }
}

/// Invariants over the statement-boundary events of one run (H3):
/// * a loop statement never completes in state Breaking / Continuing (the loop consumes them);
/// * the scope depth after a statement equals the depth before it;
/// * a statement at the outermost block of a run without functions starts at depth 1.
pub fn h3_invariants(events: &[rrss::verif::StmtEvent], ok: bool) -> Option<(String, String)> {
    use rrss::verif::{Flow, Phase};
    let mut stack: Vec<&rrss::verif::StmtEvent> = Vec::new();
    for (i, e) in events.iter().enumerate() {
        match e.phase {
            Phase::Before => stack.push(e),
            Phase::After => {
                let b = match stack.pop() {
                    Some(b) => b,
                    None => return Some(("unbalanced_events".into(), format!("After without Before at event {}", i))),
                };
                if b.kind != e.kind {
                    return Some(("unbalanced_events".into(), format!("Before {} closed by After {} at event {}", b.kind, e.kind, i)));
                }
                if b.scope_depth != e.scope_depth {
                    return Some((
                        format!("scope_depth_changed_across:{}", e.kind),
                        format!("scope depth {} before and {} after a {} statement (event {})", b.scope_depth, e.scope_depth, e.kind, i),
                    ));
                }
                if (e.kind == "While" || e.kind == "Until") && matches!(e.flow, Flow::Breaking | Flow::Continuing) {
                    return Some((
                        format!("loop_left_in_state:{:?}", e.flow),
                        format!("a {} statement completed in control-flow state {:?} (event {})", e.kind, e.flow, i),
                    ));
                }
                if b.flow != Flow::Normal {
                    return Some((
                        format!("statement_started_in_state:{:?}", b.flow),
                        format!("a {} statement started while the state was {:?} (event {})", b.kind, b.flow, i),
                    ));
                }
            }
        }
    }
    if ok && !stack.is_empty() {
        return Some(("unbalanced_events".into(), format!("{} statements never completed in a successful run", stack.len())));
    }
    None
}
