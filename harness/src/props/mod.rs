//! One module per property: workload + oracle + evidence counters.

use crate::ctx::Ctx;
use crate::json::Json;

pub mod c01;

pub fn run(ctx: &mut Ctx) -> bool {
    match ctx.prop.as_str() {
        "C01" => c01::run(ctx),
        _ => return false,
    }
    true
}

pub fn case_src(src: &str) -> Json {
    Json::obj().with("src", Json::s(src))
}

pub fn case_src_in(src: &str, stdin: &[u8]) -> Json {
    Json::obj()
        .with("src", Json::s(src))
        .with("stdin", Json::s(String::from_utf8_lossy(stdin).to_string()))
}
