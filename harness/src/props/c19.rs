//! C19 — lint reports are complete, ordered by line, and linting never fails.

use crate::conv;
use crate::corpus;
use crate::ctx::Ctx;
use crate::gen::SynGen;
use crate::json::Json;
use crate::mast as m;
use crate::mon::{self, DiagRec, LintWhich};
use crate::render::{render, Spelling};
use crate::rng::{hash_str, Rng};
use rrss::analysis::visit::{self, Combine, ExprVisitorRunner, Visit, VisitExpr, VisitProgram};
use rrss::frontend::ast::*;
use rrss::frontend::source_range::{Line, SourceRange};
use rrss::linter::render::Render;

#[derive(Clone, Debug, PartialEq)]
enum Role {
    Plain,
    Callee,
    Definition,
}

#[derive(Clone, Debug)]
struct Mention {
    text: String,
    line: u32,
    role: Role,
}

#[derive(Default)]
struct Unit;
impl Combine for Unit {
    fn combine(self, _: Self) -> Self {
        Unit
    }
}

/// records every variable-name mention in traversal order (the traversal itself is rrss's own
/// default one — C16 checks it; only calls are re-dispatched here to tell callee names apart)
struct MentionRecorder {
    mentions: Vec<Mention>,
    definition_ranges: Vec<SourceRange>,
    next_is_callee: bool,
}

impl Visit for MentionRecorder {
    type Output = Unit;
    type Error = ();
}

impl VisitExpr for MentionRecorder {
    fn visit_variable_name(&mut self, n: WithRange<&VariableName>) -> visit::Result<Self> {
        let role = if self.next_is_callee {
            Role::Callee
        } else if self.definition_ranges.contains(&n.1) {
            Role::Definition
        } else {
            Role::Plain
        };
        self.next_is_callee = false;
        self.mentions.push(Mention { text: n.0.render(), line: n.line(), role });
        Ok(Unit)
    }
    fn visit_function_call(&mut self, f: &FunctionCall) -> visit::Result<Self> {
        self.next_is_callee = true;
        self.visit_variable_name(f.name.as_ref())?;
        for a in &f.args {
            self.visit_expression(a)?;
        }
        Ok(Unit)
    }
}

fn definition_ranges(b: &Block, out: &mut Vec<SourceRange>) {
    if let Block::NonEmpty(ss) = b {
        for s in ss {
            match s {
                Statement::Function(f) => {
                    out.push(f.name.1.clone());
                    for p in &f.data.params {
                        out.push(p.1.clone());
                    }
                    definition_ranges(&f.data.body, out);
                }
                Statement::If(i) => {
                    definition_ranges(&i.then_block, out);
                    if let Some(e) = &i.else_block {
                        definition_ranges(e, out);
                    }
                }
                Statement::While(w) => definition_ranges(&w.block, out),
                Statement::Until(u) => definition_ranges(&u.block, out),
                _ => {}
            }
        }
    }
}

#[derive(Clone, Copy, Debug, PartialEq)]
enum Class {
    Must,
    MustNot,
    DontCare,
}

fn classify(ms: &[Mention]) -> Vec<Class> {
    let mut out = Vec::new();
    for (i, m) in ms.iter().enumerate() {
        if m.role == Role::Callee {
            out.push(Class::MustNot);
            continue;
        }
        if i == 0 {
            out.push(Class::MustNot);
            continue;
        }
        let p = &ms[i - 1];
        let same = p.text == m.text;
        let same_ignoring_case = p.text.to_lowercase() == m.text.to_lowercase();
        let c = if !same_ignoring_case {
            Class::MustNot
        } else if !same {
            Class::DontCare
        } else if p.role == Role::Callee || p.role == Role::Definition || m.role == Role::Definition {
            Class::DontCare
        } else {
            Class::Must
        };
        out.push(c);
    }
    out
}

fn same_diags(a: &[DiagRec], b: &[DiagRec]) -> bool {
    a == b
}

pub fn check_program(ctx: &mut Ctx, prog: &Program, src: &str, origin: &str) {
    ctx.eval();
    ctx.count(&format!("programs_linted.{}", origin));
    let case = || Json::obj().with("src", Json::s(src)).with("origin", Json::s(origin));
    let before = format!("{:?}", prog);
    let std = match mon::lint_guarded(prog, LintWhich::Standard) {
        Ok(d) => d,
        Err(p) => {
            ctx.sites.absorb();
            ctx.panic_outcome("lint", &p, case());
            return;
        }
    };
    let boring = mon::lint_guarded(prog, LintWhich::Boring);
    let pronoun = mon::lint_guarded(prog, LintWhich::Pronoun);
    ctx.sites.absorb();
    let (boring, pronoun) = match (boring, pronoun) {
        (Ok(b), Ok(p)) => (b, p),
        (Err(p), _) | (_, Err(p)) => {
            ctx.panic_outcome("lint_single_pass", &p, case());
            return;
        }
    };
    if format!("{:?}", prog) != before {
        ctx.violation("program_changed_by_linting", "the debug rendering of the program differs after Linter::run", case());
        return;
    }
    ctx.add("diagnostics", std.len() as u64);
    // combined = stable sort by line of (pass 1 ++ pass 2)
    let mut want: Vec<DiagRec> = boring.iter().cloned().chain(pronoun.iter().cloned()).collect();
    want.sort_by_key(|d| d.line);
    if !same_diags(&std, &want) {
        let k = std.iter().zip(want.iter()).position(|(a, b)| a != b).unwrap_or(std.len().min(want.len()));
        let class = if std.len() != want.len() {
            "diagnostics_lost_or_duplicated"
        } else if {
            let mut a: Vec<String> = std.iter().map(|d| format!("{:?}", d)).collect();
            let mut b: Vec<String> = want.iter().map(|d| format!("{:?}", d)).collect();
            a.sort();
            b.sort();
            a != b
        } {
            "diagnostics_differ"
        } else {
            "order_differs"
        };
        ctx.violation(
            &format!("combined_report:{}", class),
            &format!(
                "combined run has {} diagnostics, the single passes {}+{}; first difference at #{}: {:?} vs {:?}",
                std.len(),
                boring.len(),
                pronoun.len(),
                k,
                std.get(k).map(|d| (d.line, &d.issue)),
                want.get(k).map(|d| (d.line, &d.issue))
            ),
            case(),
        );
        return;
    }
    // ties between the passes on one line
    for w in std.windows(2) {
        if w[0].line == w[1].line && w[0].issue.starts_with("Assignment") != w[1].issue.starts_with("Assignment") {
            ctx.count("line_ties_between_passes");
        }
    }
    // the repeated-identifier rule
    let mut rec = MentionRecorder { mentions: Vec::new(), definition_ranges: Vec::new(), next_is_callee: false };
    for b in &prog.code {
        definition_ranges(b, &mut rec.definition_ranges);
    }
    let mut runner = ExprVisitorRunner::with_inner(rec);
    let _ = runner.visit_program(prog);
    let rec = runner.inner();
    let classes = classify(&rec.mentions);
    let key = |line: u32, text: &str| format!("{}\u{1}{}", line, text);
    let mut must: std::collections::BTreeMap<String, (usize, usize)> = Default::default();
    for (m, c) in rec.mentions.iter().zip(classes.iter()) {
        let e = must.entry(key(m.line, &m.text)).or_insert((0, 0));
        match c {
            Class::Must => {
                e.0 += 1;
                ctx.count("mentions.must_report");
            }
            Class::DontCare => {
                e.1 += 1;
                ctx.count("mentions.dont_care");
            }
            Class::MustNot => ctx.count("mentions.must_not_report"),
        }
    }
    let mut got: std::collections::BTreeMap<String, usize> = Default::default();
    for d in &pronoun {
        let name = d.issue.split('`').nth(1).unwrap_or("").to_string();
        *got.entry(key(d.line, &name)).or_insert(0) += 1;
    }
    for (k, n) in &got {
        let (lo, extra) = must.get(k).copied().unwrap_or((0, 0));
        if *n > lo + extra {
            let mut it = k.split('\u{1}');
            ctx.violation(
                "repeated_identifier:reported_a_mention_that_does_not_repeat",
                &format!("line {} name `{}`: {} reports, the rule allows at most {}", it.next().unwrap_or(""), it.next().unwrap_or(""), n, lo + extra),
                case(),
            );
            return;
        }
    }
    for (k, (lo, _)) in &must {
        if got.get(k).copied().unwrap_or(0) < *lo {
            let mut it = k.split('\u{1}');
            ctx.violation(
                "repeated_identifier:missed_a_repeated_mention",
                &format!("line {} name `{}`: {} reports, the rule demands at least {}", it.next().unwrap_or(""), it.next().unwrap_or(""), got.get(k).copied().unwrap_or(0), lo),
                case(),
            );
            return;
        }
    }
    ctx.count("programs_rule_checked");
    if !std.is_empty() {
        ctx.nontrivial(hash_str(src));
    }
}

/// programs with repeated mentions in every position
fn repeating_program(rng: &mut Rng) -> m::Program {
    let mut g = SynGen::new(rng);
    g.max_block_depth = 2;
    g.max_expr_depth = 3;
    g.wild_strings = false;
    g.pronoun_den = 8;
    // few names => many repeats; mixed kinds and cases of the same variable
    let base = g.names[0].clone();
    let other_case = match &base {
        m::Name::Simple(s) => m::Name::Simple(s.to_uppercase()),
        m::Name::Common(p, w) => m::Name::Common(p.to_uppercase(), w.clone()),
        m::Name::Proper(ws) => m::Name::Proper(ws.iter().map(|w| crate::gen::upper_first(&w.to_lowercase())).collect()),
    };
    g.names = vec![base.clone(), base, other_case, g.names[1].clone()];
    g.funcs = vec![g.names[0].clone(), g.names[3].clone()];
    g.program()
}

pub fn run(ctx: &mut Ctx) {
    let n = ctx.size(20_000, 600_000);
    ctx.cases("repeats", n, |ctx, rng, _| {
        let tree = repeating_program(rng);
        let mut sp = Spelling::mild(rng);
        sp.multiline_comments = rng.chance(1, 4);
        sp.comments = sp.comments || sp.multiline_comments;
        if let Ok(r) = render(&tree, &sp, rng) {
            if let Ok(prog) = mon::parse_quiet(&r.text) {
                if ctx.samples.len() < 3 && r.text.len() < 400 {
                    if let Ok(d) = mon::lint_guarded(&prog, LintWhich::Standard) {
                        if d.len() >= 2 {
                            ctx.sample(Json::obj().with("src", Json::s(&r.text)).with("diagnostics", Json::Arr(d.iter().map(|x| Json::s(format!("line {}: {}", x.line, x.issue))).collect())));
                        }
                    }
                }
                check_program(ctx, &prog, &r.text, "repeats");
            }
        }
    });
    // every parsed program of the other campaigns: linting never fails
    let n = ctx.size(10_000, 300_000);
    ctx.cases("boring", n, |ctx, rng, _| {
        // programs dense in constant assignments (line ties between the passes)
        let tree = {
            let mut g = SynGen::new(rng);
            g.max_block_depth = 1;
            g.names.truncate(2);
            g.wild_strings = false;
            let mut p = g.program();
            for b in p.blocks.iter_mut() {
                let nm = g.names[0].clone();
                b.insert(0, m::put(m::num(g.rng.below(9) as f64 - 3.0), &nm));
                b.insert(1, m::put(m::var(&nm), &nm));
            }
            p
        };
        if let Ok(r) = render(&tree, &Spelling::mild(rng), rng) {
            if let Ok(prog) = mon::parse_quiet(&r.text) {
                check_program(ctx, &prog, &r.text, "boring");
            }
        }
    });
    let n = ctx.size(30_000, 1_000_000);
    ctx.cases("soup", n, |ctx, rng, _| {
        let s = if rng.coin() { corpus::soup(rng, 300) } else { let p = { let mut g = SynGen::new(rng); g.program() }; render(&p, &Spelling::wild(rng), rng).map(|r| corpus::mutate(rng, &r.text)).unwrap_or_default() };
        if let Ok(prog) = mon::parse_quiet(&s) {
            if !prog.code.is_empty() {
                check_program(ctx, &prog, &s, "accepted_soup_or_mutant");
            }
        }
    });
    let n = ctx.size(6_000, 200_000);
    ctx.cases("ill_typed", n, |ctx, rng, _| {
        let mut p = match rng.below(3) {
            0 => crate::props::c05::program(rng).0,
            1 => crate::props::c06::history(rng, 6).tree,
            _ => crate::props::c04::program(rng).0,
        };
        crate::props::c09::mutate_tree(rng, &mut p);
        if let Ok(r) = render(&p, &Spelling::canonical(), rng) {
            if let Ok(prog) = mon::parse_quiet(&r.text) {
                check_program(ctx, &prog, &r.text, "ill_typed");
            }
        }
    });
    let _ = conv::program;
}
