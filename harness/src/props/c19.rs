//! C19 — lint reports are complete, ordered by line, and linting never fails.

use crate::conv;
use crate::corpus;
use crate::ctx::Ctx;
use crate::gen::SynGen;
use crate::json::Json;
use crate::mast as m;
use crate::mon::{self, DiagRec, LintWhich};
use crate::render::{render, Spelling};
use crate::rng::{hash_str, Rng};
use rrss::frontend::ast::*;
use rrss::frontend::source_range::Line;
use rrss::linter::render::Render;

#[derive(Clone, Debug, PartialEq)]
enum Role {
    Plain,
    Callee,
    Definition,
}

#[derive(Clone, Debug)]
struct Mention {
    text: String,
    line: u32,
    role: Role,
}

/// Every variable-name mention in traversal order = field order (C16 pins that order for the visitor
/// framework; this walk is written against the syntax tree directly, NOT through rrss's visitors, so a
/// traversal that presents nodes to the passes in another order shows up here as wrong reports).
struct Mentions(Vec<Mention>);

impl Mentions {
    fn name(&mut self, n: &WithRange<VariableName>, role: Role) {
        self.0.push(Mention { text: n.0.render(), line: n.as_ref().line(), role });
    }
    fn ident(&mut self, i: &WithRange<Identifier>) {
        if let Identifier::VariableName(v) = &i.0 {
            self.0.push(Mention { text: v.render(), line: i.1.line(), role: Role::Plain });
        }
    }
    fn prim(&mut self, p: &PrimaryExpression) {
        match p {
            PrimaryExpression::Literal(_) => {}
            PrimaryExpression::Identifier(i) => self.ident(i),
            PrimaryExpression::ArraySubscript(a) => self.sub(a),
            PrimaryExpression::FunctionCall(f) => self.call(f),
            PrimaryExpression::ArrayPop(a) => self.prim(&a.array),
        }
    }
    fn sub(&mut self, a: &ArraySubscript) {
        self.prim(&a.array);
        self.prim(&a.subscript);
    }
    fn call(&mut self, f: &FunctionCall) {
        self.name(&f.name, Role::Callee);
        for a in &f.args {
            self.expr(a);
        }
    }
    fn expr(&mut self, e: &Expression) {
        match e {
            Expression::PrimaryExpression(p) => self.prim(p),
            Expression::BinaryExpression(b) => {
                self.expr(&b.lhs);
                self.list(&b.rhs);
            }
            Expression::UnaryExpression(u) => self.expr(&u.operand),
        }
    }
    fn list(&mut self, l: &ExpressionList) {
        for e in l.iter() {
            self.expr(e);
        }
    }
    fn lhs(&mut self, l: &AssignmentLHS) {
        match l {
            AssignmentLHS::Identifier(i) => self.ident(i),
            AssignmentLHS::ArraySubscript(a) => self.sub(a),
        }
    }
    fn block(&mut self, b: &Block) {
        if let Block::NonEmpty(ss) = b {
            for s in ss {
                self.stmt(s);
            }
        }
    }
    fn stmt(&mut self, s: &Statement) {
        match s {
            Statement::Assignment(a) => {
                self.lhs(&a.dest);
                match &a.value {
                    AssignmentRHS::ExpressionList(l) => self.list(l),
                }
            }
            Statement::PoeticAssignment(PoeticAssignment::Number(a)) => {
                self.lhs(&a.dest);
                if let PoeticNumberAssignmentRHS::Expression(e) = &a.rhs {
                    self.expr(e);
                }
            }
            Statement::PoeticAssignment(PoeticAssignment::String(a)) => self.lhs(&a.dest),
            Statement::If(i) => {
                self.expr(&i.condition);
                self.block(&i.then_block);
                if let Some(e) = &i.else_block {
                    self.block(e);
                }
            }
            Statement::While(w) => {
                self.expr(&w.condition);
                self.block(&w.block);
            }
            Statement::Until(u) => {
                self.expr(&u.condition);
                self.block(&u.block);
            }
            Statement::Inc(i) => self.ident(&i.dest),
            Statement::Dec(d) => self.ident(&d.dest),
            Statement::Input(i) => {
                if let Some(d) = i.dest.opt() {
                    self.lhs(d);
                }
            }
            Statement::Output(o) => self.expr(&o.value),
            Statement::Mutation(m) => {
                self.prim(&m.operand);
                if let Some(d) = &m.dest {
                    self.lhs(d);
                }
                if let Some(p) = &m.param {
                    self.expr(p);
                }
            }
            Statement::Rounding(r) => self.expr(&r.operand),
            Statement::Continue(_) | Statement::Break(_) => {}
            Statement::ArrayPush(a) => {
                self.prim(&a.array);
                if let Some(ArrayPushRHS::ExpressionList(l)) = &a.value {
                    self.list(l);
                }
            }
            Statement::ArrayPop(a) => {
                self.prim(&a.expr.array);
                if let Some(d) = &a.dest {
                    self.lhs(d);
                }
            }
            Statement::Return(r) => self.expr(&r.value),
            Statement::Function(f) => {
                self.name(&f.name, Role::Definition);
                for p in &f.data.params {
                    self.name(p, Role::Definition);
                }
                self.block(&f.data.body);
            }
            Statement::FunctionCall(f) => self.call(f),
        }
    }
}

#[derive(Clone, Copy, Debug, PartialEq)]
enum Class {
    Must,
    MustNot,
    DontCare,
}

fn classify(ms: &[Mention]) -> Vec<Class> {
    let mut out = Vec::new();
    for (i, m) in ms.iter().enumerate() {
        if m.role == Role::Callee {
            out.push(Class::MustNot);
            continue;
        }
        if i == 0 {
            out.push(Class::MustNot);
            continue;
        }
        let p = &ms[i - 1];
        let same = p.text == m.text;
        let same_ignoring_case = p.text.to_lowercase() == m.text.to_lowercase();
        let c = if !same_ignoring_case {
            Class::MustNot
        } else if !same {
            Class::DontCare
        } else if p.role == Role::Callee || p.role == Role::Definition || m.role == Role::Definition {
            Class::DontCare
        } else {
            Class::Must
        };
        out.push(c);
    }
    out
}

fn same_diags(a: &[DiagRec], b: &[DiagRec]) -> bool {
    a == b
}

pub fn check_program(ctx: &mut Ctx, prog: &Program, src: &str, origin: &str) {
    ctx.eval();
    ctx.count(&format!("programs_linted.{}", origin));
    let case = || Json::obj().with("src", Json::s(src)).with("origin", Json::s(origin));
    let before = format!("{:?}", prog);
    let std = match mon::lint_guarded(prog, LintWhich::Standard) {
        Ok(d) => d,
        Err(p) => {
            ctx.sites.absorb();
            ctx.panic_outcome("lint", &p, case());
            return;
        }
    };
    let boring = mon::lint_guarded(prog, LintWhich::Boring);
    let pronoun = mon::lint_guarded(prog, LintWhich::Pronoun);
    ctx.sites.absorb();
    let (boring, pronoun) = match (boring, pronoun) {
        (Ok(b), Ok(p)) => (b, p),
        (Err(p), _) | (_, Err(p)) => {
            ctx.panic_outcome("lint_single_pass", &p, case());
            return;
        }
    };
    if format!("{:?}", prog) != before {
        ctx.violation("program_changed_by_linting", "the debug rendering of the program differs after Linter::run", case());
        return;
    }
    // a Linter value that has linted the programs before this one reports what a fresh one reports
    {
        thread_local! {
            static REUSED: std::cell::RefCell<mon::ReusedLinter> = std::cell::RefCell::new(mon::ReusedLinter::new());
        }
        let again = REUSED.with(|l| l.borrow_mut().run(prog));
        ctx.sites.absorb();
        match again {
            Ok(d) if same_diags(&d, &std) => ctx.count("programs_linted_with_a_reused_linter"),
            Ok(d) => {
                let k = d.iter().zip(std.iter()).position(|(a, b)| a != b).unwrap_or(d.len().min(std.len()));
                ctx.violation(
                    "reused_linter_differs",
                    &format!(
                        "a linter used for other programs before reports {} diagnostics, a fresh one {}; first difference at #{}: {:?} vs {:?}",
                        d.len(),
                        std.len(),
                        k,
                        d.get(k).map(|x| (x.line, &x.issue)),
                        std.get(k).map(|x| (x.line, &x.issue))
                    ),
                    case(),
                );
                return;
            }
            Err(p) => {
                ctx.panic_outcome("lint_reused", &p, case());
                return;
            }
        }
    }
    ctx.add("diagnostics", std.len() as u64);
    // combined = stable sort by line of (pass 1 ++ pass 2)
    let mut want: Vec<DiagRec> = boring.iter().cloned().chain(pronoun.iter().cloned()).collect();
    want.sort_by_key(|d| d.line);
    if !same_diags(&std, &want) {
        let k = std.iter().zip(want.iter()).position(|(a, b)| a != b).unwrap_or(std.len().min(want.len()));
        let class = if std.len() != want.len() {
            "diagnostics_lost_or_duplicated"
        } else if {
            let mut a: Vec<String> = std.iter().map(|d| format!("{:?}", d)).collect();
            let mut b: Vec<String> = want.iter().map(|d| format!("{:?}", d)).collect();
            a.sort();
            b.sort();
            a != b
        } {
            "diagnostics_differ"
        } else {
            "order_differs"
        };
        ctx.violation(
            &format!("combined_report:{}", class),
            &format!(
                "combined run has {} diagnostics, the single passes {}+{}; first difference at #{}: {:?} vs {:?}",
                std.len(),
                boring.len(),
                pronoun.len(),
                k,
                std.get(k).map(|d| (d.line, &d.issue)),
                want.get(k).map(|d| (d.line, &d.issue))
            ),
            case(),
        );
        return;
    }
    // ties between the passes on one line
    for w in std.windows(2) {
        if w[0].line == w[1].line && w[0].issue.starts_with("Assignment") != w[1].issue.starts_with("Assignment") {
            ctx.count("line_ties_between_passes");
        }
    }
    // the repeated-identifier rule
    let mut rec = Mentions(Vec::new());
    for b in &prog.code {
        rec.block(b);
    }
    let classes = classify(&rec.0);
    let key = |line: u32, text: &str| format!("{}\u{1}{}", line, text);
    let mut must: std::collections::BTreeMap<String, (usize, usize)> = Default::default();
    for (m, c) in rec.0.iter().zip(classes.iter()) {
        let e = must.entry(key(m.line, &m.text)).or_insert((0, 0));
        match c {
            Class::Must => {
                e.0 += 1;
                ctx.count("mentions.must_report");
            }
            Class::DontCare => {
                e.1 += 1;
                ctx.count("mentions.dont_care");
            }
            Class::MustNot => ctx.count("mentions.must_not_report"),
        }
    }
    let mut got: std::collections::BTreeMap<String, usize> = Default::default();
    for d in &pronoun {
        let name = d.issue.split('`').nth(1).unwrap_or("").to_string();
        *got.entry(key(d.line, &name)).or_insert(0) += 1;
    }
    for (k, n) in &got {
        let (lo, extra) = must.get(k).copied().unwrap_or((0, 0));
        if *n > lo + extra {
            let mut it = k.split('\u{1}');
            ctx.violation(
                "repeated_identifier:reported_a_mention_that_does_not_repeat",
                &format!("line {} name `{}`: {} reports, the rule allows at most {}", it.next().unwrap_or(""), it.next().unwrap_or(""), n, lo + extra),
                case(),
            );
            return;
        }
    }
    for (k, (lo, _)) in &must {
        if got.get(k).copied().unwrap_or(0) < *lo {
            let mut it = k.split('\u{1}');
            ctx.violation(
                "repeated_identifier:missed_a_repeated_mention",
                &format!("line {} name `{}`: {} reports, the rule demands at least {}", it.next().unwrap_or(""), it.next().unwrap_or(""), got.get(k).copied().unwrap_or(0), lo),
                case(),
            );
            return;
        }
    }
    ctx.count("programs_rule_checked");
    if !std.is_empty() {
        ctx.nontrivial(hash_str(src));
    }
}

/// programs with repeated mentions in every position
fn repeating_program(rng: &mut Rng) -> m::Program {
    let mut g = SynGen::new(rng);
    g.max_block_depth = 2;
    g.max_expr_depth = 3;
    g.wild_strings = false;
    g.pronoun_den = 8;
    // few names => many repeats; mixed kinds and cases of the same variable
    let base = g.names[0].clone();
    let other_case = match &base {
        m::Name::Simple(s) => m::Name::Simple(s.to_uppercase()),
        m::Name::Common(p, w) => m::Name::Common(p.to_uppercase(), w.clone()),
        m::Name::Proper(ws) => m::Name::Proper(ws.iter().map(|w| crate::gen::upper_first(&w.to_lowercase())).collect()),
    };
    g.names = vec![base.clone(), base, other_case, g.names[1].clone()];
    g.funcs = vec![g.names[0].clone(), g.names[3].clone()];
    g.program()
}

pub fn run(ctx: &mut Ctx) {
    let n = ctx.size(20_000, 600_000);
    ctx.cases("repeats", n, |ctx, rng, _| {
        let tree = repeating_program(rng);
        let mut sp = Spelling::mild(rng);
        sp.multiline_comments = rng.chance(1, 4);
        sp.comments = sp.comments || sp.multiline_comments;
        if let Ok(r) = render(&tree, &sp, rng) {
            if let Ok(prog) = mon::parse_quiet(&r.text) {
                if ctx.samples.len() < 3 && r.text.len() < 400 {
                    if let Ok(d) = mon::lint_guarded(&prog, LintWhich::Standard) {
                        if d.len() >= 2 {
                            ctx.sample(Json::obj().with("src", Json::s(&r.text)).with("diagnostics", Json::Arr(d.iter().map(|x| Json::s(format!("line {}: {}", x.line, x.issue))).collect())));
                        }
                    }
                }
                check_program(ctx, &prog, &r.text, "repeats");
            }
        }
    });
    // every parsed program of the other campaigns: linting never fails
    let n = ctx.size(10_000, 300_000);
    ctx.cases("boring", n, |ctx, rng, _| {
        // programs dense in constant assignments (line ties between the passes)
        let tree = {
            let mut g = SynGen::new(rng);
            g.max_block_depth = 1;
            g.names.truncate(2);
            g.wild_strings = false;
            let mut p = g.program();
            for b in p.blocks.iter_mut() {
                let nm = g.names[0].clone();
                b.insert(0, m::put(m::num(g.rng.below(9) as f64 - 3.0), &nm));
                b.insert(1, m::put(m::var(&nm), &nm));
            }
            p
        };
        if let Ok(r) = render(&tree, &Spelling::mild(rng), rng) {
            if let Ok(prog) = mon::parse_quiet(&r.text) {
                check_program(ctx, &prog, &r.text, "boring");
            }
        }
    });
    let n = ctx.size(30_000, 1_000_000);
    ctx.cases("soup", n, |ctx, rng, _| {
        let s = if rng.coin() { corpus::soup(rng, 300) } else { let p = { let mut g = SynGen::new(rng); g.program() }; render(&p, &Spelling::wild(rng), rng).map(|r| corpus::mutate(rng, &r.text)).unwrap_or_default() };
        if let Ok(prog) = mon::parse_quiet(&s) {
            if !prog.code.is_empty() {
                check_program(ctx, &prog, &s, "accepted_soup_or_mutant");
            }
        }
    });
    let n = ctx.size(6_000, 200_000);
    ctx.cases("ill_typed", n, |ctx, rng, _| {
        let mut p = match rng.below(3) {
            0 => crate::props::c05::program(rng).0,
            1 => crate::props::c06::history(rng, 6).tree,
            _ => crate::props::c04::program(rng).0,
        };
        crate::props::c09::mutate_tree(rng, &mut p);
        if let Ok(r) = render(&p, &Spelling::canonical(), rng) {
            if let Ok(prog) = mon::parse_quiet(&r.text) {
                check_program(ctx, &prog, &r.text, "ill_typed");
            }
        }
    });
    let _ = conv::program;
}
