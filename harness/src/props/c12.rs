//! C12 — tokens carry their exact spelling and true source position.
//!
//! Oracle: positions recomputed from the source text alone, for every token of `Lexer::new(src)`;
//! for rendered programs additionally the renderer's own record of what it emitted where.

use crate::corpus;
use crate::ctx::Ctx;
use crate::gen::SynGen;
use crate::json::Json;
use crate::mon;
use crate::props::case_src;
use crate::render::{render, Rendered, Spelling};
use crate::rng::hash_str;

#[derive(Clone, Debug)]
pub struct Tok {
    pub kind: String,
    pub offset: usize,
    pub len: usize,
    pub start: (u32, u32),
    pub end: (u32, u32),
    pub in_source: bool,
}

pub fn is_ignorable(c: char) -> bool {
    (c.is_whitespace() && c != '\n') || "!#$%:;?@[\\]^`{|}~=)'".contains(c)
}

pub fn lex_all(src: &str) -> Result<Vec<Tok>, mon::PanicInfo> {
    rrss::verif::arm_lex(1000u64.saturating_mul(src.len() as u64 + 16));
    rrss::verif::set_trap(!mon::passive());
    let r = mon::guarded(|| {
        let base = src.as_ptr() as usize;
        let mut v = Vec::new();
        for t in rrss::frontend::lexer::Lexer::new(src) {
            let d = format!("{:?}", t.id);
            let kind: String = d.chars().take_while(|c| c.is_alphanumeric()).collect();
            let p = t.spelling.as_ptr() as usize;
            let in_source = p >= base && p + t.spelling.len() <= base + src.len();
            v.push(Tok {
                kind,
                offset: p.wrapping_sub(base),
                len: t.spelling.len(),
                start: (t.range.start().line, t.range.start().column),
                end: (t.range.end().line, t.range.end().column),
                in_source,
            });
        }
        v
    });
    rrss::verif::arm_lex(u64::MAX);
    rrss::verif::set_trap(false);
    r
}

fn pos_of(src: &str, off: usize) -> (u32, u32) {
    let before = &src.as_bytes()[..off];
    let line = 1 + before.iter().filter(|b| **b == b'\n').count() as u32;
    let ls = before.iter().rposition(|b| *b == b'\n').map_or(0, |i| i + 1);
    (line, (off - ls) as u32)
}

pub fn check_text(ctx: &mut Ctx, src: &str, rendered: Option<&Rendered>) {
    ctx.eval();
    let toks = match lex_all(src) {
        Ok(t) => t,
        Err(p) => {
            // totality is C01's business, but a crash here is still a failed observation of C12
            ctx.panic_outcome("lex", &p, case_src(src));
            ctx.sites.absorb();
            return;
        }
    };
    ctx.sites.absorb();
    ctx.add("tokens_checked", toks.len() as u64);
    if toks.len() >= 2 {
        ctx.nontrivial(hash_str(src));
    }
    let case = || case_src(src);
    let mut prev_end = 0usize;
    let mut prev_kind = String::new();
    let mut prev_multiline = false;
    for (i, t) in toks.iter().enumerate() {
        ctx.seen("token_types", &t.kind);
        if !t.in_source {
            ctx.violation(
                "token:not_a_slice_of_the_source",
                &format!("token #{} ({}) does not point into the source", i, t.kind),
                case(),
            );
            return;
        }
        if !src.is_char_boundary(t.offset) || !src.is_char_boundary(t.offset + t.len) {
            ctx.violation(
                "token:not_on_char_boundary",
                &format!("token #{} ({}) at {}+{}", i, t.kind, t.offset, t.len),
                case(),
            );
            return;
        }
        if t.offset < prev_end {
            ctx.violation(
                "token:overlaps_or_precedes_predecessor",
                &format!("token #{} ({}) at {} but the previous one ended at {}", i, t.kind, t.offset, prev_end),
                case(),
            );
            return;
        }
        let gap = &src[prev_end..t.offset];
        if let Some(c) = gap.chars().find(|c| !is_ignorable(*c)) {
            ctx.violation(
                "token:gap_not_ignorable",
                &format!(
                    "between token #{} and its predecessor the lexer skipped {:?} (gap {:?})",
                    i, c, gap
                ),
                case(),
            );
            return;
        }
        let text = &src[t.offset..t.offset + t.len];
        let multiline = text.contains('\n') && t.kind != "Newline";
        if multiline {
            ctx.count("multi_line_tokens");
            if !(t.kind == "StringLiteral" || t.kind == "Comment" || t.kind == "Error") {
                ctx.violation(
                    "token:newline_inside_ordinary_token",
                    &format!("token #{} ({}) {:?} contains a line break", i, t.kind, text),
                    case(),
                );
            }
        }
        let is_suffix = t.kind == "ApostropheS" || t.kind == "ApostropheRE";
        if is_suffix && t.offset == prev_end {
            ctx.count(&format!("suffix_after.{}", prev_kind));
            if prev_multiline {
                ctx.count("suffix_after_multi_line_token");
            }
        }
        // start position
        let want = pos_of(src, t.offset);
        if want.1 as usize != src[..t.offset].len() - src[..t.offset].rfind('\n').map_or(0, |x| x + 1) {
            unreachable!();
        }
        if src[..t.offset].bytes().any(|b| b >= 0x80) {
            ctx.count("tokens_after_multi_byte_chars");
        }
        if t.start != want {
            let sig = if is_suffix && prev_multiline {
                "position:suffix_after_multi_line_token"
            } else if prev_multiline {
                "position:start_after_multi_line_token"
            } else {
                "position:start"
            };
            ctx.violation(
                sig,
                &format!(
                    "token #{} ({}) {:?} at byte {}: reported start {:?}, true (line, byte column) {:?}",
                    i, t.kind, text, t.offset, t.start, want
                ),
                case(),
            );
            return;
        }
        // end position: one past the last character, on that character's line
        if !text.ends_with('\n') && t.len > 0 {
            let want_end = pos_of(src, t.offset + t.len);
            if t.end != want_end {
                ctx.violation(
                    if multiline { "position:end_of_multi_line_token" } else { "position:end" },
                    &format!(
                        "token #{} ({}) {:?}: reported end {:?}, true {:?}",
                        i, t.kind, text, t.end, want_end
                    ),
                    case(),
                );
                return;
            }
            ctx.count("end_positions_checked");
        }
        if t.offset + t.len == src.len() {
            ctx.count("tokens_at_end_of_input");
        }
        prev_end = t.offset + t.len;
        prev_kind = t.kind.clone();
        prev_multiline = multiline;
    }
    // what is left after the last token must be ignorable too
    if let Some(c) = src[prev_end..].chars().find(|c| !is_ignorable(*c)) {
        ctx.violation(
            "token:trailing_text_not_ignorable",
            &format!("after the last token the lexer dropped {:?}", c),
            case(),
        );
    }
    if src.contains("\r\n") {
        ctx.count("texts_with_crlf");
    }
    // second ground truth: what the renderer emitted where
    if let Some(r) = rendered {
        if r.tokens_exact {
            ctx.count("renderer_maps_compared");
            let a: Vec<(usize, usize)> = toks.iter().map(|t| (t.offset, t.len)).collect();
            let b: Vec<(usize, usize)> = r.tokens.iter().map(|t| (t.offset, t.len)).collect();
            if a != b {
                let k = a.iter().zip(b.iter()).position(|(x, y)| x != y).unwrap_or(a.len().min(b.len()));
                ctx.violation(
                    "token:differs_from_renderer_map",
                    &format!(
                        "token #{}: lexer {:?}, renderer emitted {:?} ({} vs {} tokens)",
                        k,
                        a.get(k).map(|(o, l)| &src[*o..*o + *l]),
                        b.get(k).map(|(o, l)| &src[*o..*o + *l]),
                        a.len(),
                        b.len()
                    ),
                    case(),
                );
            } else {
                for (t, rt) in toks.iter().zip(r.tokens.iter()) {
                    if t.start != (rt.line, rt.col) {
                        ctx.violation(
                            "position:differs_from_renderer_map",
                            &format!("token at byte {}: lexer {:?}, renderer ({}, {})", t.offset, t.start, rt.line, rt.col),
                            case(),
                        );
                        break;
                    }
                }
            }
        }
    }
}

pub fn run(ctx: &mut Ctx) {
    if ctx.miri {
        let n = ctx.nshards as u64;
        ctx.cases("miri", n * 4, |ctx, rng, _| {
            let s = if rng.coin() { corpus::soup_multiline(rng, 100) } else { corpus::soup(rng, 100) };
            check_text(ctx, &s, None);
        });
        return;
    }
    let n = ctx.size(150_000, 4_000_000);
    ctx.cases("soup_multiline", n, |ctx, rng, _| {
        let s = corpus::soup_multiline(rng, 300);
        if ctx.samples.len() < 3 && s.contains('\n') && s.contains("'s") {
            ctx.sample(case_src(&s));
        }
        check_text(ctx, &s, None);
    });
    let n = ctx.size(150_000, 4_000_000);
    ctx.cases("soup", n, |ctx, rng, _| {
        let s = corpus::soup(rng, 300);
        check_text(ctx, &s, None);
    });
    let n = ctx.size(6_000, 200_000);
    ctx.cases("programs", n, |ctx, rng, _| {
        let prog = {
            let mut g = SynGen::new(rng);
            g.program()
        };
        let sp = Spelling::wild(rng);
        match render(&prog, &sp, rng) {
            Ok(r) => {
                if ctx.samples.len() < 4 {
                    ctx.sample(Json::obj().with("src", Json::s(&r.text)).with("renderer_tokens", Json::u(r.tokens.len() as u64)));
                }
                check_text(ctx, &r.text, Some(&r));
                check_ast_ranges(ctx, &r.text);
            }
            Err(e) => {
                ctx.count("generator_inexpressible");
                ctx.seen("generator_inexpressible_reasons", &e.0);
            }
        }
    });
    ctx.cases("named", 1, |ctx, _, _| {
        for s in [
            "say \"a\nb\"'s",
            "(x\ny)'re cool",
            "say \"a\n\nb\"'s 5\nsay it",
            "x's 5",
            "\"é\"'s",
            "a\r\nb",
        ] {
            check_text(ctx, s, None);
        }
    });
}

// ------------------------------------------------------------------------- syntax-tree ranges

use rrss::analysis::visit::{self, Combine, ExprVisitorRunner, Visit, VisitExpr, VisitProgram};
use rrss::frontend::ast::{LiteralExpression, VariableName, WithRange};
use rrss::frontend::source_range::SourceRange;

#[derive(Default)]
struct Nothing;
impl Combine for Nothing {
    fn combine(self, _: Self) -> Self {
        Nothing
    }
}

enum Ranged {
    Name(Vec<String>),
    Pronoun,
    Number(f64),
    Str(String),
    OtherLiteral,
}

struct RangeRecorder {
    seen: Vec<(SourceRange, Ranged)>,
}

impl Visit for RangeRecorder {
    type Output = Nothing;
    type Error = ();
}

impl VisitExpr for RangeRecorder {
    fn visit_literal_expression(&mut self, e: &WithRange<LiteralExpression>) -> visit::Result<Self> {
        let r = match &e.0 {
            LiteralExpression::Number(n) => Ranged::Number(*n),
            LiteralExpression::String(s) => Ranged::Str(s.clone()),
            _ => Ranged::OtherLiteral,
        };
        self.seen.push((e.1.clone(), r));
        Ok(Nothing)
    }
    fn visit_pronoun(&mut self, range: SourceRange) -> visit::Result<Self> {
        self.seen.push((range, Ranged::Pronoun));
        Ok(Nothing)
    }
    fn visit_variable_name(&mut self, n: WithRange<&VariableName>) -> visit::Result<Self> {
        let words = match n.0 {
            VariableName::Simple(s) => vec![s.0.clone()],
            VariableName::Common(c) => vec![c.0.clone(), c.1.clone()],
            VariableName::Proper(p) => p.0.clone(),
        };
        self.seen.push((n.1.clone(), Ranged::Name(words)));
        Ok(Nothing)
    }
}

fn offset_of(line_starts: &[usize], src: &str, line: u32, col: u32) -> Option<usize> {
    let ls = *line_starts.get((line as usize).checked_sub(1)?)?;
    let off = ls + col as usize;
    if off <= src.len() && src.is_char_boundary(off) {
        Some(off)
    } else {
        None
    }
}

/// the ranges the parser attaches to identifiers and literals must cover exactly their tokens
pub fn check_ast_ranges(ctx: &mut Ctx, src: &str) {
    let prog = match mon::parse_quiet(src) {
        Ok(p) => p,
        Err(_) => return,
    };
    let mut line_starts = vec![0usize];
    for (i, b) in src.bytes().enumerate() {
        if b == b'\n' {
            line_starts.push(i + 1);
        }
    }
    let mut runner = ExprVisitorRunner::with_inner(RangeRecorder { seen: Vec::new() });
    let _ = runner.visit_program(&prog);
    let rec = runner.inner();
    ctx.eval();
    for (range, what) in &rec.seen {
        ctx.count("ast_ranges_checked");
        let (s, e) = (range.start(), range.end());
        let so = offset_of(&line_starts, src, s.line, s.column);
        let eo = offset_of(&line_starts, src, e.line, e.column);
        let bad = |ctx: &mut Ctx, why: String| {
            ctx.violation(
                "ast_range:does_not_cover_its_tokens",
                &format!("range {:?}..{:?}: {}", (s.line, s.column), (e.line, e.column), why),
                case_src(src),
            );
        };
        let (so, eo) = match (so, eo) {
            (Some(a), Some(b)) if a <= b => (a, b),
            _ => {
                bad(ctx, "not a position inside the source".into());
                return;
            }
        };
        let slice = &src[so..eo];
        let ok = match what {
            Ranged::Name(words) => slice.starts_with(words[0].as_str()) && slice.ends_with(words[words.len() - 1].as_str()),
            Ranged::Pronoun => crate::kw::aliases(crate::kw::Kw::Pronoun).contains(&slice.to_lowercase().as_str()),
            Ranged::Number(n) => slice.parse::<f64>().map(|v| v.to_bits() == n.to_bits()).unwrap_or(false),
            Ranged::Str(s) => {
                (slice.len() >= 2 && slice.starts_with('"') && slice.ends_with('"') && &slice[1..slice.len() - 1] == s.as_str())
                    || (s.is_empty() && crate::kw::aliases(crate::kw::Kw::Empty).contains(&slice.to_lowercase().as_str()))
            }
            Ranged::OtherLiteral => crate::kw::is_keyword(slice),
        };
        if !ok {
            bad(ctx, format!("covers {:?}", slice.chars().take(60).collect::<String>()));
            return;
        }
        if s.line != e.line {
            ctx.count("ast_ranges_spanning_lines");
        }
    }
}
