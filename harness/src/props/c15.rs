//! C15 — renaming variables and re-casing names or keywords never changes behaviour.
//!
//! Metamorphic relation between two recorded runs of rrss: a program P and sigma(P), where sigma
//! renames every name injectively to a fresh name of a random kind and varies the case of every
//! mention; keyword / pronoun case and aliases vary through the spelling. Stdout and the outcome
//! class (Ok / error variant, names erased) must be equal.

use crate::ctx::Ctx;
use crate::gen::{fresh_name_of_kind, random_case_word, upper_first};
use crate::json::Json;
use crate::mast::*;
use crate::mon::{self, ExecOpts, ExecOutcome};
use crate::render::{render, Spelling};
use crate::rng::{hash_str, Rng};
use std::collections::BTreeMap;

fn kind_of(n: &Name) -> &'static str {
    match n {
        Name::Simple(_) => "simple",
        Name::Common(..) => "common",
        Name::Proper(_) => "proper",
    }
}

/// re-case one mention of a name (the variable it denotes stays the same)
fn recase(rng: &mut Rng, n: &Name) -> Name {
    match n {
        Name::Simple(s) => {
            // a capitalised simple name next to nothing else stays simple in any case
            Name::Simple(random_case_word(rng, &s.to_lowercase_ascii_safe()))
        }
        Name::Common(p, w) => Name::Common(random_case_word(rng, &p.to_lowercase_ascii_safe()), random_case_word(rng, &w.to_lowercase_ascii_safe())),
        Name::Proper(ws) => Name::Proper(
            ws.iter()
                .map(|w| {
                    // word initials stay upper-case (that is what makes it a proper name)
                    let lower = w.to_lowercase_ascii_safe();
                    let mut it = lower.chars();
                    let first: String = it.next().map(|c| c.to_uppercase().collect()).unwrap_or_default();
                    let rest: String = it
                        .map(|c| if rng.chance(1, 3) { c.to_uppercase().next().unwrap_or(c) } else { c })
                        .collect();
                    first + &rest
                })
                .collect(),
        ),
    }
}

trait LowerSafe {
    fn to_lowercase_ascii_safe(&self) -> String;
}
impl LowerSafe for String {
    fn to_lowercase_ascii_safe(&self) -> String {
        // letters in the generators have one-to-one case mappings
        self.chars().flat_map(|c| c.to_lowercase()).collect()
    }
}

pub struct Renaming {
    pub map: BTreeMap<String, Name>,
}

pub fn transform(rng: &mut Rng, p: &Program, ctx: &mut Ctx) -> Program {
    let mut map: BTreeMap<String, Name> = BTreeMap::new();
    let mut used: Vec<String> = Vec::new();
    // first pass: collect the names
    let mut keys: Vec<(String, Name)> = Vec::new();
    map_names(p, &mut |n, _| {
        if !keys.iter().any(|(k, _)| *k == n.key()) {
            keys.push((n.key(), n.clone()));
        }
        n.clone()
    });
    for (k, old) in &keys {
        loop {
            let kind = rng.below(3);
            let mut fresh = fresh_name_of_kind(rng, kind, true);
            // "distinct spellings denote distinct variables": a third of the new names are near misses of a
            // name already handed out - a proper name extended or shortened by a word, the same word under
            // another article or as a simple name, a simple name one letter longer
            if !map.is_empty() && rng.chance(1, 3) {
                let near: Vec<Name> = map.values().cloned().collect();
                let base = rng.pick(&near).clone();
                let cap = |w: &str| upper_first(&w.to_lowercase());
                let derived = match (&base, rng.below(3)) {
                    (Name::Proper(ws), 0) => {
                        let mut v = ws.clone();
                        v.push(cap(&crate::gen::fresh_word(rng, false)));
                        Some(Name::Proper(v))
                    }
                    (Name::Proper(ws), 1) if ws.len() >= 3 => Some(Name::Proper(ws[..ws.len() - 1].to_vec())),
                    (Name::Proper(ws), _) => {
                        // same first words, another last word
                        let mut v = ws.clone();
                        let k = v.len() - 1;
                        v[k] = cap(&crate::gen::fresh_word(rng, false));
                        Some(Name::Proper(v))
                    }
                    (Name::Common(_, w), 0) => Some(Name::Common(rng.pstr(&crate::gen::PREFIXES).to_string(), w.clone())),
                    (Name::Common(_, w), _) => Some(Name::Simple(w.to_lowercase())),
                    (Name::Simple(w), 0) => Some(Name::Common(rng.pstr(&crate::gen::PREFIXES).to_string(), w.to_lowercase())),
                    (Name::Simple(w), _) => Some(Name::Simple(format!("{}{}", w.to_lowercase(), (b'a' + rng.below(26) as u8) as char))),
                };
                if let Some(d) = derived {
                    let ok = match &d {
                        Name::Simple(w) => !crate::kw::is_keyword(w),
                        Name::Common(_, w) => !crate::kw::is_keyword(w),
                        Name::Proper(ws) => ws.iter().all(|w| !crate::kw::is_keyword(w)),
                    };
                    if ok {
                        ctx.count("near_miss_names_handed_out");
                        fresh = d;
                    }
                }
            }
            let fk = fresh.key();
            if used.contains(&fk) || keys.iter().any(|(k2, _)| *k2 == fk) {
                continue;
            }
            used.push(fk);
            ctx.seen("kind_to_kind", &format!("{}->{}", kind_of(old), kind_of(&fresh)));
            map.insert(k.clone(), fresh);
            break;
        }
    }
    let mut positions: Vec<&'static str> = Vec::new();
    let out = map_names(p, &mut |n, pos| {
        positions.push(pos);
        let target = map.get(&n.key()).cloned().unwrap_or_else(|| n.clone());
        recase(rng, &target)
    });
    for pos in positions {
        ctx.seen("mention_positions", pos);
        ctx.count("mentions_renamed_and_recased");
    }
    let _ = upper_first;
    out
}

#[derive(Debug, PartialEq)]
struct Obs {
    stdout: Vec<u8>,
    outcome: String,
}

fn observe(ctx: &mut Ctx, text: &str, stdin: &[u8], fuel: u64) -> Result<Obs, String> {
    let prog = match mon::parse_guarded(text, 1000, true) {
        Ok(r) => match r.result {
            Ok(p) => p,
            Err(e) => return Err(format!("parse error: {}", e.text)),
        },
        Err(p) => return Err(format!("parse panic: {}", p.msg)),
    };
    let opts = ExecOpts { fuel, ..Default::default() };
    ctx.eval();
    let r = match mon::exec_guarded(&prog, stdin, &opts) {
        ExecOutcome::Done(run) => Ok(Obs {
            stdout: run.stdout,
            outcome: match run.result {
                Ok(()) => "Ok".to_string(),
                Err(_) => format!("Err:{}", run.err_kind.unwrap_or_default()),
            },
        }),
        ExecOutcome::Panicked(p, out) => Ok(Obs { stdout: out, outcome: format!("PANIC:{}", p.signature()) }),
    };
    ctx.sites.absorb();
    r
}

fn corpus_program(rng: &mut Rng) -> (Program, &'static str) {
    match rng.below(6) {
        0 => (crate::props::c04::program(rng).0, "c04"),
        1 | 2 => (crate::props::c05::program(rng).0, "c05"),
        3 => (crate::props::c06::history(rng, 8).tree, "c06"),
        4 => {
            let sem = crate::semgen::Sem::new(rng, 3);
            let mut ss = sem.prelude();
            let mut g = sem.gen(rng);
            for _ in 0..3 {
                ss.push(say(g.expr(3, crate::gen::Tail::Free)));
            }
            ss.push(Stmt::Input { dest: Some(Lhs::Ident(Ident::Name(simple("Alpha")))) });
            ss.push(say(var(&simple("Alpha"))));
            (Program::single(ss), "c03")
        }
        _ => {
            let mut scratch = Ctx::new("scratch", crate::ctx::Tier::Quick, 0, 0, 1, "none");
            (crate::props::c07::case(rng, &mut scratch), "c07")
        }
    }
}


#[allow(clippy::too_many_arguments)]
fn check_transforms(ctx: &mut Ctx, rng: &mut Rng, p: &Program, base_text: &str, base: &Obs, stdin: &[u8], fuel: u64, transforms: usize, origin: &str) {
        ctx.count(&format!("programs.{}", origin));
        ctx.seen("base_outcomes", &base.outcome);
        for _ in 0..transforms {
            let q = transform(rng, &p, ctx);
            let mut sp = Spelling::mild(rng);
            sp.vary_case = true;
            let text = match render(&q, &sp, rng) {
                Ok(r) => r.text,
                Err(e) => {
                    ctx.count("transformed_inexpressible");
                    ctx.seen("generator_inexpressible_reasons", &e.0);
                    continue;
                }
            };
            ctx.count("transforms");
            match observe(ctx, &text, stdin, fuel) {
                Err(e) => {
                    ctx.violation(
                        "transformed_program_rejected",
                        &e,
                        Json::obj().with("original", Json::s(base_text)).with("transformed", Json::s(&text)),
                    );
                    break;
                }
                Ok(o) => {
                    if o != *base {
                        let what = if o.stdout != base.stdout { "stdout" } else { "outcome" };
                        ctx.violation(
                            &format!("renaming_changed_{}", what),
                            &format!(
                                "original: {:?} / {}\nrenamed: {:?} / {}",
                                String::from_utf8_lossy(&base.stdout),
                                base.outcome,
                                String::from_utf8_lossy(&o.stdout),
                                o.outcome
                            ),
                            Json::obj().with("original", Json::s(base_text)).with("transformed", Json::s(&text)),
                        );
                        break;
                    } else {
                        ctx.nontrivial(hash_str(&text));
                        if ctx.samples.len() < 2 && text.len() < 700 && base_text.len() < 700 {
                            ctx.sample(Json::obj().with("original", Json::s(base_text)).with("transformed", Json::s(&text)).with("stdout", Json::s(String::from_utf8_lossy(&o.stdout).replace('\n', " | "))).with("outcome", Json::s(&o.outcome)));
                        }
                    }
                }
            }
        }
}

/// Programs that declare the same name twice in one scope (a repeated parameter, a function defined twice, a
/// function and a variable of one name, in either order): whatever rrss answers, it answers the same after
/// renaming and re-casing. (The reference model leaves these programs open; no model is involved here.)
fn fresh_any(rng: &mut Rng) -> Name {
    let k = rng.below(3);
    fresh_name_of_kind(rng, k, false)
}

fn duplicate_program(rng: &mut Rng) -> Program {
    let f = fresh_any(rng);
    let mut x = fresh_any(rng);
    while x.key() == f.key() {
        x = fresh_any(rng);
    }
    let ret = |v: &Name| vec![Stmt::Return { value: bin(BinOp::Plus, var(v), num(1.0)) }];
    let mut ss = vec![say(num(1.0))];
    match rng.below(7) {
        0 => {
            ss.push(Stmt::Function { name: f.clone(), params: vec![x.clone(), x.clone()], body: ret(&x) });
            ss.push(say(num(2.0)));
            ss.push(say(Expr::Prim(Prim::Call(f.clone(), vec![num(1.0), num(2.0)]))));
        }
        1 => {
            // never called
            ss.push(Stmt::Function { name: f.clone(), params: vec![x.clone(), x.clone()], body: ret(&x) });
            ss.push(say(num(2.0)));
        }
        2 => {
            ss.push(Stmt::Function { name: f.clone(), params: vec![x.clone()], body: ret(&x) });
            ss.push(say(num(2.0)));
            ss.push(Stmt::Function { name: f.clone(), params: vec![x.clone()], body: vec![Stmt::Return { value: num(7.0) }] });
            ss.push(say(Expr::Prim(Prim::Call(f.clone(), vec![num(1.0)]))));
        }
        3 => {
            ss.push(Stmt::Function { name: f.clone(), params: vec![x.clone()], body: ret(&x) });
            ss.push(say(num(2.0)));
            ss.push(put(num(5.0), &f));
            ss.push(say(num(3.0)));
        }
        4 => {
            ss.push(put(num(5.0), &f));
            ss.push(Stmt::Function { name: f.clone(), params: vec![x.clone()], body: ret(&x) });
            ss.push(say(num(2.0)));
            ss.push(say(var(&f)));
        }
        5 => {
            ss.push(Stmt::Function { name: f.clone(), params: vec![f.clone()], body: ret(&f) });
            ss.push(say(Expr::Prim(Prim::Call(f.clone(), vec![num(2.0)]))));
        }
        _ => {
            // three parameters, the first and the last the same
            let y = fresh_any(rng);
            ss.push(Stmt::Function { name: f.clone(), params: vec![x.clone(), y, x.clone()], body: ret(&x) });
            ss.push(say(Expr::Prim(Prim::Call(f.clone(), vec![num(1.0), num(2.0), num(3.0)]))));
        }
    }
    ss.push(say(num(9.0)));
    Program::single(ss)
}

pub fn run(ctx: &mut Ctx) {
    let transforms = if ctx.is_quick() { 4 } else { 16 };
    let n = ctx.size(16_000, 500_000);
    ctx.cases("programs", n, |ctx, rng, _| {
        let (p, origin) = corpus_program(rng);
        let stdin = b"first line\nsecond\n";
        // only programs the reference model can follow to the end within the budget (others may
        // legitimately need unbounded memory or time)
        let model = crate::refi::run(&p, stdin, &crate::refi::Budget::default());
        if !matches!(model.outcome, crate::refi::RefOutcome::Ok | crate::refi::RefOutcome::Error(_)) {
            ctx.count("skipped_outside_model_or_budget");
            return;
        }
        let base_text = match render(&p, &Spelling::canonical(), rng) {
            Ok(r) => r.text,
            Err(_) => {
                ctx.count("generator_inexpressible");
                return;
            }
        };
        let fuel = model.steps * 8 + 1000;
        let base = match observe(ctx, &base_text, stdin, fuel) {
            Ok(o) => o,
            Err(e) => {
                ctx.violation("base_program_unusable", &e, Json::obj().with("src", Json::s(&base_text)));
                return;
            }
        };
        if base.outcome.starts_with("PANIC:RRSS-VERIF fuel") || base.outcome.contains("fuel") {
            ctx.count("base_run_out_of_fuel_skipped");
            return;
        }
        check_transforms(ctx, rng, &p, &base_text, &base, stdin, fuel, transforms, origin);
    });
    let n = ctx.size(1_500, 60_000);
    ctx.cases("duplicate_declarations", n, |ctx, rng, _| {
        let p = duplicate_program(rng);
        let base_text = match render(&p, &Spelling::canonical(), rng) {
            Ok(r) => r.text,
            Err(_) => {
                ctx.count("generator_inexpressible");
                return;
            }
        };
        let base = match observe(ctx, &base_text, b"", 5_000) {
            Ok(o) => o,
            Err(_) => {
                ctx.count("duplicate_declaration_program_rejected_by_the_parser");
                return;
            }
        };
        check_transforms(ctx, rng, &p, &base_text, &base, b"", 5_000, transforms, "duplicate_declarations");
    });
}
