//! C02 — every spelling of a program parses to the same syntax tree.
//!
//! History + model: the generated tree IS the expected tree; `conv(parse(render(T, s)))` must
//! equal T for every spelling s (positions erased, numbers by bit pattern, strings exactly).

use crate::conv;
use crate::ctx::Ctx;
use crate::gen::SynGen;
use crate::json::Json;
use crate::kw::{self, Kw};
use crate::mast::*;
use crate::mon;
use crate::render::{render, Spelling};
use crate::rng::{hash_str, Rng};

fn n(s: &str) -> Name {
    Name::Simple(s.to_string())
}
fn cn(p: &str, w: &str) -> Name {
    Name::Common(p.to_string(), w.to_string())
}
fn v(name: &Name) -> Expr {
    var(name)
}
fn lhs(name: &Name) -> Lhs {
    Lhs::Ident(Ident::Name(name.clone()))
}
fn w(s: &str) -> PoeticElem {
    PoeticElem::Word(s.to_string())
}

/// A program that contains every statement kind, every operator and every keyword class at
/// least once; rendered once per (keyword class, alias) pair with that alias forced.
pub fn kitchen_sink() -> Program {
    let x = n("x");
    let y = n("Yonder");
    let tom = Name::Proper(vec!["Tom".into(), "Sawyer".into()]);
    let f = n("Fun");
    let a = cn("a", "heart");
    let an = cn("an", "eye");
    let the = cn("the", "night");
    let my = cn("my", "love");
    let your = cn("your", "soul");
    let our = cn("our", "time");
    let lit = |l: Lit| Expr::Prim(Prim::Lit(l));
    let b1 = vec![
        put(num(1.0), &x),
        Stmt::Assign { dest: lhs(&y), op: None, value: vec![lit(Lit::Mysterious)] },
        Stmt::Assign { dest: lhs(&a), op: None, value: vec![lit(Lit::Null)] },
        Stmt::Assign { dest: lhs(&an), op: None, value: vec![lit(Lit::Bool(true))] },
        Stmt::Assign { dest: lhs(&the), op: None, value: vec![lit(Lit::Bool(false))] },
        Stmt::Assign { dest: lhs(&my), op: None, value: vec![strlit("")] },
        Stmt::Assign { dest: lhs(&your), op: None, value: vec![strlit("hey")] },
        Stmt::Assign { dest: lhs(&our), op: Some(BinOp::Plus), value: vec![num(2.5)] },
        Stmt::Assign { dest: lhs(&x), op: Some(BinOp::Minus), value: vec![num(1.0), num(2.0)] },
        Stmt::Assign { dest: lhs(&x), op: Some(BinOp::Multiply), value: vec![v(&y)] },
        Stmt::Assign { dest: lhs(&x), op: Some(BinOp::Divide), value: vec![v(&tom)] },
        say(bin(BinOp::Plus, v(&x), bin(BinOp::Multiply, v(&y), num(3.0)))),
        say(bin(BinOp::Minus, bin(BinOp::Divide, v(&x), num(4.0)), Expr::Un(UnOp::Minus, Box::new(v(&y))))),
        say(Expr::Prim(Prim::Ident(Ident::Pronoun))),
        say(bin(BinOp::Or, bin(BinOp::And, Expr::Un(UnOp::Not, Box::new(v(&x))), v(&y)), v(&x))),
        say(bin(BinOp::Nor, v(&x), v(&y))),
        say(bin(BinOp::Eq, v(&x), num(5.0))),
        say(bin(BinOp::NotEq, v(&x), num(5.0))),
        say(bin(BinOp::Greater, v(&x), v(&y))),
        say(bin(BinOp::GreaterEq, v(&x), v(&y))),
        say(bin(BinOp::Less, v(&x), v(&y))),
        say(bin(BinOp::LessEq, v(&x), v(&y))),
        Stmt::PoeticNum { dest: lhs(&tom), rhs: PoeticRhs::Lit(vec![w("a"), w("lovestruck"), w("ladykiller")]) },
        Stmt::PoeticNum { dest: lhs(&x), rhs: PoeticRhs::Expr(num(5.0)) },
        Stmt::PoeticStr { dest: lhs(&y), text: "hello there".into() },
    ];
    let b2 = vec![
        Stmt::If {
            cond: v(&x),
            then: vec![say(num(1.0))],
            els: Some(vec![say(num(2.0))]),
        },
        Stmt::While {
            cond: bin(BinOp::Less, v(&x), num(3.0)),
            body: vec![
                Stmt::Inc { dest: Ident::Name(x.clone()), n: 2 },
                Stmt::If { cond: v(&y), then: vec![Stmt::Continue], els: None },
                Stmt::Break,
            ],
        },
        Stmt::Until {
            cond: v(&x),
            body: vec![Stmt::Dec { dest: Ident::Name(x.clone()), n: 1 }],
        },
        Stmt::Input { dest: Some(lhs(&y)) },
        Stmt::Input { dest: None },
        Stmt::Mutation { op: MutOp::Cut, operand: pvar(&y), dest: Some(lhs(&x)), param: Some(strlit(",")) },
        Stmt::Mutation { op: MutOp::Join, operand: pvar(&x), dest: None, param: None },
        Stmt::Mutation { op: MutOp::Cast, operand: pvar(&x), dest: Some(lhs(&y)), param: None },
        Stmt::Rounding { dir: RoundDir::Up, operand: v(&x) },
        Stmt::Rounding { dir: RoundDir::Down, operand: v(&x) },
        Stmt::Rounding { dir: RoundDir::Nearest, operand: v(&x) },
        Stmt::Push { array: pvar(&tom), value: Some(PushRhs::List(vec![num(1.0), num(2.0)])) },
        Stmt::Push { array: pvar(&tom), value: Some(PushRhs::Poetic(vec![w("the"), w("wind")])) },
        Stmt::Push { array: pvar(&tom), value: None },
        Stmt::Pop { array: pvar(&tom), dest: Some(lhs(&x)) },
        say(Expr::Prim(Prim::Sub(Box::new(pvar(&tom)), Box::new(Prim::Lit(Lit::Num(0.0)))))),
        say(Expr::Prim(Prim::Pop(Box::new(pvar(&tom))))),
        Stmt::Function {
            name: f.clone(),
            params: vec![n("p"), n("q")],
            body: vec![Stmt::Return { value: bin(BinOp::Plus, v(&n("p")), v(&n("q"))) }],
        },
        Stmt::Call { name: f.clone(), args: vec![num(1.0), v(&x)] },
        say(Expr::Prim(Prim::Call(f.clone(), vec![v(&x), num(2.0)]))),
    ];
    Program { blocks: vec![b1, b2] }
}

fn first_difference(a: &Program, b: &Program) -> (String, String) {
    for (i, (ba, bb)) in a.blocks.iter().zip(b.blocks.iter()).enumerate() {
        for (j, (sa, sb)) in ba.iter().zip(bb.iter()).enumerate() {
            if sa != sb {
                return (
                    format!("block {} statement {} ({})", i, j, sa.kind()),
                    format!("expected {:?}\n     got {:?}", sa, sb),
                );
            }
        }
        if ba.len() != bb.len() {
            return (
                format!("block {} length", i),
                format!("expected {} statements, got {}", ba.len(), bb.len()),
            );
        }
    }
    (
        "number of top-level blocks".into(),
        format!("expected {} blocks, got {}", a.blocks.len(), b.blocks.len()),
    )
}

fn coverage_of(p: &Program, ctx: &mut Ctx) {
    p.for_each_stmt(&mut |s| {
        let k = s.kind();
        ctx_seen_static(ctx, k);
    });
}

fn ctx_seen_static(ctx: &mut Ctx, k: &str) {
    ctx.seen("statement_kinds", k);
}

fn ops_of_expr(e: &Expr, out: &mut Vec<&'static str>) {
    match e {
        Expr::Prim(p) => ops_of_prim(p, out),
        Expr::Bin(op, l, r) => {
            out.push(op.name());
            if r.len() > 1 {
                out.push("list_operand");
            }
            ops_of_expr(l, out);
            for x in r {
                ops_of_expr(x, out);
            }
        }
        Expr::Un(op, x) => {
            out.push(match op {
                UnOp::Minus => "neg",
                UnOp::Not => "not",
            });
            ops_of_expr(x, out);
        }
    }
}

fn ops_of_prim(p: &Prim, out: &mut Vec<&'static str>) {
    match p {
        Prim::Sub(a, s) => {
            out.push("subscript");
            ops_of_prim(a, out);
            ops_of_prim(s, out);
        }
        Prim::Call(_, args) => {
            out.push("call");
            for a in args {
                ops_of_expr(a, out);
            }
        }
        Prim::Pop(x) => {
            out.push("pop_expr");
            ops_of_prim(x, out);
        }
        Prim::Lit(Lit::Str(s)) if s.contains('\n') => out.push("multi_line_string"),
        _ => {}
    }
}

pub fn exprs_of_stmt<'a>(s: &'a Stmt, out: &mut Vec<&'a Expr>) {
    match s {
        Stmt::Assign { value, .. } => out.extend(value.iter()),
        Stmt::PoeticNum { rhs: PoeticRhs::Expr(e), .. } => out.push(e),
        Stmt::If { cond, .. } | Stmt::While { cond, .. } | Stmt::Until { cond, .. } => out.push(cond),
        Stmt::Output { value } | Stmt::Return { value } => out.push(value),
        Stmt::Mutation { param: Some(p), .. } => out.push(p),
        Stmt::Rounding { operand, .. } => out.push(operand),
        Stmt::Push { value: Some(PushRhs::List(es)), .. } => out.extend(es.iter()),
        Stmt::Call { args, .. } => out.extend(args.iter()),
        _ => {}
    }
}

/// render + parse + compare; returns false on any failure
pub fn roundtrip(ctx: &mut Ctx, tree: &Program, sp: &Spelling, rng: &mut Rng, what: &str) -> bool {
    let r = match render(tree, sp, rng) {
        Ok(r) => r,
        Err(e) => {
            ctx.count("generator_inexpressible");
            ctx.seen("generator_inexpressible_reasons", &e.0);
            if ctx.notes.len() < 3 {
                ctx.notes.push(format!("inexpressible ({}): {:?}", e.0, tree).chars().take(3000).collect());
            }
            return false;
        }
    };
    ctx.eval();
    ctx.count("tree_spelling_pairs");
    ctx.nontrivial(hash_str(&r.text));
    for (k, a) in &r.used {
        ctx.seen("alias_pairs", &format!("{:?}:{}", k, a));
    }
    let case = |extra: &str| {
        Json::obj()
            .with("src", Json::s(&r.text))
            .with("what", Json::s(what))
            .with("note", Json::s(extra))
            .with(
                "forced_alias",
                match sp.force {
                    Some((k, a)) => Json::s(format!("{:?}:{}", k, a)),
                    None => Json::Null,
                },
            )
    };
    let forced = match sp.force {
        Some((k, a)) => format!("[{:?}:{}]", k, a),
        None => String::new(),
    };
    match mon::parse_guarded(&r.text, 1000, true) {
        Err(p) => {
            ctx.sites.absorb();
            ctx.panic_outcome("parse", &p, case(""));
            false
        }
        Ok(run) => {
            ctx.sites.absorb();
            match run.result {
                Err(e) => {
                    ctx.violation(
                        &format!("spelling_rejected:{}{}", e.code, forced),
                        &format!("a valid spelling was rejected: {}", e.text),
                        case(&e.text),
                    );
                    false
                }
                Ok(prog) => {
                    let got = conv::program(&prog);
                    if got != *tree {
                        let (at, diff) = first_difference(tree, &got);
                        let kind = at.split('(').nth(1).unwrap_or("structure").trim_end_matches(')').to_string();
                        ctx.violation(
                            &format!("tree_differs:{}{}", kind, forced),
                            &format!("at {}:\n{}", at, diff),
                            case(&at),
                        );
                        false
                    } else {
                        true
                    }
                }
            }
        }
    }
}

pub fn run(ctx: &mut Ctx) {
    // systematic part: every (keyword class, alias) pair forced once on the kitchen-sink program,
    // under a plain and under a noisy spelling
    let pairs = kw::all_alias_pairs();
    let sink = kitchen_sink();
    let mut extra_pairs: Vec<(Kw, &'static str)> = vec![
        (Kw::Is, "'s"),
        (Kw::Is, "'re"),
        (Kw::Say, "say"), // `X say text` as poetic string
    ];
    let mut all_pairs = pairs.clone();
    all_pairs.append(&mut extra_pairs);
    let total = all_pairs.len() as u64;
    let reps = ctx.size(4, 40);
    ctx.cases("alias_pairs", total * reps, |ctx, rng, idx| {
        let (k, a) = all_pairs[(idx % total) as usize];
        let mut sp = if idx / total == 0 { Spelling::canonical() } else { Spelling::wild(rng) };
        sp.symbols = true;
        sp.optional_words = true;
        sp.force = Some((k, a));
        if idx / total == 0 {
            // keep everything else canonical but allow the forced alias to be used
            sp.vary_alias = false;
        }
        if roundtrip(ctx, &sink, &sp, rng, "kitchen sink with one alias forced") {
            ctx.seen("forced_pairs_ok", &format!("{:?}:{}", k, a));
        }
    });
    // random trees x spellings
    let trees = ctx.size(12_000, 400_000);
    let spellings = if ctx.is_quick() { 8 } else { 32 };
    ctx.cases("trees", trees, |ctx, rng, _| {
        let tree = {
            let bd = *rng.pick(&[1, 2, 3, 5]);
            let ed = *rng.pick(&[2, 4, 6, 8]);
            let mut g = SynGen::new(rng);
            g.max_block_depth = bd;
            g.max_expr_depth = ed;
            g.program()
        };
        ctx.count("trees");
        ctx.max("max_block_depth", tree.max_depth() as u64);
        coverage_of(&tree, ctx);
        let mut ops = Vec::new();
        tree.for_each_stmt(&mut |s| {
            let mut es = Vec::new();
            exprs_of_stmt(s, &mut es);
            for e in es {
                ops_of_expr(e, &mut ops);
                // (depth evidence)
            }
        });
        for o in ops {
            ctx.seen("operators_and_forms", o);
        }
        for i in 0..spellings {
            let sp = if i == 0 { Spelling::canonical() } else { Spelling::wild(rng) };
            let ok = roundtrip(ctx, &tree, &sp, rng, "random tree");
            if ok && ctx.samples.len() < 3 && i == 1 {
                if let Ok(r) = render(&tree, &sp, rng) {
                    if r.text.len() < 600 {
                        ctx.sample(Json::obj().with("src", Json::s(&r.text)).with("tree", Json::s(format!("{:?}", tree).chars().take(1500).collect::<String>())));
                    }
                }
            }
            if !ok {
                break;
            }
        }
    });
}
