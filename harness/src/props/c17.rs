//! C17 — the constant folder only reports values the interpreter would compute.
//!
//! Differential between two recorded components of rrss (folder result vs. executed output),
//! plus the syntactic classification of the generated expression: all-constant arithmetic must
//! fold; anything reading a variable, pronoun, element, call or pop must not.

use crate::ctx::Ctx;
use crate::gen::poetic_elems;
use crate::json::Json;
use crate::mast::*;
use crate::mon::{self, ExecOpts, ExecOutcome};
use crate::render::{render, Spelling};
use crate::rng::{hash_str, Rng};
use rrss::analysis::tools::{NumericConstantFolder, SimpleStringConstantFolder};
use rrss::analysis::visit::VisitExpr;
use rrss::frontend::ast as a;

fn const_leaf(rng: &mut Rng) -> Expr {
    let n = match rng.below(13) {
        // a literal too large for a double (spelled 1e999): it is the number inf
        12 => f64::INFINITY,
        0 => 0.0,
        1 => 1.0,
        2 => 0.5,
        3 => 2.25,
        4 => 1e308,
        5 => 0.0000001,
        6 => 9007199254740993.0,
        7 => 1e21,
        8 => 3.0,
        _ => rng.below(50) as f64,
    };
    num(n)
}

/// all-constant arithmetic: number literals, unary minus, + - * / (with list operands)
pub fn const_expr(rng: &mut Rng, depth: usize, level: u8) -> Expr {
    if depth == 0 || level >= 4 {
        return if rng.chance(1, 4) { Expr::Un(UnOp::Minus, Box::new(const_leaf(rng))) } else { const_leaf(rng) };
    }
    match rng.below(4) {
        0 => {
            if rng.chance(1, 3) {
                Expr::Un(UnOp::Minus, Box::new(const_expr(rng, 0, 4)))
            } else {
                const_leaf(rng)
            }
        }
        1 if level <= 3 => {
            let op = if rng.coin() { BinOp::Multiply } else { BinOp::Divide };
            let l = const_expr(rng, depth - 1, 3);
            Expr::Bin(op, Box::new(l), rhs(rng, depth - 1, 4))
        }
        _ if level <= 2 => {
            let op = if rng.coin() { BinOp::Plus } else { BinOp::Minus };
            let l = const_expr(rng, depth - 1, 2);
            Expr::Bin(op, Box::new(l), rhs(rng, depth - 1, 3))
        }
        _ => const_leaf(rng),
    }
}

fn rhs(rng: &mut Rng, depth: usize, level: u8) -> Vec<Expr> {
    if rng.chance(1, 4) {
        let n = rng.range(2, 4);
        (0..n).map(|_| const_expr(rng, 0, 4)).collect()
    } else {
        vec![const_expr(rng, depth, level)]
    }
}

/// replace one number leaf by a forbidden form; returns false if there was nothing to replace
fn poison(rng: &mut Rng, e: &mut Expr, with: &Expr, countdown: &mut usize) -> bool {
    match e {
        Expr::Prim(Prim::Lit(Lit::Num(_))) => {
            if *countdown == 0 {
                *e = with.clone();
                true
            } else {
                *countdown -= 1;
                false
            }
        }
        Expr::Bin(_, l, r) => {
            if poison(rng, l, with, countdown) {
                return true;
            }
            for x in r.iter_mut() {
                if poison(rng, x, with, countdown) {
                    return true;
                }
            }
            false
        }
        Expr::Un(_, x) => poison(rng, x, with, countdown),
        _ => false,
    }
}

fn count_leaves(e: &Expr) -> usize {
    match e {
        Expr::Prim(Prim::Lit(Lit::Num(_))) => 1,
        Expr::Bin(_, l, r) => count_leaves(l) + r.iter().map(count_leaves).sum::<usize>(),
        Expr::Un(_, x) => count_leaves(x),
        _ => 0,
    }
}

fn forbidden(rng: &mut Rng) -> (Expr, &'static str) {
    let x = simple("Xeno");
    match rng.below(10) {
        7 => (Expr::Prim(Prim::Pop(Box::new(Prim::Lit(Lit::Num(5.0))))), "pop"),
        8 => (Expr::Prim(Prim::Pop(Box::new(Prim::Pop(Box::new(Prim::Lit(Lit::Num(5.0))))))), "pop"),
        9 => (Expr::Prim(Prim::Sub(Box::new(Prim::Lit(Lit::Num(5.0))), Box::new(Prim::Lit(Lit::Num(0.0))))), "element_of_a_literal"),
        0 => (var(&x), "variable"),
        1 => (var(&Name::Common("the".into(), "night".into())), "common_variable"),
        2 => (var(&Name::Proper(vec!["Tom".into(), "Sawyer".into()])), "proper_variable"),
        3 => (Expr::Prim(Prim::Ident(Ident::Pronoun)), "pronoun"),
        4 => (Expr::Prim(Prim::Sub(Box::new(pvar(&simple("Arr"))), Box::new(Prim::Lit(Lit::Num(0.0))))), "array_element"),
        5 => (Expr::Prim(Prim::Pop(Box::new(pvar(&simple("Arr"))))), "pop"),
        _ => (Expr::Prim(Prim::Call(simple("Five"), vec![num(1.0)])), "call"),
    }
}

fn prelude() -> Vec<Stmt> {
    // statements that try to disturb the evaluation of a constant
    vec![
        Stmt::Function { name: simple("Five"), params: vec![simple("Unused")], body: vec![Stmt::Return { value: num(5.0) }] },
        put(num(7.0), &Name::Common("the".into(), "night".into())),
        put(num(11.0), &Name::Proper(vec!["Tom".into(), "Sawyer".into()])),
        Stmt::Push { array: pvar(&simple("Arr")), value: Some(PushRhs::List(vec![num(13.0), num(17.0)])) },
        put(num(3.0), &simple("Xeno")),
    ]
}

fn find_output_expr(p: &a::Program) -> Option<&a::Expression> {
    // the LAST Output statement of the last block
    let b = p.code.last()?;
    match b {
        a::Block::NonEmpty(ss) => ss.iter().rev().find_map(|s| match s {
            a::Statement::Output(o) => Some(&o.value),
            _ => None,
        }),
        _ => None,
    }
}

fn case(ctx: &mut Ctx, rng: &mut Rng) {
    let constant = rng.chance(3, 5);
    let d0 = rng.range(0, 5);
    let mut e = const_expr(rng, d0, 2);
    let mut why = "constant";
    if !constant {
        let (f, label) = forbidden(rng);
        let n = count_leaves(&e);
        let mut k = rng.below(n.max(1));
        // a call swallows what follows it: only put it at the right-most leaf
        if label == "call" || label == "pop" {
            k = n.saturating_sub(1);
        }
        if !poison(rng, &mut e, &f, &mut k) {
            e = f;
        }
        why = label;
    }
    let mut ss = prelude();
    ss.push(say(e.clone()));
    let tree = Program::single(ss);
    let sp = if rng.coin() { Spelling::canonical() } else { Spelling::mild(rng) };
    let text = match render(&tree, &sp, rng) {
        Ok(r) => r.text,
        Err(_) => {
            ctx.count("generator_inexpressible");
            return;
        }
    };
    let prog = match mon::parse_quiet(&text) {
        Ok(p) => p,
        Err(e) => {
            ctx.violation("program_did_not_parse", &e, Json::obj().with("src", Json::s(&text)));
            return;
        }
    };
    let expr = match find_output_expr(&prog) {
        Some(e) => e,
        None => return,
    };
    ctx.eval();
    ctx.count(if constant { "constant_expressions" } else { "non_constant_expressions" });
    ctx.seen("leaf_forms", why);
    let case = |extra: &str| Json::obj().with("src", Json::s(&text)).with("classification", Json::s(why)).with("note", Json::s(extra));
    let folded = match mon::guarded(|| NumericConstantFolder.visit_expression(expr)) {
        Ok(r) => r,
        Err(p) => {
            ctx.panic_outcome("folder", &p, case(""));
            return;
        }
    };
    let sfolded = mon::guarded(|| SimpleStringConstantFolder.visit_expression(expr)).ok().and_then(|r| r.ok());
    if sfolded.is_some() {
        ctx.violation("string_folder_reports_for_arithmetic", "the string folder returned a value for an arithmetic expression", case(""));
        return;
    }
    match (&folded, constant) {
        (Err(e), true) => {
            ctx.violation(
                "constant_expression_not_folded",
                &format!("an expression of number literals, unary minus and + - * / did not fold: {:?}", e),
                case(""),
            );
            return;
        }
        (Ok(v), false) => {
            ctx.violation(
                &format!("folded_a_non_constant:{}", why),
                &format!("folder returned {} for an expression containing a {}", v.value, why),
                case(""),
            );
            return;
        }
        _ => {}
    }
    if let Ok(v) = folded {
        // the interpreter must print exactly this value
        let want = format!("{}\n", v);
        match mon::exec_guarded(&prog, b"", &ExecOpts::default()) {
            ExecOutcome::Done(run) => {
                let got = String::from_utf8_lossy(&run.stdout).to_string();
                if run.result.is_err() || got != want {
                    ctx.violation(
                        "folded_value_differs_from_execution",
                        &format!("folder says {:?}, the interpreter printed {:?} ({:?})", want, got, run.result),
                        case(""),
                    );
                    return;
                }
                ctx.count("folded_values_compared_with_execution");
                if !v.value.is_finite() {
                    ctx.count("non_finite_results");
                }
                ctx.nontrivial(hash_str(&text));
                if ctx.samples.len() < 3 && text.len() < 400 {
                    ctx.sample(Json::obj().with("src", Json::s(&text)).with("folded", Json::s(format!("{}", v))).with("printed", Json::s(got.trim_end())));
                }
            }
            ExecOutcome::Panicked(p, _) => {
                ctx.panic_outcome("exec", &p, case(""));
            }
        }
    } else {
        ctx.count("non_constants_rejected");
        ctx.nontrivial(hash_str(&text));
    }
    ctx.sites.absorb();
}

fn poetic_case(ctx: &mut Ctx, rng: &mut Rng) {
    let elems = poetic_elems(rng, 6);
    let x = simple("Xeno");
    let push = rng.chance(1, 3);
    let tree = if push {
        Program::single(vec![
            Stmt::Push { array: pvar(&x), value: Some(PushRhs::Poetic(elems.clone())) },
            say(Expr::Prim(Prim::Sub(Box::new(pvar(&x)), Box::new(Prim::Lit(Lit::Num(0.0)))))),
        ])
    } else {
        Program::single(vec![Stmt::PoeticNum { dest: Lhs::Ident(Ident::Name(x.clone())), rhs: PoeticRhs::Lit(elems.clone()) }, say(var(&x))])
    };
    let text = match render(&tree, &Spelling::canonical(), rng) {
        Ok(r) => r.text,
        Err(_) => return,
    };
    let prog = match mon::parse_quiet(&text) {
        Ok(p) => p,
        Err(_) => return,
    };
    let first = match prog.code.first() {
        Some(a::Block::NonEmpty(ss)) => &ss[0],
        _ => return,
    };
    ctx.eval();
    ctx.count("poetic_literals");
    let folded = mon::guarded(|| match first {
        a::Statement::PoeticAssignment(a::PoeticAssignment::Number(n)) => NumericConstantFolder.visit_poetic_number_assignment_rhs(&n.rhs).ok(),
        a::Statement::ArrayPush(p) => p.value.as_ref().and_then(|v| NumericConstantFolder.visit_array_push_rhs(v).ok()),
        _ => None,
    });
    let case = || Json::obj().with("src", Json::s(&text));
    match folded {
        Err(p) => {
            ctx.panic_outcome("folder", &p, case());
        }
        Ok(None) => ctx.violation("poetic_literal_not_folded", "a poetic number literal did not fold", case()),
        Ok(Some(v)) => match mon::exec_guarded(&prog, b"", &ExecOpts::default()) {
            ExecOutcome::Done(run) => {
                let want = format!("{}\n", v);
                let got = String::from_utf8_lossy(&run.stdout).to_string();
                if got != want {
                    ctx.violation("folded_poetic_value_differs_from_execution", &format!("folder {:?}, printed {:?}", want, got), case());
                } else {
                    ctx.count("folded_values_compared_with_execution");
                    ctx.nontrivial(hash_str(&text));
                }
            }
            ExecOutcome::Panicked(p, _) => {
                ctx.panic_outcome("exec", &p, case());
            }
        },
    }
    ctx.sites.absorb();
}

fn string_case(ctx: &mut Ctx, rng: &mut Rng) {
    let forms: Vec<(Expr, bool, &'static str)> = vec![
        (strlit("hello"), true, "string_literal"),
        (strlit(""), true, "empty"),
        (strlit("with \"no\" quotes inside".replace('"', "").as_str()), true, "string_literal"),
        (strlit("é 日本"), true, "string_literal"),
        (num(5.0), false, "number"),
        (Expr::Prim(Prim::Lit(Lit::Bool(true))), false, "boolean"),
        (Expr::Prim(Prim::Lit(Lit::Null)), false, "null"),
        (Expr::Prim(Prim::Lit(Lit::Mysterious)), false, "mysterious"),
        (bin(BinOp::Plus, strlit("a"), strlit("b")), false, "concatenation"),
        (Expr::Un(UnOp::Not, Box::new(strlit("a"))), false, "not"),
        (var(&simple("Xeno")), false, "variable"),
        (Expr::Prim(Prim::Ident(Ident::Pronoun)), false, "pronoun"),
        (Expr::Prim(Prim::Sub(Box::new(pvar(&simple("Arr"))), Box::new(Prim::Lit(Lit::Num(0.0))))), false, "array_element"),
        (Expr::Prim(Prim::Pop(Box::new(pvar(&simple("Arr"))))), false, "pop"),
        (Expr::Prim(Prim::Call(simple("Five"), vec![strlit("x")])), false, "call"),
    ];
    let (e, is_const, label) = rng.pick(&forms).clone();
    let mut ss = prelude();
    ss.push(say(e));
    let tree = Program::single(ss);
    let sp = Spelling::mild(rng);
    let text = match render(&tree, &sp, rng) {
        Ok(r) => r.text,
        Err(_) => return,
    };
    let prog = match mon::parse_quiet(&text) {
        Ok(p) => p,
        Err(_) => return,
    };
    let expr = match find_output_expr(&prog) {
        Some(e) => e,
        None => return,
    };
    ctx.eval();
    ctx.count("string_folder_cases");
    ctx.seen("string_forms", label);
    let folded = mon::guarded(|| SimpleStringConstantFolder.visit_expression(expr).ok());
    let case = || Json::obj().with("src", Json::s(&text)).with("form", Json::s(label));
    match folded {
        Err(p) => {
            ctx.panic_outcome("folder", &p, case());
        }
        Ok(Some(v)) => {
            if !is_const {
                ctx.violation(&format!("string_folder_folded_a_non_constant:{}", label), &format!("returned {:?}", v.value), case());
                return;
            }
            if let ExecOutcome::Done(run) = mon::exec_guarded(&prog, b"", &ExecOpts::default()) {
                let want = format!("{}\n", v.value);
                if run.stdout != want.as_bytes() {
                    ctx.violation("folded_string_differs_from_execution", &format!("folder {:?}, printed {:?}", want, String::from_utf8_lossy(&run.stdout)), case());
                } else {
                    ctx.count("folded_values_compared_with_execution");
                    ctx.nontrivial(hash_str(&text));
                }
            }
        }
        Ok(None) => {
            ctx.nontrivial(hash_str(&text));
        }
    }
}

/// expressions over ALL literal kinds (null, booleans, strings, mysterious mixed with numbers):
/// whatever the folder reports for them must be what the interpreter prints
fn mixed_literal_case(ctx: &mut Ctx, rng: &mut Rng) {
    fn leaf(rng: &mut Rng) -> Expr {
        match rng.below(9) {
            0 | 1 => Expr::Prim(Prim::Lit(Lit::Null)),
            2 => Expr::Prim(Prim::Lit(Lit::Bool(rng.coin()))),
            3 => Expr::Prim(Prim::Lit(Lit::Mysterious)),
            4 => strlit(*rng.pick(&["", "2", "abc", "1e1"])),
            _ => num(*rng.pick(&[0.0, 1.0, 2.0, 0.5, 10.0])),
        }
    }
    fn gen(rng: &mut Rng, depth: usize, level: u8) -> Expr {
        if depth == 0 || level >= 4 {
            return if rng.chance(1, 6) { Expr::Un(UnOp::Minus, Box::new(leaf(rng))) } else { leaf(rng) };
        }
        match rng.below(3) {
            0 => leaf(rng),
            1 if level <= 3 => {
                let op = if rng.coin() { BinOp::Multiply } else { BinOp::Divide };
                let l = gen(rng, depth - 1, 3);
                let r = if rng.chance(1, 4) { vec![leaf(rng), leaf(rng)] } else { vec![gen(rng, depth - 1, 4)] };
                Expr::Bin(op, Box::new(l), r)
            }
            _ if level <= 2 => {
                let op = if rng.coin() { BinOp::Plus } else { BinOp::Minus };
                let l = gen(rng, depth - 1, 2);
                let r = if rng.chance(1, 4) { vec![leaf(rng), leaf(rng)] } else { vec![gen(rng, depth - 1, 3)] };
                Expr::Bin(op, Box::new(l), r)
            }
            _ => leaf(rng),
        }
    }
    let d = rng.range(1, 3);
    let e = gen(rng, d, 2);
    let mut ss = prelude();
    ss.push(say(e));
    let tree = Program::single(ss);
    let text = match render(&tree, &Spelling::canonical(), rng) {
        Ok(r) => r.text,
        Err(_) => return,
    };
    let prog = match mon::parse_quiet(&text) {
        Ok(p) => p,
        Err(_) => return,
    };
    let expr = match find_output_expr(&prog) {
        Some(e) => e,
        None => return,
    };
    ctx.eval();
    ctx.count("mixed_literal_expressions");
    let case = || Json::obj().with("src", Json::s(&text));
    let num_folded = mon::guarded(|| NumericConstantFolder.visit_expression(expr).ok()).unwrap_or(None);
    let str_folded = mon::guarded(|| SimpleStringConstantFolder.visit_expression(expr).ok()).unwrap_or(None);
    let want = match (&num_folded, &str_folded) {
        (Some(v), _) => Some(format!("{}\n", v)),
        (None, Some(s)) => Some(format!("{}\n", s.value)),
        _ => None,
    };
    if let Some(want) = want {
        ctx.count("mixed_literal_expressions_folded");
        match mon::exec_guarded(&prog, b"", &ExecOpts::default()) {
            ExecOutcome::Done(run) => {
                let got = String::from_utf8_lossy(&run.stdout).to_string();
                if run.result.is_err() || got != want {
                    ctx.violation(
                        "folded_value_differs_from_execution:mixed_literals",
                        &format!("folder says {:?}, the interpreter printed {:?} ({:?})", want, got, run.result),
                        case(),
                    );
                } else {
                    ctx.count("folded_values_compared_with_execution");
                    ctx.nontrivial(hash_str(&text));
                }
            }
            ExecOutcome::Panicked(p, _) => {
                ctx.panic_outcome("exec", &p, case());
            }
        }
    }
    ctx.sites.absorb();
}

pub fn run(ctx: &mut Ctx) {
    let n = ctx.size(60_000, 2_000_000);
    ctx.cases("numeric", n, |ctx, rng, _| case(ctx, rng));
    let n = ctx.size(30_000, 1_000_000);
    ctx.cases("mixed_literals", n, |ctx, rng, _| mixed_literal_case(ctx, rng));
    let n = ctx.size(10_000, 300_000);
    ctx.cases("poetic", n, |ctx, rng, _| poetic_case(ctx, rng));
    let n = ctx.size(6_000, 100_000);
    ctx.cases("strings", n, |ctx, rng, _| string_case(ctx, rng));
}
