//! C10 — same program and input give the same output, result and messages every time.
//!
//! Metamorphic equality between recorded runs (no model): parse tree rendering, lint
//! diagnostics, stdout bytes, Ok/Err and error text must be byte-identical across repetitions in
//! one process (every HashMap gets a fresh RandomState) — the driver adds repetitions of the
//! shipped binary in separate processes. H2 shows that the runs really differed underneath.

use crate::ctx::Ctx;
use crate::json::Json;
use crate::mast::*;
use crate::mon::{self, ExecOpts, ExecOutcome, LintWhich};
use crate::props::case_src_in;
use crate::render::{render, render_plain, Spelling};
use crate::rng::{hash_str, Rng};

fn key_lit(rng: &mut Rng, i: usize) -> Lit {
    match rng.below(8) {
        0 => Lit::Bool(true),
        1 => Lit::Bool(false),
        2 => Lit::Null,
        3 => Lit::Mysterious,
        _ => Lit::Str(format!("{}{}", rng.pstr(&["k", "key ", "é", "zz", "A", ""]), (b'a' + (i % 26) as u8) as char)),
    }
}

/// keys that a sloppy comparator (case-folding, trimming, numeric, by length, by display text) would tie
const CONFUSABLE: &[&[&str]] = &[
    &["rock", "Rock", "ROCK", "rocK"],
    &["a", "a ", " a", "A", "a\t"],
    &["1", "01", "1.0", "1e0", "+1", " 1"],
    &["true", "True", "null", "mysterious", "false"],
    &["é", "É", "e\u{301}", "e"],
    &["ab", "abc", "abd", "b", "ba"],
    &["ß", "ss", "SS", "ẞ"],
    &["", " ", "  ", "\u{a0}"],
    &["k10", "k9", "k09", "K10"],
    &["9", "10", "5x", "1e1", "010", "2", "10x"],
];

pub fn dict_program(rng: &mut Rng) -> (Program, usize) {
    let d = simple("Dict");
    let e = simple("Elsa");
    let mut ss = Vec::new();
    let nkeys = rng.range(2, 8);
    let all_strings = rng.chance(2, 3);
    if rng.coin() {
        ss.push(Stmt::Push { array: pvar(&d), value: Some(PushRhs::List(vec![strlit("first"), strlit("second")])) });
    }
    let mut used: Vec<Lit> = Vec::new();
    let mut entries_kv: Vec<(Lit, Expr)> = Vec::new();
    let family = if rng.chance(1, 3) { Some(*rng.pick(CONFUSABLE)) } else { None };
    for i in 0..nkeys {
        let k = match family {
            // mostly members of one confusable family, with the other key kinds of the same spelling mixed in
            Some(f) if !rng.chance(1, 5) => Lit::Str(rng.pstr(f).to_string()),
            _ => key_lit(rng, i),
        };
        if used.contains(&k) {
            continue;
        }
        used.push(k.clone());
        let val = if all_strings || rng.chance(3, 4) { strlit(&format!("v{}", i)) } else { num(i as f64) };
        entries_kv.push((k.clone(), val.clone()));
        ss.push(Stmt::Assign { dest: Lhs::Sub(Box::new(pvar(&d)), Box::new(Prim::Lit(k))), op: None, value: vec![val] });
    }
    let entries = used.len();
    let n = rng.range(1, 3);
    for _ in 0..n {
        match rng.below(11) {
            9 | 10 => {
                // the same dictionary built a second time, independently (entries in another order), compared
                let t = simple("Twin");
                let mut kv = entries_kv.clone();
                kv.reverse();
                if rng.coin() {
                    rng.shuffle(&mut kv);
                }
                for (k, v) in kv {
                    ss.push(Stmt::Assign { dest: Lhs::Sub(Box::new(pvar(&t)), Box::new(Prim::Lit(k))), op: None, value: vec![v] });
                }
                ss.push(say(bin(BinOp::Eq, var(&d), var(&t))));
                ss.push(say(bin(BinOp::NotEq, var(&t), var(&d))));
            }
            0 | 1 | 2 => {
                // join (into a copy, so several observations fit one program)
                let param = if rng.coin() { Some(strlit(*rng.pick(&[",", "", " + "]))) } else { None };
                ss.push(Stmt::Mutation { op: MutOp::Join, operand: pvar(&d), dest: Some(Lhs::Ident(Ident::Name(e.clone()))), param });
                ss.push(say(var(&e)));
            }
            3 => ss.push(say(var(&d))),
            4 => {
                ss.push(put(var(&d), &e));
                ss.push(say(bin(BinOp::Eq, var(&d), var(&e))));
            }
            5 => {
                // nest it, then make the error message print everything
                ss.push(Stmt::Assign { dest: Lhs::Sub(Box::new(pvar(&e)), Box::new(Prim::Lit(Lit::Str("inner".into())))), op: None, value: vec![var(&d)] });
                ss.push(Stmt::Assign { dest: Lhs::Sub(Box::new(pvar(&e)), Box::new(Prim::Lit(Lit::Str("other".into())))), op: None, value: vec![num(1.0)] });
                ss.push(Stmt::Mutation { op: MutOp::Cast, operand: pvar(&e), dest: None, param: None });
            }
            6 => ss.push(Stmt::Mutation { op: MutOp::Cast, operand: pvar(&d), dest: None, param: None }),
            7 => ss.push(Stmt::Rounding { dir: RoundDir::Up, operand: var(&d) }),
            _ => ss.push(say(Expr::Un(UnOp::Minus, Box::new(var(&d))))),
        }
    }
    (Program::single(ss), entries)
}

#[derive(Clone, Debug, PartialEq)]
pub struct Observation {
    pub parse: String,
    pub lint: String,
    /// the same through the library's command-line layer (`rrss::cli::linter::run`, `rrss::cli::parser::run`):
    /// what `rrss lint` / `rrss parse` print, rendered in this process
    pub cli_layer: String,
    pub stdout: Vec<u8>,
    pub result: String,
}

fn cli_layer(src: &str) -> String {
    let r = mon::guarded(|| {
        let lint = match rrss::cli::linter::run(src) {
            Ok(o) => format!("{}", o),
            Err(e) => format!("ERR {}", e),
        };
        let parse = match rrss::cli::parser::run(src) {
            Ok(o) => format!("{}", o),
            Err(e) => format!("ERR {}", e),
        };
        format!("{}\u{1}{}", lint, parse)
    });
    match r {
        Ok(s) => s,
        Err(p) => format!("PANIC {}", p.signature()),
    }
}

pub fn observe(src: &str, stdin: &[u8], ctx: &mut Ctx) -> Option<(Observation, Vec<Vec<String>>)> {
    observe_opt(src, stdin, ctx, true)
}

pub fn observe_opt(src: &str, stdin: &[u8], ctx: &mut Ctx, do_exec: bool) -> Option<(Observation, Vec<Vec<String>>)> {
    let parsed = mon::parse_guarded(src, 1000, true).ok()?;
    match parsed.result {
        Err(e) => Some((Observation { parse: format!("ERR {}", e.text), lint: String::new(), cli_layer: cli_layer(src), stdout: vec![], result: String::new() }, vec![])),
        Ok(prog) => {
            let parse = format!("{:?}", prog);
            let lint = match mon::lint_guarded(&prog, LintWhich::Standard) {
                Ok(d) => format!("{:?}", d),
                Err(p) => format!("PANIC {}", p.signature()),
            };
            let cli_layer = cli_layer(src);
            if !do_exec {
                return Some((Observation { parse, lint, cli_layer, stdout: vec![], result: String::new() }, vec![]));
            }
            let opts = ExecOpts { fuel: 50_000, log_events: false, log_dict: true, trap: true };
            match mon::exec_guarded(&prog, stdin, &opts) {
                ExecOutcome::Done(run) => {
                    let orders: Vec<Vec<String>> = run.dict_orders.iter().map(|(_, k)| k.clone()).collect();
                    ctx.sites.absorb();
                    Some((Observation { parse, lint, cli_layer, stdout: run.stdout, result: format!("{:?}", run.result) }, orders))
                }
                ExecOutcome::Panicked(p, out) => {
                    ctx.sites.absorb();
                    Some((Observation { parse, lint, cli_layer, stdout: out, result: format!("PANIC {}", p.signature()) }, vec![]))
                }
            }
        }
    }
}

pub fn check_repeats(ctx: &mut Ctx, src: &str, stdin: &[u8], reps: usize, origin: &str, entries: usize) {
    let mut first: Option<Observation> = None;
    let mut raw_orders: Vec<Vec<Vec<String>>> = Vec::new();
    let do_exec = origin != "lint_dense";
    // one Linter value used for every repetition: a run must not depend on the runs before it
    let mut reused = mon::ReusedLinter::new();
    let mut reused_first: Option<String> = None;
    for i in 0..reps {
        if let Ok(prog) = mon::parse_quiet(src) {
            let got = match reused.run(&prog) {
                Ok(d) => format!("{:?}", d),
                Err(p) => format!("PANIC {}", p.signature()),
            };
            ctx.count("lint_runs_with_a_reused_linter");
            match &reused_first {
                None => reused_first = Some(got),
                Some(f) if *f != got => {
                    ctx.violation(
                        "repeat_differs:lint_diagnostics_of_a_reused_linter",
                        &format!("run 1: {}\nrun {}: {}", f.chars().take(400).collect::<String>(), i + 1, got.chars().take(400).collect::<String>()),
                        case_src_in(src, stdin).with("origin", Json::s(origin)),
                    );
                    return;
                }
                _ => {}
            }
        }
        ctx.eval();
        let (obs, orders) = match observe_opt(src, stdin, ctx, do_exec) {
            Some(x) => x,
            None => {
                ctx.count("parse_panicked_skipped");
                return;
            }
        };
        if !raw_orders.contains(&orders) {
            raw_orders.push(orders);
        }
        match &first {
            None => first = Some(obs),
            Some(f) => {
                ctx.count("comparisons");
                if *f != obs {
                    let what = if f.parse != obs.parse {
                        "parse_tree"
                    } else if f.lint != obs.lint {
                        "lint_diagnostics"
                    } else if f.cli_layer != obs.cli_layer {
                        "lint_or_parse_output_of_the_cli_layer"
                    } else if f.stdout != obs.stdout {
                        "stdout"
                    } else {
                        "result_or_error_text"
                    };
                    ctx.violation(
                        &format!("repeat_differs:{}", what),
                        &format!(
                            "repetition {} differs from repetition 0 in {}:\n first: {:?} / {:?}\n  this: {:?} / {:?}",
                            i,
                            what,
                            String::from_utf8_lossy(&f.stdout),
                            f.result,
                            String::from_utf8_lossy(&obs.stdout),
                            obs.result
                        ),
                        case_src_in(src, stdin).with("origin", Json::s(origin)),
                    );
                    return;
                }
            }
        }
    }
    if first.as_ref().map_or(false, |f| f.parse.starts_with("ERR ")) {
        ctx.count(&format!("rejected_by_parser.{}", origin));
        return;
    }
    ctx.count(&format!("programs.{}", origin));
    if entries >= 2 {
        ctx.count("programs_with_two_or_more_dictionary_entries");
    }
    if raw_orders.len() >= 2 {
        // the runs really differed underneath: the same program saw different raw hash orders
        ctx.count("programs_with_distinct_raw_hash_orders_observed");
        ctx.nontrivial(hash_str(src));
    }
}

fn corpus_program(rng: &mut Rng) -> Program {
    match rng.below(4) {
        0 => crate::props::c04::program(rng).0,
        1 => crate::props::c05::program(rng).0,
        2 => crate::props::c06::history(rng, 8).tree,
        _ => {
            let mut scratch = Ctx::new("scratch", crate::ctx::Tier::Quick, 0, 0, 1, "none");
            crate::props::c07::case(rng, &mut scratch)
        }
    }
}

/// `vcheck emit C10`: write programs for the cross-process stage of the driver
pub fn emit(dir: &str, seed: u64, n: usize) {
    for i in 0..n {
        let mut rng = Rng::new(crate::rng::mix(&[seed, 0xC10, i as u64]));
        let (p, _) = dict_program(&mut rng);
        let text = render_plain(&p);
        let _ = std::fs::write(format!("{}/case_{}.rock", dir, i), text);
    }
}

pub fn run(ctx: &mut Ctx) {
    let reps = if ctx.is_quick() { 8 } else { 32 };
    if ctx.miri {
        ctx.cases("miri", ctx.nshards as u64, |ctx, rng, _| {
            let (p, entries) = dict_program(rng);
            check_repeats(ctx, &render_plain(&p), b"", 2, "dictionary", entries);
        });
        return;
    }
    let n = ctx.size(12_000, 300_000);
    ctx.cases("dictionary", n, |ctx, rng, _| {
        let (p, entries) = dict_program(rng);
        let sp = if rng.coin() { Spelling::canonical() } else { Spelling::mild(rng) };
        let text = match render(&p, &sp, rng) {
            Ok(r) => r.text,
            Err(_) => return,
        };
        if ctx.samples.len() < 3 {
            ctx.sample(case_src_in(&text, b""));
        }
        check_repeats(ctx, &text, b"", reps, "dictionary", entries);
    });
    // programs with several diagnostics on one line (parse + lint only: these are not meant to run)
    let n = ctx.size(6_000, 150_000);
    ctx.cases("lint_dense", n, |ctx, rng, _| {
        let x = simple("Xeno");
        let y = simple("Yara");
        let mut ss = Vec::new();
        let k = rng.range(1, 12);
        for _ in 0..k {
            ss.push(match rng.below(5) {
                0 => put(var(&x), &x),
                1 => Stmt::Assign { dest: Lhs::Ident(Ident::Name(x.clone())), op: None, value: vec![num(rng.below(9) as f64)] },
                2 => Stmt::Assign { dest: Lhs::Ident(Ident::Name(x.clone())), op: Some(BinOp::Plus), value: vec![var(&x), var(&y), var(&y)] },
                3 => say(bin(BinOp::Plus, var(&y), var(&y))),
                _ => Stmt::Call { name: y.clone(), args: vec![var(&x), var(&x)] },
            });
        }
        if let Ok(r) = render(&Program::single(ss), &Spelling::canonical(), rng) {
            check_repeats(ctx, &r.text, b"", reps, "lint_dense", 0);
        }
    });
    let n = ctx.size(6_000, 150_000);
    ctx.cases("corpus", n, |ctx, rng, _| {
        let p = corpus_program(rng);
        // only programs the reference model follows to the end within its budget: the others may legitimately
        // allocate without bound (seen: one of them took a whole shard with it in a thorough run)
        let model = crate::refi::run(&p, b"line\n", &crate::refi::Budget::default());
        if !matches!(model.outcome, crate::refi::RefOutcome::Ok | crate::refi::RefOutcome::Error(_)) {
            ctx.count("corpus_programs_outside_the_models_budget_skipped");
            return;
        }
        let text = match render(&p, &Spelling::canonical(), rng) {
            Ok(r) => r.text,
            Err(_) => return,
        };
        check_repeats(ctx, &text, b"line\n", reps.min(4), "corpus", 0);
    });
}
