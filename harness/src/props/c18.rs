//! C18 — constant-assignment lint is exact and its suggested rewrite is equivalent.

use crate::ctx::Ctx;
use crate::gen::SynGen;
use crate::json::Json;
use crate::mast::*;
use crate::mon::{self, DiagRec, ExecOpts, ExecOutcome, LintWhich};
use crate::props::c17::const_expr;
use crate::refi::ulp_distance;
use crate::render::{render, Rendered, Spelling};
use crate::rng::{hash_str, Rng};

/// value of an all-constant arithmetic expression (number literals, unary minus, + - * / with
/// list operands), None if the expression is not of that form
pub fn const_value(e: &Expr) -> Option<f64> {
    match e {
        Expr::Prim(Prim::Lit(Lit::Num(n))) => Some(*n),
        Expr::Un(UnOp::Minus, x) => const_value(x).map(|v| -v),
        Expr::Bin(op, l, r) => {
            let mut acc = const_value(l)?;
            for x in r {
                let v = const_value(x)?;
                acc = match op {
                    BinOp::Plus => acc + v,
                    BinOp::Minus => acc - v,
                    BinOp::Multiply => acc * v,
                    BinOp::Divide => acc / v,
                    _ => return None,
                };
            }
            Some(acc)
        }
        _ => None,
    }
}

#[derive(Clone, Debug, PartialEq)]
pub enum Boring {
    Num(f64),
    Str(String),
}

#[derive(Clone, Debug)]
pub struct Expected {
    pub stmt_index: usize,
    pub value: Boring,
    pub target: String,
    pub target_is_plain_variable: bool,
    pub push: bool,
}

fn lhs_render(l: &Lhs) -> (String, bool) {
    match l {
        Lhs::Ident(Ident::Name(n)) => (n.text(), true),
        Lhs::Ident(Ident::Pronoun) => ("<pronoun>".into(), false),
        Lhs::Sub(..) => ("<expression>".into(), false),
    }
}

fn prim_render(p: &Prim) -> (String, bool) {
    match p {
        Prim::Ident(Ident::Name(n)) => (n.text(), true),
        Prim::Ident(Ident::Pronoun) => ("<pronoun>".into(), false),
        Prim::Lit(_) => ("<literal>".into(), false),
        _ => ("<expression>".into(), false),
    }
}

fn boring_of(e: &Expr) -> Option<Boring> {
    if let Some(v) = const_value(e) {
        return Some(Boring::Num(v));
    }
    if let Expr::Prim(Prim::Lit(Lit::Str(s))) = e {
        return Some(Boring::Str(s.clone()));
    }
    None
}

/// the model: which statements (pre-order index) must be reported, with what
pub fn expected(p: &Program) -> Vec<Expected> {
    let mut out = Vec::new();
    let mut idx = 0usize;
    p.for_each_stmt(&mut |s| {
        match s {
            Stmt::Assign { dest, op: None, value } if value.len() == 1 => {
                if let Some(b) = boring_of(&value[0]) {
                    let (t, plain) = lhs_render(dest);
                    out.push(Expected { stmt_index: idx, value: b, target: t, target_is_plain_variable: plain, push: false });
                }
            }
            Stmt::PoeticNum { dest, rhs: PoeticRhs::Expr(e) } => {
                if let Some(b) = boring_of(e) {
                    let (t, plain) = lhs_render(dest);
                    out.push(Expected { stmt_index: idx, value: b, target: t, target_is_plain_variable: plain, push: false });
                }
            }
            Stmt::Push { array, value: Some(PushRhs::List(es)) } if es.len() == 1 => {
                if let Some(v) = const_value(&es[0]) {
                    let (t, plain) = prim_render(array);
                    out.push(Expected { stmt_index: idx, value: Boring::Num(v), target: t, target_is_plain_variable: plain, push: true });
                }
            }
            _ => {}
        }
        idx += 1;
    });
    out
}

fn has_poetic_spelling(b: &Boring) -> bool {
    match b {
        Boring::Num(v) => v.is_finite() && !v.is_sign_negative(),
        Boring::Str(s) => !s.contains('\n') && !s.contains('\r'),
    }
}

/// the digits a run of `*` words and periods spells
fn spelled_numeral(words: &str) -> Option<String> {
    let mut out = String::new();
    let mut run = 0usize;
    let flush = |run: &mut usize, out: &mut String| {
        if *run > 0 {
            out.push(char::from(b'0' + (*run % 10) as u8));
            *run = 0;
        }
    };
    for c in words.chars() {
        match c {
            '*' => run += 1,
            ' ' => flush(&mut run, &mut out),
            '.' => {
                flush(&mut run, &mut out);
                out.push('.');
            }
            _ => return None,
        }
    }
    flush(&mut run, &mut out);
    Some(out)
}

fn check_suggestion(ctx: &mut Ctx, ex: &Expected, d: &DiagRec, src: &str) -> Result<(), (String, String)> {
    let prefix = "Consider using a poetic literal such as: `";
    if !has_poetic_spelling(&ex.value) {
        if !d.suggestions.is_empty() {
            return Err((
                "suggestion_for_a_value_without_poetic_spelling".into(),
                format!("value {:?} has no poetic spelling but the linter suggests {:?}", ex.value, d.suggestions),
            ));
        }
        ctx.count("values_without_poetic_spelling_handled");
        return Ok(());
    }
    if d.suggestions.len() != 1 || !d.suggestions[0].starts_with(prefix) || !d.suggestions[0].ends_with('`') {
        return Err(("suggestion_missing_or_malformed".into(), format!("suggestions {:?}", d.suggestions)));
    }
    let payload = &d.suggestions[0][prefix.len()..d.suggestions[0].len() - 1];
    match &ex.value {
        Boring::Num(v) => {
            let head = if ex.push { format!("Rock {} like ", ex.target) } else { format!("{} is ", ex.target) };
            let words = match payload.strip_prefix(&head) {
                Some(w) => w,
                None => return Err(("suggestion_does_not_name_the_target".into(), format!("payload {:?}, expected to start with {:?}", payload, head))),
            };
            let numeral = spelled_numeral(words).ok_or_else(|| ("suggestion_words_malformed".to_string(), format!("words {:?}", words)))?;
            let want = format!("{}", v);
            if numeral != want {
                return Err((
                    "suggestion_words_do_not_spell_the_value".into(),
                    format!("value {} but the words {:?} spell {}", want, words, numeral),
                ));
            }
            ctx.count("suggestions_spelling_checked");
            if ex.target_is_plain_variable {
                // the line is a valid statement that gives the variable that value (poetic rounding)
                let line = payload.replace('*', "x");
                let probe = if ex.push { format!("{}\nsay {} at 0\n", line, ex.target) } else { format!("{}\nsay {}\n", line, ex.target) };
                let prog = mon::parse_quiet(&probe).map_err(|e| ("suggestion_does_not_parse".to_string(), format!("{:?}: {}", probe, e)))?;
                match mon::exec_guarded(&prog, b"", &ExecOpts::default()) {
                    ExecOutcome::Done(run) if run.result.is_ok() => {
                        let got = String::from_utf8_lossy(&run.stdout).trim_end().to_string();
                        let g: f64 = got.parse().map_err(|_| ("suggestion_gives_another_value".to_string(), format!("{:?} printed {:?}", probe, got)))?;
                        let integral = v.fract() == 0.0 && v.abs() < 9007199254740992.0;
                        let d = ulp_distance(g, *v);
                        // "up to the rounding of poetic literals": C11 bounds that rounding (4 ulp) for
                        // literals of up to 25 words; a constant whose decimal text is longer (1e-300 has
                        // 300 digits) is only required to come back to 9 significant digits
                        let digits = want.chars().filter(|c| c.is_ascii_digit()).count();
                        if digits > 25 {
                            ctx.count("suggestions_with_more_than_25_digits");
                            let rel = if *v == 0.0 { g.abs() } else { ((g - v) / v).abs() };
                            if !(rel <= 1e-9 || v.abs() < 1e-290) {
                                return Err(("suggestion_gives_another_value".into(), format!("{:?} gives {} instead of {}", probe.chars().take(200).collect::<String>(), g, v)));
                            }
                        } else if (integral && g != *v) || d > 8 {
                            return Err(("suggestion_gives_another_value".into(), format!("{:?} gives {} instead of {} ({} ulp)", probe, g, v, d)));
                        }
                        ctx.count("suggestions_round_tripped");
                    }
                    other => return Err(("suggestion_does_not_run".into(), format!("{:?}: {:?}", probe, other))),
                }
            }
        }
        Boring::Str(s) => {
            let want = format!("{} says {}", ex.target, s);
            if payload != want {
                return Err(("string_suggestion_differs".into(), format!("payload {:?}, expected {:?}", payload, want)));
            }
            ctx.count("suggestions_spelling_checked");
            let balanced = s.matches('(').count() == s.matches(')').count() && !s.contains('"');
            if ex.target_is_plain_variable && balanced {
                let probe = format!("{}\nsay {}\n", payload, ex.target);
                let prog = mon::parse_quiet(&probe).map_err(|e| ("suggestion_does_not_parse".to_string(), format!("{:?}: {}", probe, e)))?;
                match mon::exec_guarded(&prog, b"", &ExecOpts::default()) {
                    ExecOutcome::Done(run) if run.result.is_ok() && run.stdout == format!("{}\n", s).as_bytes() => ctx.count("suggestions_round_tripped"),
                    other => return Err(("suggestion_gives_another_value".into(), format!("{:?}: {:?}", probe, other))),
                }
            }
        }
    }
    let _ = src;
    Ok(())
}

pub fn check_program(ctx: &mut Ctx, tree: &Program, r: &Rendered) {
    let src = &r.text;
    let case = || Json::obj().with("src", Json::s(src));
    let prog = match mon::parse_quiet(src) {
        Ok(p) => p,
        Err(_) => {
            ctx.count("base_program_did_not_parse");
            return;
        }
    };
    ctx.eval();
    let diags = match mon::lint_guarded(&prog, LintWhich::Boring) {
        Ok(d) => d,
        Err(p) => {
            ctx.sites.absorb();
            ctx.panic_outcome("lint", &p, case());
            return;
        }
    };
    ctx.sites.absorb();
    let exp = expected(tree);
    ctx.add("candidate_statements", exp.len() as u64);
    ctx.count("programs");
    if diags.len() != exp.len() {
        ctx.violation(
            if diags.len() > exp.len() { "reported_too_many" } else { "reported_too_few" },
            &format!(
                "{} diagnostics, the model expects {} ({:?})\ngot: {:?}",
                diags.len(),
                exp.len(),
                exp.iter().map(|e| (e.stmt_index, &e.value, &e.target)).collect::<Vec<_>>(),
                diags.iter().map(|d| (d.line, &d.issue)).collect::<Vec<_>>()
            ),
            case(),
        );
        return;
    }
    // diagnostics come sorted by line; candidates are in source order = line order
    let ast_stmts = crate::conv::statements_preorder(&prog);
    for (ex, d) in exp.iter().zip(diags.iter()) {
        let st = &r.stmts[ex.stmt_index];
        let value_text = match &ex.value {
            Boring::Num(v) => format!("`{}`", v),
            Boring::Str(s) => format!("`\"{}\"`", s),
        };
        if !d.issue.contains(&value_text) || !d.issue.contains(&format!("`{}`", ex.target)) {
            ctx.violation(
                "issue_names_wrong_value_or_target",
                &format!("expected value {} and target `{}` in {:?}", value_text, ex.target, d.issue),
                case(),
            );
            return;
        }
        if st.line == st.end_line {
            if d.line != st.line {
                ctx.violation(
                    "diagnostic_on_wrong_line",
                    &format!("statement on line {} reported on line {}: {}", st.line, d.line, d.issue),
                    case(),
                );
                return;
            }
            ctx.count("diagnostic_lines_checked");
        } else {
            // A statement stretched over several lines (a multi-line string or comment inside it): "the correct
            // line" is read as the line the syntax tree itself gives the value expression (assignments) or the
            // array (pushes) - whose ranges C12 checks against the source. See DESIGN.md, C18.
            use rrss::frontend::ast::{PoeticAssignment, PoeticNumberAssignmentRHS, Statement};
            use rrss::frontend::source_range::Line;
            let want = match ast_stmts.get(ex.stmt_index) {
                Some(Statement::Assignment(a)) => Some(a.value.line()),
                Some(Statement::PoeticAssignment(PoeticAssignment::Number(a))) => match &a.rhs {
                    PoeticNumberAssignmentRHS::Expression(e) => Some(e.line()),
                    _ => None,
                },
                Some(Statement::ArrayPush(a)) => Some(a.array.line()),
                _ => None,
            };
            let want = match want {
                Some(w) if w >= st.line && w <= st.end_line => w,
                _ => {
                    ctx.count("multi_line_statement_not_located");
                    continue;
                }
            };
            if d.line != want {
                ctx.violation(
                    "diagnostic_on_wrong_line:multi_line_statement",
                    &format!("statement on lines {}-{} (value/array starts on line {}) reported on line {}: {}", st.line, st.end_line, want, d.line, d.issue),
                    case(),
                );
                return;
            }
            ctx.count("multi_line_statement_lines_checked");
        }
        ctx.max("max_depth_of_reported_statement", st.depth as u64);
        if let Err((sig, detail)) = check_suggestion(ctx, ex, d, src) {
            ctx.violation(&sig, &detail, case().with("diagnostic", Json::s(format!("{:?}", d))));
            return;
        }
        ctx.count("diagnostics_matched");
        ctx.seen("value_classes", match &ex.value {
            Boring::Num(v) if v.is_nan() => "NaN",
            Boring::Num(v) if v.is_infinite() => "infinite",
            Boring::Num(v) if *v == 0.0 && v.is_sign_negative() => "negative_zero",
            Boring::Num(v) if *v < 0.0 => "negative",
            Boring::Num(v) if *v == 0.0 => "zero",
            Boring::Num(v) if v.fract() != 0.0 => "fraction",
            Boring::Num(v) if *v >= 1e15 => "huge",
            Boring::Num(_) => "integer",
            Boring::Str(s) if s.contains('\n') => "multi_line_string",
            Boring::Str(s) if s.is_empty() => "empty_string",
            Boring::Str(_) => "string",
        });
    }
    if !exp.is_empty() {
        ctx.nontrivial(hash_str(src));
    }
}

/// statements of all assignment forms with constants of every class, and near-misses
fn assignment_stmt(rng: &mut Rng, g: &mut Vec<Name>) -> Stmt {
    let name = rng.pick(g).clone();
    let dest = match rng.below(6) {
        0 => Lhs::Ident(Ident::Pronoun),
        1 => Lhs::Sub(Box::new(pvar(&name)), Box::new(Prim::Lit(Lit::Num(rng.below(3) as f64)))),
        _ => Lhs::Ident(Ident::Name(name.clone())),
    };
    let constant: Expr = match rng.below(14) {
        0 => num(0.0),
        1 => num(*rng.pick(&[10.0, 100.0, 1000.0, 1e21, 1e15])),
        2 => num(*rng.pick(&[0.5, 3.14, 0.0000001, 2.25, 100.001])),
        3 => Expr::Un(UnOp::Minus, Box::new(num(*rng.pick(&[1.0, 0.0, 2.5])))),
        4 => bin(BinOp::Divide, num(*rng.pick(&[1.0, 0.0])), num(0.0)),
        5 => bin(BinOp::Divide, Expr::Un(UnOp::Minus, Box::new(num(1.0))), num(0.0)),
        6 => strlit(*rng.pick(&["hello", "Hello, World!", "", " padded ", "it's (fine)", "é 日本", "say 1", "1"])),
        7 => strlit(*rng.pick(&["two\nlines", "hello\n", "\n", "\nhello", "a\n\nb", "three\nshort\nlines", " \n "])),
        8 | 9 => {
            let d = rng.range(1, 4);
            const_expr(rng, d, 2)
        }
        _ => num(rng.below(1000) as f64),
    };
    let non_constant: Expr = match rng.below(6) {
        0 => var(rng.pick(g)),
        1 => bin(BinOp::Plus, num(1.0), var(rng.pick(g))),
        2 => Expr::Prim(Prim::Lit(Lit::Bool(rng.coin()))),
        3 => bin(BinOp::Plus, strlit("a"), num(1.0)),
        4 => bin(BinOp::Eq, num(1.0), num(1.0)),
        _ => Expr::Prim(Prim::Lit(Lit::Null)),
    };
    let value = if rng.chance(3, 4) { constant } else { non_constant };
    match rng.below(10) {
        0 | 1 | 2 | 3 => Stmt::Assign { dest, op: None, value: vec![value] },
        4 => Stmt::Assign { dest, op: Some(*rng.pick(&BinOp::ARITH)), value: vec![value] },
        5 => {
            // a list: not a single constant
            if value.is_unary_level() && !value.starts_with_unary_minus() {
                Stmt::Assign { dest, op: None, value: vec![value, num(2.0)] }
            } else if rng.chance(1, 8) && !value.starts_with_unary_minus() {
                // a list where a single value belongs (`let x be 1, 2`): not a single constant, never reported
                Stmt::Assign { dest, op: None, value: vec![value, num(2.0)] }
            } else {
                Stmt::Assign { dest, op: None, value: vec![value] }
            }
        }
        6 | 7 => {
            // poetic assignment with an ordinary expression (must start with a literal or -number)
            let ok = match value.leftmost_prim() {
                Some(Prim::Lit(_)) => true,
                _ => matches!(&value, Expr::Un(UnOp::Minus, x) if matches!(**x, Expr::Prim(Prim::Lit(Lit::Num(_))))),
            };
            if ok {
                Stmt::PoeticNum { dest, rhs: PoeticRhs::Expr(value) }
            } else {
                Stmt::PoeticNum { dest, rhs: PoeticRhs::Lit(vec![PoeticElem::Word("a".into()), PoeticElem::Word("rose".into())]) }
            }
        }
        8 => {
            // the target of a push is any primary expression
            let array = match rng.below(8) {
                0 => Prim::Pop(Box::new(pvar(&name))),
                1 => Prim::Lit(Lit::Num(5.0)),
                2 => Prim::Sub(Box::new(pvar(&name)), Box::new(Prim::Lit(Lit::Num(0.0)))),
                3 => Prim::Ident(Ident::Pronoun),
                _ => pvar(&name),
            };
            Stmt::Push { array, value: Some(PushRhs::List(vec![value])) }
        }
        _ => Stmt::Push {
            array: pvar(&name),
            value: Some(if rng.coin() {
                PushRhs::Poetic(vec![PoeticElem::Word("the".into()), PoeticElem::Word("wind".into())])
            } else {
                PushRhs::List(vec![num(1.0), num(2.0)])
            }),
        },
    }
}

fn program(rng: &mut Rng) -> Program {
    let mut names = crate::gen::name_pool(rng, 3, false);
    fn block(rng: &mut Rng, names: &mut Vec<Name>, depth: usize, in_fn_tail: bool) -> Vec<Stmt> {
        let n = rng.range(1, 4);
        let mut v = Vec::new();
        for i in 0..n {
            if depth > 0 && rng.chance(1, 4) {
                let body = block(rng, names, depth - 1, false);
                match rng.below(4) {
                    0 => v.push(Stmt::If { cond: var(&names[0]), then: body, els: if (!in_fn_tail || i + 1 == n) && rng.coin() { Some(block(rng, names, depth - 1, false)) } else { None } }),
                    1 => v.push(Stmt::While { cond: var(&names[0]), body }),
                    2 => v.push(Stmt::Until { cond: var(&names[0]), body }),
                    _ => {
                        let fname = crate::gen::fresh_name(rng, false);
                        let b = block(rng, names, depth - 1, true);
                        v.push(Stmt::Function { name: fname, params: vec![names[1].clone()], body: b });
                    }
                }
            } else if rng.chance(1, 6) {
                v.push(say(var(&names[0])));
            } else {
                v.push(assignment_stmt(rng, names));
            }
        }
        // if/else inside a function body only as its last statement
        if in_fn_tail {
            let last = v.len() - 1;
            for (i, s) in v.iter_mut().enumerate() {
                if i != last {
                    if let Stmt::If { els, .. } = s {
                        *els = None;
                    }
                }
            }
        }
        v
    }
    let nb = rng.range(1, 2);
    let mut blocks = Vec::new();
    for _ in 0..nb {
        let d = rng.range(0, 3);
        blocks.push(block(rng, &mut names, d, false));
    }
    Program { blocks }
}

pub fn run(ctx: &mut Ctx) {
    let n = ctx.size(40_000, 1_200_000);
    ctx.cases("programs", n, |ctx, rng, _| {
        let tree = program(rng);
        let mut sp = Spelling::mild(rng);
        sp.multiline_comments = false;
        let r = match render(&tree, &sp, rng) {
            Ok(r) => r,
            Err(e) => {
                ctx.count("generator_inexpressible");
                ctx.seen("generator_inexpressible_reasons", &e.0);
                return;
            }
        };
        if ctx.samples.len() < 3 && r.text.len() < 500 && !expected(&tree).is_empty() {
            if let Ok(p) = mon::parse_quiet(&r.text) {
                if let Ok(d) = mon::lint_guarded(&p, LintWhich::Boring) {
                    ctx.sample(Json::obj().with("src", Json::s(&r.text)).with("diagnostics", Json::Arr(d.iter().map(|x| Json::s(format!("line {}: {} / {:?}", x.line, x.issue, x.suggestions))).collect())));
                }
            }
        }
        check_program(ctx, &tree, &r);
    });
    // the same programs with comments that contain line breaks between any two tokens
    let n = ctx.size(10_000, 300_000);
    ctx.cases("multi_line_statements", n, |ctx, rng, _| {
        let tree = program(rng);
        let mut sp = Spelling::mild(rng);
        sp.multiline_comments = true;
        sp.comments = true;
        if let Ok(r) = render(&tree, &sp, rng) {
            check_program(ctx, &tree, &r);
        }
    });
    // arbitrary syntax-directed programs: exactness of WHICH statements are reported
    let n = ctx.size(10_000, 300_000);
    ctx.cases("random_trees", n, |ctx, rng, _| {
        let tree = {
            let mut g = SynGen::new(rng);
            g.max_block_depth = 2;
            g.max_expr_depth = 3;
            g.wild_strings = false;
            g.program()
        };
        let mut sp = Spelling::mild(rng);
        sp.multiline_comments = false;
        if let Ok(r) = render(&tree, &sp, rng) {
            check_program(ctx, &tree, &r);
        }
    });
}
