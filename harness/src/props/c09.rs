//! C09 — running any parseable program never crashes the interpreter.
//!
//! Outcome monitor + H1 (armed) + statement/loop fuel (H3), every execution isolated in a forked
//! child with address-space and CPU limits so that a segfault, abort or runaway allocation is
//! attributed to one case. The reference model is only used to tell programs whose execution
//! provably terminates within the budget (fuel exhaustion there is a violation) from programs it
//! cannot follow (fuel / resource exhaustion there is inconclusive).

use crate::conv;
use crate::ctx::Ctx;
use crate::gen::SynGen;
use crate::json::Json;
use crate::mast::*;
use crate::mon::{self, ExecOpts, ExecOutcome, PanicClass};
use crate::props::case_src_in;
use crate::refi::{self, RefOutcome};
use crate::render::{render, render_plain, Spelling};
use crate::rng::{hash_str, Rng};
use crate::vals::{build_stmts, universe};
use std::io::Write;

const CHILD_AS_LIMIT: u64 = 3 << 30; // 2 GiB stack mapping + 1 GiB heap
const CHILD_CPU_SECS: u64 = 10;

fn exec_report(prog: &rrss::frontend::ast::Program, stdin: &[u8], fuel: u64, w: &mut dyn Write) {
    let opts = ExecOpts { fuel, log_events: false, log_dict: false, trap: true };
    let out = mon::exec_guarded(prog, stdin, &opts);
    for s in rrss::verif::take_sites() {
        let _ = writeln!(w, "SITE\t{}\t{}\t{}", s.name, s.reached, s.violated);
    }
    match out {
        ExecOutcome::Done(run) => {
            let _ = writeln!(w, "STMTS\t{}", run.stmts);
            match run.result {
                Ok(()) => {
                    let _ = writeln!(w, "OK");
                }
                Err(_) => {
                    let _ = writeln!(w, "ERR\t{}", run.err_kind.unwrap_or_default());
                }
            }
        }
        ExecOutcome::Panicked(p, _) => {
            let class = match p.class {
                PanicClass::Fuel => "fuel",
                PanicClass::Precondition => "precondition",
                PanicClass::Resource => "resource",
                PanicClass::Other => "other",
            };
            let _ = writeln!(w, "PANIC\t{}\t{}\t{} at {}", class, p.signature(), p.msg.replace('\n', " "), p.loc);
        }
    }
}

pub fn check_case(ctx: &mut Ctx, src: &str, stdin: &[u8], origin: &str) {
    let case = || case_src_in(src, stdin).with("origin", Json::s(origin));
    let parsed = match mon::parse_guarded(src, 1000, true) {
        Err(p) => {
            ctx.sites.absorb();
            ctx.panic_outcome("parse", &p, case());
            return;
        }
        Ok(r) => r,
    };
    ctx.sites.absorb();
    let prog = match parsed.result {
        Ok(p) => p,
        Err(_) => {
            ctx.count(&format!("not_parseable.{}", origin));
            return;
        }
    };
    ctx.count(&format!("programs.{}", origin));
    // what does the reference model know about this program?
    let tree = conv::program(&prog);
    let model = refi::run(&tree, stdin, &refi::Budget { steps: 5_000, call_depth: 64 });
    let known = matches!(model.outcome, RefOutcome::Ok | RefOutcome::Error(_));
    // Programs the model sees leaving the budget (huge index, huge repeat count, too many steps)
    // are still run: rrss may well answer with a runtime error, and it must not crash doing so.
    // Whatever resource-class ending they have (allocation failure, CPU limit, fuel) is inconclusive.
    let over_budget = matches!(model.outcome, RefOutcome::OverBudget(_));
    if over_budget && ctx.miri {
        // no process isolation under Miri: these stay out there
        ctx.count("discarded_over_budget");
        return;
    }
    if over_budget {
        ctx.count("programs_over_the_models_budget_run_anyway");
    }
    let fuel = if known {
        model.steps * 8 + 1000
    } else if ctx.miri {
        300
    } else {
        20_000
    };
    ctx.eval();
    if known {
        ctx.count("programs_model_follows_to_the_end");
    } else {
        ctx.count("programs_beyond_the_model");
    }
    let mut report = Vec::new();
    let (exit_code, signal) = if ctx.miri {
        exec_report(&prog, stdin, fuel, &mut report);
        (Some(0), None)
    } else {
        // (programs already known to leave the budget get a small heap and little CPU: they are only
        // run to see that an early runtime error, if rrss answers with one, does not crash)
        let (heap, cpu) = if over_budget { ((2u64 << 30) + (192 << 20), 2) } else { (CHILD_AS_LIMIT, CHILD_CPU_SECS) };
        let r = mon::run_in_child(heap, cpu, |w| exec_report(&prog, stdin, fuel, w));
        report = r.output;
        (r.exit_code, r.signal)
    };
    let text = String::from_utf8_lossy(&report).to_string();
    let mut outcome_seen = false;
    for line in text.lines() {
        let f: Vec<&str> = line.split('\t').collect();
        match f[0] {
            "SITE" if f.len() == 4 => {
                let e = ctx.sites.0.entry(f[1].to_string()).or_insert((0, 0));
                e.0 += f[2].parse::<u64>().unwrap_or(0);
                e.1 += f[3].parse::<u64>().unwrap_or(0);
            }
            "STMTS" => ctx.max("max_statements_executed", f.get(1).and_then(|x| x.parse().ok()).unwrap_or(0)),
            "OK" => {
                outcome_seen = true;
                ctx.count("returned_ok");
                ctx.nontrivial(hash_str(src));
            }
            "ERR" => {
                outcome_seen = true;
                ctx.count("returned_runtime_error");
                ctx.seen("runtime_error_variants", f.get(1).copied().unwrap_or("?"));
                ctx.nontrivial(hash_str(src));
            }
            "PANIC" if f.len() >= 4 => {
                outcome_seen = true;
                match f[1] {
                    "resource" => ctx.inconclusive("resource_panic"),
                    "fuel" => {
                        if known {
                            ctx.violation(
                                "exec:fuel",
                                &format!("the model finishes this program in {} steps; rrss exhausted {} units of statement/loop fuel", model.steps, fuel),
                                case(),
                            );
                        } else {
                            ctx.inconclusive("fuel_exhausted_beyond_the_model");
                        }
                    }
                    "precondition" => {
                        let site = f[3].split(" at ").nth(1).unwrap_or("?");
                        ctx.violation(&format!("exec:precondition@{}", site), f[3], case());
                    }
                    _ => ctx.violation(&format!("exec:{}", f[2]), f[3], case()),
                }
            }
            _ => {}
        }
    }
    if let Some(sig) = signal {
        let name = mon::signal_name(sig);
        let tail: String = text.lines().filter(|l| !l.starts_with("SITE")).collect::<Vec<_>>().join(" / ").chars().take(400).collect();
        let resource = text.contains("memory allocation of")
            || text.contains("AddressSanitizer: out of memory")
            || text.contains("AddressSanitizer: allocation-size-too-big")
            || text.contains("AddressSanitizer: requested allocation size")
            || text.contains("AddressSanitizer failed to allocate")
            || text.contains("hard rss limit exhausted");
        if resource {
            ctx.inconclusive("allocation_failure_abort");
        } else if sig == 24 || sig == 9 {
            ctx.inconclusive("cpu_limit");
        } else if text.contains("has overflowed its stack") && !known {
            ctx.inconclusive("stack_overflow_beyond_the_model");
        } else {
            ctx.violation(&format!("exec:crash:{}", name), &format!("child process died with {}: {}", name, tail), case());
        }
    } else if !outcome_seen {
        if exit_code == Some(125) {
            ctx.inconclusive("fork_failed");
        } else {
            ctx.violation(&format!("exec:child_exit_{:?}_without_outcome", exit_code), &text.chars().take(400).collect::<String>(), case());
        }
    }
}

// ------------------------------------------------------------------------- workloads

fn stdin_for(rng: &mut Rng) -> Vec<u8> {
    match rng.below(4) {
        0 => Vec::new(),
        1 => b"5\nabc\n".to_vec(),
        2 => "é\n\n1e3\nlast".as_bytes().to_vec(),
        _ => b"0\n".to_vec(),
    }
}

/// W1: the ill-typed generator — the syntax-directed generator over a tiny pool of names that
/// are used as variables AND functions, with extreme numeric literals
fn w1(rng: &mut Rng) -> Option<String> {
    let bd = *rng.pick(&[1usize, 2, 3]);
    let mut g = SynGen::new(rng);
    g.max_block_depth = bd;
    g.max_expr_depth = 3;
    g.wild_strings = false;
    let pool = vec![simple("x"), simple("Y"), Name::Common("the".into(), "z".into()), Name::Proper(vec!["Tom".into(), "Fu".into()])];
    g.names = pool.clone();
    g.funcs = pool[..2].to_vec();
    g.pronoun_den = 5;
    let mut p = g.program();
    // loops in random programs rarely terminate: keep them, the fuel decides; but make some room
    // for interesting prefixes by putting definitions first
    if g.rng.coin() {
        let f = g.rng.pick(&pool).clone();
        let params = vec![g.rng.pick(&pool).clone()];
        let body = vec![Stmt::Return { value: var(&params[0]) }];
        if let Some(b) = p.blocks.first_mut() {
            b.insert(0, Stmt::Function { name: f, params, body });
        }
    }
    let sp = if g.rng.coin() { Spelling::canonical() } else { Spelling::mild(g.rng) };
    let rng2 = g.rng;
    render(&p, &sp, rng2).ok().map(|r| r.text)
}

const EXTREME: &[&str] = &[
    "-1", "0.5", "0 over 0", "1 over 0", "-1 over 0", "2147483648", "4294967296", "9007199254740992", "9223372036854775807",
    "9223372036854775808", "18446744073709551615", "18446744073709551616", "1e30", "1e300", "0.0000001",
];

/// statement templates with holes: {X} a variable holding the value, {V} an extreme number expression
const TEMPLATES: &[&str] = &[
    "say {X}", "build {X} up", "knock {X} down, down", "turn up {X}", "turn {X} round", "cut {X}", "cut {X} with {X}", "join {X}",
    "join {X} with {X}", "cast {X}", "cast {X} with {X}", "cast {X} with {V}", "cast \"zz\" into Q with {V}", "rock {X}", "rock {X} with {X}", "rock {X} like a rolling stone",
    "roll {X}", "roll {X} into Q", "say roll {X}", "let {X} at 0 be 1", "let {X} at {X} be 1", "let {X} at {V} be 1",
    "say {X} at 0", "say {X} at {X}", "say {X} at {V}", "say \"abc\" at {V}", "{X} taking 1", "say {X} taking 1, 2", "listen to {X}", "listen to {X} at {X}",
    "let {X} be with {X}", "let {X} be times {V}", "say \"ab\" times {V}", "say {X} times {V}", "say {V} times {X}", "if {X}\nsay 1\nelse\nsay 2\n\n", "while {X}\nsay 1\nbreak\n\n",
    "until {X}\nsay 1\nbreak\n\n", "give back {X}", "say 1\n\ngive back {X}\n\nsay 2", "{X} takes Q\ngive back Q\n\n", "Q takes {X}, {X}\ngive back 1\n\nsay Q taking 1, 2",
    "say -{X}", "say not {X}", "say {X} is {X}", "say {X} < {X}", "say {X} and {X}", "put {X} into it", "say it", "it is 5",
    "{X} is (c)'s cool", "{X} is , - b", "{X} is a. -b", "rock {X} like (c)'s", "{X} is 's", "let {X} at 0 at 1 at 2 be 3", "say {X} at 0 at 1",
    "cut {X} into {X}", "join {X} into {X} at 0", "turn up {X} at 0", "roll {X} at 0", "rock {X} at 0 with 1", "rock {X} at {V}", "let {X} be 1, 2",
    "{X} is a bb ccc dddd eeeee ffffff ggggggg hhhhhhhh iiiiiiiii jjjjjjjjjj k ll mmm\nsay {X}",
    "rock {X} like one two three four five six seven eight nine ten eleven twelve. thirteen fourteen\nsay {X} at 0",
    "{X} is . a bb ccc\nsay {X}", "{X} is a. bb ccc dddd eeeee ffffff ggggggg hhhhhhhh iiiiiiiii jjjjjjjjjj kkkkkkkkkkk llllllllllll\nsay {X}",
    "put {X} plus {X} into {X}", "knock it down", "rock it", "roll it", "cut it", "cast it with {V}",
];

/// W1b: every statement template applied to every value of the universe
fn w1b(idx: u64) -> Option<(String, String)> {
    let u = universe();
    let nt = TEMPLATES.len() as u64;
    let nu = u.len() as u64;
    let ne = EXTREME.len() as u64;
    let t = (idx % nt) as usize;
    let vi = ((idx / nt) % nu) as usize;
    let ei = ((idx / (nt * nu)) % ne) as usize;
    if idx >= nt * nu * ne {
        return None;
    }
    let tpl = TEMPLATES[t];
    if !tpl.contains("{V}") && ei != 0 {
        return None;
    }
    let x = simple("Xeno");
    let mut pre = Vec::new();
    build_stmts(&u[vi].v, &x, "tmpx", &mut pre);
    let mut src = render_plain(&Program::single(pre));
    src.push_str(&tpl.replace("{X}", "Xeno").replace("{V}", EXTREME[ei]));
    src.push('\n');
    Some((src, format!("{} / {}", tpl.replace('\n', "⏎"), u[vi].label)))
}

/// W1b': the same templates over long texts whose multi-byte characters straddle every byte offset (error
/// messages quote values, keys and names: a message that cannot be rendered is a failure of the property)
fn w1b_long(idx: u64) -> Option<(String, String)> {
    const CH: &[&str] = &["é", "日", "😀", "a\u{301}"];
    let nt = TEMPLATES.len() as u64;
    let nv = (CH.len() * 4 * 3) as u64;
    if idx >= nt * nv {
        return None;
    }
    let tpl = TEMPLATES[(idx % nt) as usize];
    let v = (idx / nt) as usize;
    let (ch, pre, shape) = (CH[v % CH.len()], (v / CH.len()) % 4, v / (CH.len() * 4));
    let text = format!("{}{}", "a".repeat(pre), ch.repeat(40));
    let mut src = match shape {
        0 => format!("Xeno is \"{}\"\n", text),
        1 => format!("rock Xeno with \"{}\", \"{}\"\n", text, text),
        _ => format!("let Xeno at \"{}\" be \"{}\"\n", text, text),
    };
    src.push_str(&tpl.replace("{X}", "Xeno").replace("{V}", "1"));
    src.push('\n');
    Some((src, format!("{} / long text {}+{}x40 shape {}", tpl.replace('\n', "⏎"), pre, ch, shape)))
}

/// W1c: programs the property names, and their neighbours
const NAMED: &[&str] = &[
    "Foo takes X\ngive back X\n\nput 1 into Foo",
    "Foo takes X\ngive back X\n\nrock Foo",
    "Foo takes X\ngive back X\n\nbuild Foo up",
    "Foo takes X\ngive back X\n\nlet Foo at 0 be 1",
    "Foo takes X\ngive back X\n\nlisten to Foo",
    "Foo takes X\ngive back X\n\ncut Foo",
    "Foo takes X\ngive back X\n\nturn up Foo",
    "Foo takes X\ngive back X\n\nroll Foo",
    "Foo takes X\ngive back X\n\nrock Foo taking 1 with 2",
    "Foo takes X\ngive back X\n\nif 1\nput 1 into Foo\nsay Foo\n\nsay Foo taking 2",
    "Foo takes X\nput 1 into Foo\ngive back Foo\n\nsay Foo taking 2",
    "Foo takes Foo\ngive back Foo\n\nsay Foo taking 2",
    "Foo takes X, X\ngive back X\n\nsay Foo taking 1, 2",
    "Foo takes X\ngive back X\n\nFoo takes Y\ngive back Y\n\n",
    "put 1 into Foo\nFoo takes X\ngive back X\n\n",
    "let X at 1e30 be 1",
    "rock X\nlet X at 18446744073709551615 be 1\nsay X",
    "rock X with 1, 2\nlet X at 18446744073709551614 be 1",
    "say \"abc\" at 1e30",
    "rock X\nsay X at 1e30",
    "X is \"ff\"\ncast X with 1",
    "X is \"ff\"\ncast X with 0",
    "X is \"ff\"\ncast X with 37",
    "X is \"ff\"\ncast X with 4294967312",
    "break\n\nbreak",
    "continue\n\ncontinue",
    "break\n\nsay 1\nsay 2",
    "give back 1\n\ngive back 2",
    "give back 1\n\nbreak",
    "say 1\nbreak\nsay 2\n\nsay 3\nsay 4",
    "Foo takes X\nbreak\n\nsay Foo taking 1\nbreak\n\nsay 2",
    "Foo takes X\ncontinue\nsay 1\n\nsay Foo taking 1",
    "while 1\nFoo takes X\nbreak\n\nsay Foo taking 1\nbreak\n\n",
    "X is (c)'s cool",
    "X is , - b",
    "X is a. -b\nsay X",
    "rock X like (c)'s\nsay X",
    "X is (a)'re (b)'s\nsay X",
    "say roll 5",
    "roll \"abc\" into X",
    "rock 5 with 1",
    "turn up 1.5",
    "turn up X plus Y",
    "let X be 1, 2, 3",
    "F taking 1",
    "say it",
    "it is 5",
    "put 1 into it",
    "Foo takes X\nsay it\n\nput 1 into Y\nFoo taking Y",
    "Deep takes N\nif N is 0\ngive back 0\n\nput N minus 1 into M\ngive back Deep taking M\n\nsay Deep taking 60",
    "Deep takes N\ngive back Deep taking N\n\nsay Deep taking 1",
    "say \"a\" times 1e30",
    "say \"\" times 1e30",
    "say \"ab\" times 0.5",
    "listen to X\nlisten to Y\nsay X plus Y",
    "let X at \"k\" be 1\nlet X at \"j\" be 2\njoin X\nsay X",
    "let X at \"k\" be 1\nlet X at \"j\" be \"b\"\njoin X\nsay X",
    "let X at mysterious be 1\nlet X at null be 2\nlet X at true be 3\nsay X at mysterious plus X at null plus X at true\ncast X",
    "put 65 into X\ncast X with 2",
    "put 1114112 into X\ncast X",
    "put -1 into X\ncast X",
    "put 55296 into X\ncast X",
];

/// W2: tree-level mutation of a valid program (swap operand kinds, delete definitions, reorder)
pub fn mutate_tree(rng: &mut Rng, p: &mut Program) {
    let n = rng.range(1, 3);
    for _ in 0..n {
        let nb = p.blocks.len();
        if nb == 0 {
            return;
        }
        let b = rng.below(nb);
        let block = &mut p.blocks[b];
        if block.is_empty() {
            continue;
        }
        let i = rng.below(block.len());
        match rng.below(6) {
            0 => {
                if block.len() > 1 {
                    block.remove(i);
                }
            }
            1 => {
                let j = rng.below(block.len());
                block.swap(i, j);
            }
            2 => {
                let s = block[i].clone();
                block.insert(i, s);
            }
            _ => mutate_stmt(rng, &mut block[i]),
        }
    }
}

fn random_leaf(rng: &mut Rng) -> Expr {
    match rng.below(9) {
        0 => Expr::Prim(Prim::Lit(Lit::Mysterious)),
        1 => Expr::Prim(Prim::Lit(Lit::Null)),
        2 => Expr::Prim(Prim::Lit(Lit::Bool(rng.coin()))),
        3 => strlit(*rng.pick(&["", "abc", "12"])),
        4 => num(*rng.pick(&[0.0, 0.5, 1e30, 4294967296.0, 9007199254740992.0])),
        5 => Expr::Un(UnOp::Minus, Box::new(num(1.0))),
        6 => Expr::Prim(Prim::Ident(Ident::Pronoun)),
        7 => var(&simple(*rng.pick(&["Alpha", "Beta", "Echo", "Mutate", "Nobodyknows"]))),
        _ => bin(BinOp::Divide, num(0.0), num(0.0)),
    }
}

fn mutate_expr(rng: &mut Rng, e: &mut Expr) {
    match e {
        Expr::Bin(op, l, r) => match rng.below(4) {
            0 => *op = *rng.pick(&BinOp::ALL),
            1 => mutate_expr(rng, l),
            2 => {
                let k = rng.below(r.len());
                mutate_expr(rng, &mut r[k])
            }
            _ => *e = random_leaf(rng),
        },
        Expr::Un(_, x) => {
            if rng.coin() {
                mutate_expr(rng, x)
            } else {
                *e = random_leaf(rng)
            }
        }
        Expr::Prim(Prim::Call(name, args)) => match rng.below(4) {
            0 => {
                args.pop();
                if args.is_empty() {
                    args.push(random_leaf(rng));
                }
            }
            1 => args.push(num(1.0)),
            2 => *name = simple(*rng.pick(&["Alpha", "Beta", "Nobodyknows"])),
            _ => {
                let k = rng.below(args.len());
                args[k] = random_leaf(rng);
            }
        },
        Expr::Prim(_) => *e = random_leaf(rng),
    }
}

fn mutate_stmt(rng: &mut Rng, s: &mut Stmt) {
    match s {
        Stmt::Assign { value, dest, .. } => {
            if rng.chance(1, 4) {
                *dest = Lhs::Ident(Ident::Name(simple(*rng.pick(&["Echo", "Mutate", "Alpha"]))));
            } else {
                let k = rng.below(value.len());
                mutate_expr(rng, &mut value[k]);
            }
        }
        Stmt::Output { value } | Stmt::Return { value } => mutate_expr(rng, value),
        Stmt::If { cond, then, els } => match rng.below(4) {
            0 => mutate_expr(rng, cond),
            1 if !then.is_empty() => {
                let k = rng.below(then.len());
                mutate_stmt(rng, &mut then[k]);
            }
            2 => {
                if let Some(e) = els {
                    if !e.is_empty() {
                        let k = rng.below(e.len());
                        mutate_stmt(rng, &mut e[k]);
                    }
                }
            }
            _ => then.push(if rng.coin() { Stmt::Break } else { Stmt::Continue }),
        },
        Stmt::While { cond, body } | Stmt::Until { cond, body } => match rng.below(3) {
            0 => mutate_expr(rng, cond),
            _ if !body.is_empty() => {
                let k = rng.below(body.len());
                mutate_stmt(rng, &mut body[k]);
            }
            _ => {}
        },
        Stmt::Function { params, body, name } => match rng.below(4) {
            0 => {
                let p0 = params[0].clone();
                params.push(p0);
            }
            1 => *name = simple(*rng.pick(&["Alpha", "Beta"])),
            _ if !body.is_empty() => {
                let k = rng.below(body.len());
                mutate_stmt(rng, &mut body[k]);
            }
            _ => {}
        },
        Stmt::Call { args, .. } => {
            let k = rng.below(args.len());
            args[k] = random_leaf(rng);
        }
        Stmt::Push { array, .. } | Stmt::Pop { array, .. } => {
            *array = match rng.below(3) {
                0 => Prim::Lit(Lit::Num(5.0)),
                1 => pvar(&simple(*rng.pick(&["Echo", "Mutate"]))),
                _ => Prim::Ident(Ident::Pronoun),
            };
        }
        Stmt::Mutation { param, operand, dest, .. } => match rng.below(3) {
            0 => *param = Some(random_leaf(rng)),
            1 => {
                if dest.is_some() {
                    *operand = Prim::Lit(Lit::Null);
                } else {
                    *operand = Prim::Ident(Ident::Pronoun);
                }
            }
            _ => *dest = Some(Lhs::Ident(Ident::Name(simple("Echo")))),
        },
        Stmt::Inc { dest, .. } | Stmt::Dec { dest, .. } => {
            *dest = if rng.coin() { Ident::Pronoun } else { Ident::Name(simple(*rng.pick(&["Echo", "Mutate", "Nobodyknows"]))) };
        }
        Stmt::Rounding { operand, .. } => *operand = random_leaf(rng),
        _ => {}
    }
}

fn valid_program(rng: &mut Rng) -> Program {
    match rng.below(5) {
        0 => crate::props::c04::program(rng).0,
        1 => crate::props::c05::program(rng).0,
        2 => crate::props::c06::history(rng, 8).tree,
        3 => {
            let sem = crate::semgen::Sem::new(rng, 3);
            let mut ss = sem.prelude();
            let mut g = sem.gen(rng);
            for _ in 0..3 {
                ss.push(say(g.expr(3, crate::gen::Tail::Free)));
            }
            Program::single(ss)
        }
        _ => {
            let mut scratch = Ctx::new("scratch", crate::ctx::Tier::Quick, 0, 0, 1, "none");
            crate::props::c07::case(rng, &mut scratch)
        }
    }
}

pub fn run(ctx: &mut Ctx) {
    if ctx.miri {
        // quick: a rotating third of the named programs (chosen by the seed); thorough: all of them
        let stride = if ctx.scale >= 4.0 { 1 } else { 3 };
        let off = ctx.seed % stride;
        ctx.cases("miri_named", NAMED.len() as u64, |ctx, _, idx| {
            // (deep recursion takes minutes under Miri and adds no new code path there)
            if idx % stride == off && !NAMED[idx as usize].contains("taking 60") {
                check_case(ctx, NAMED[idx as usize], b"5\nabc\n", "named");
            }
        });
        let nt = (ctx.nshards as f64 * ctx.scale.max(1.0)) as u64;
        ctx.cases("miri_templates", nt, |ctx, rng, _| {
            let idx = rng.next_u64() % (TEMPLATES.len() as u64 * universe().len() as u64);
            if let Some((src, _)) = w1b(idx) {
                check_case(ctx, &src, b"", "template");
            }
        });
        return;
    }
    ctx.cases("named", NAMED.len() as u64, |ctx, _, idx| {
        check_case(ctx, NAMED[idx as usize], b"5\nabc\n", "named");
    });
    let total = TEMPLATES.len() as u64 * universe().len() as u64 * EXTREME.len() as u64;
    ctx.cases("templates", total, |ctx, rng, idx| {
        if let Some((src, label)) = w1b(idx) {
            ctx.seen("templates_used", label.split(" / ").next().unwrap_or(""));
            let stdin = stdin_for(rng);
            check_case(ctx, &src, &stdin, "template");
        }
    });
    // lists, argument lists and subscript chains around the sizes at which inline buffers spill (C06 compares the
    // same programs with the model; here they only must not crash)
    ctx.cases("wide_and_deep", 77, |ctx, _, idx| {
        if let Some(p) = crate::props::c06::wide_program(idx) {
            // (a tree the renderer cannot spell is the generator's business, not a verdict)
            match crate::render::render(&p, &crate::render::Spelling::canonical(), &mut crate::rng::Rng::new(idx)) {
                Ok(r) => check_case(ctx, &r.text, b"", "wide_and_deep"),
                Err(_) => ctx.count("generator_inexpressible"),
            }
        }
    });
    ctx.cases("long_text_templates", TEMPLATES.len() as u64 * 48, |ctx, rng, idx| {
        if let Some((src, _)) = w1b_long(idx) {
            let stdin = stdin_for(rng);
            check_case(ctx, &src, &stdin, "long_text_template");
        }
    });
    let n = ctx.size(20_000, 800_000);
    ctx.cases("ill_typed", n, |ctx, rng, _| {
        if let Some(src) = w1(rng) {
            let stdin = stdin_for(rng);
            if ctx.samples.len() < 2 && src.len() < 500 {
                ctx.sample(case_src_in(&src, &stdin));
            }
            check_case(ctx, &src, &stdin, "ill_typed");
        }
    });
    let n = ctx.size(20_000, 800_000);
    ctx.cases("mutated_valid", n, |ctx, rng, _| {
        let mut p = valid_program(rng);
        mutate_tree(rng, &mut p);
        let sp = Spelling::canonical();
        if let Ok(r) = render(&p, &sp, rng) {
            let stdin = stdin_for(rng);
            if ctx.samples.len() < 4 && r.text.len() < 500 {
                ctx.sample(case_src_in(&r.text, &stdin));
            }
            check_case(ctx, &r.text, &stdin, "mutated_valid");
        } else {
            ctx.count("mutant_not_expressible");
        }
    });
}

/// seed corpus for the libFuzzer stage
pub fn emit(dir: &str, seed: u64, n: usize) {
    for (i, s) in NAMED.iter().enumerate() {
        let _ = std::fs::write(format!("{}/named_{}", dir, i), s);
    }
    for i in 0..n {
        let mut rng = Rng::new(crate::rng::mix(&[seed, 0xC09, i as u64]));
        let text = match i % 3 {
            0 => match w1b(rng.next_u64() % (TEMPLATES.len() as u64 * universe().len() as u64)) {
                Some((src, _)) => src,
                None => continue,
            },
            1 => match w1(&mut rng) {
                Some(s) => s,
                None => continue,
            },
            _ => {
                let mut p = valid_program(&mut rng);
                mutate_tree(&mut rng, &mut p);
                match render(&p, &Spelling::canonical(), &mut rng) {
                    Ok(r) => r.text,
                    Err(_) => continue,
                }
            }
        };
        if text.len() < 2000 {
            let _ = std::fs::write(format!("{}/seed_{}", dir, i), text);
        }
    }
}
