//! C13 — syntax errors are rejected and attributed to the line they occur on.
//!
//! Valid programs (from the tree generator, rendered with the renderer's line map) x statement
//! boundaries x a catalogue of context-independent syntax faults. Oracle: the parse must fail,
//! and the line it names must be the line of the injected fault (known from the line map).

use crate::ctx::Ctx;
use crate::gen::SynGen;
use crate::json::Json;
use crate::mon;
use crate::render::{render, Rendered, Spelling};
use crate::rng::{hash_str, Rng};

/// (name, faulty line). Each is an error wherever a statement may start; none carries a comment.
pub const FAULT_LINES: &[(&str, &str)] = &[
    // missing last operand
    ("missing_operand.put_into", "put Zork into"),
    ("missing_operand.put", "put"),
    ("missing_operand.say", "say"),
    ("missing_operand.shout", "Shout"),
    ("missing_operand.let_be", "let Zork be"),
    ("missing_operand.let_be_plus", "let Zork be with"),
    ("missing_operand.if", "if"),
    ("missing_operand.while", "while"),
    ("missing_operand.until", "until"),
    ("missing_operand.rock", "rock"),
    ("missing_operand.rock_with", "rock Zork with"),
    ("missing_operand.rock_like", "rock Zork like"),
    ("missing_operand.roll", "roll"),
    ("missing_operand.roll_into", "roll Zork into"),
    ("missing_operand.cut", "cut"),
    ("missing_operand.cut_with", "cut Zork with"),
    ("missing_operand.join_into", "join Zork into"),
    ("missing_operand.cast", "cast"),
    ("missing_operand.turn_up", "turn up"),
    ("missing_operand.listen_to", "listen to"),
    ("missing_operand.takes", "Zork takes"),
    ("missing_operand.takes_sep", "Zork takes Q and"),
    ("missing_operand.taking", "Zork taking"),
    ("missing_operand.taking_sep", "Zork taking 1,"),
    ("missing_operand.give_back", "give back"),
    ("missing_operand.return", "return"),
    ("missing_operand.is", "Zork is"),
    ("missing_operand.says", "Zork says"),
    ("missing_operand.at", "say Zork at"),
    ("missing_operand.plus", "say 1 plus"),
    ("missing_operand.times_list", "say 1 times 2,"),
    ("missing_operand.not", "say not"),
    ("missing_operand.is_bigger_than", "say Zork is bigger than"),
    ("missing_operand.as_big_as", "say Zork is as big as"),
    ("missing_operand.common_prefix", "say my"),
    // missing keyword
    ("missing_keyword.into", "put 1 2"),
    ("missing_keyword.be", "let Zork 5"),
    ("missing_keyword.up", "build Zork"),
    ("missing_keyword.down", "knock Zork"),
    ("missing_keyword.the", "take it to top"),
    ("missing_keyword.to", "take it the top"),
    ("missing_keyword.break_it", "break it"),
    ("missing_keyword.turn_direction", "turn Zork"),
    ("missing_keyword.than", "say Zork is bigger 1"),
    ("missing_keyword.as", "say Zork is as big 1"),
    ("missing_keyword.mutation_operand_identifier", "cut \"abc\""),
    // a token that cannot start a statement
    ("bad_start.number", "5"),
    ("bad_start.into", "into Zork"),
    ("bad_start.with", "with 1"),
    ("bad_start.and", "and Zork"),
    ("bad_start.up", "up"),
    ("bad_start.taking", "taking 1"),
    ("bad_start.is", "is 5"),
    ("bad_start.comma", ", Zork"),
    ("bad_start.dot", ". Zork"),
    ("bad_start.at", "at 1"),
    ("bad_start.plus", "plus 1"),
    ("bad_start.symbol_plus", "+ 1"),
    ("bad_start.string", "\"str\""),
    ("bad_start.true", "true"),
    ("bad_start.nothing", "nothing"),
    ("bad_start.than", "than"),
    ("bad_start.back", "back"),
    ("bad_start.like", "like a rock"),
    ("bad_start.ampersand", "& Zork"),
    ("bad_start.less", "< 1"),
    // invalid identifier / unterminated token where a statement must start
    // a keyword missing in front of a pronoun operand
    ("missing_keyword.at_before_pronoun", "put 5 into Zork it"),
    ("missing_keyword.at_before_pronoun_let", "let Zork it be 9"),
    ("missing_keyword.with_before_pronoun", "cut Zork into Quark it"),
    ("missing_keyword.stray_pronoun_build", "build Zork it up"),
    ("missing_keyword.stray_pronoun_knock", "knock Zork it down"),
    ("missing_keyword.stray_pronoun_is", "Zork it is 5"),
    ("missing_keyword.stray_pronoun_listen", "listen to Zork it"),
    ("missing_keyword.stray_pronoun_roll", "roll Zork into Quark it"),
    // an invalid word where the noun of a common name (`the x`, `my x`) belongs
    ("invalid_identifier.after_article", "the x1 is 5"),
    ("invalid_identifier.underscore_after_possessive", "my _ is 3"),
    ("invalid_identifier.number_after_possessive", "put 7 into my 5"),
    ("invalid_identifier.parameter_after_article", "Zork takes the x1"),
    ("invalid_identifier.trailing_digit", "ab1 is 5"),
    ("invalid_identifier.leading_underscore", "_x is 5"),
    ("invalid_identifier.inner_underscore", "x_y is 5"),
    ("invalid_identifier.leading_digit", "1abc is 5"),
    ("invalid_identifier.in_expression", "say zz9"),
    ("invalid_identifier.in_target", "put 1 into q_q"),
    // the same with characters beyond ASCII that are not letters
    ("invalid_identifier.superscript_digit", "x² is 5"),
    ("invalid_identifier.arrow_inside", "a→b is 5"),
    ("invalid_identifier.arabic_digit", "total٣ is 5"),
    ("invalid_identifier.vulgar_fraction", "ab½ is 5"),
    ("invalid_identifier.curly_apostrophe", "Tommy’s is 5"),
    ("invalid_identifier.emoji", "x😀 is 5"),
    ("invalid_identifier.accented_then_symbol", "é² is 5"),
    ("invalid_identifier.non_ascii_in_expression", "say zz€"),
    ("invalid_identifier.non_ascii_in_target", "put 1 into q→q"),
    ("unterminated.string", "\"abc"),
    ("unterminated.comment", "(abc"),
    ("unterminated.string_in_expression", "say \"abc"),
    ("invalid_token.emoji", "🎸 is 5"),
    ("invalid_number", "say 1.2.3"),
];

/// what gets appended to a non-poetic statement's own line
pub const SECOND_STATEMENTS: &[(&str, &str)] = &[
    ("two_statements.say", " say 2"),
    ("two_statements.put", " put 1 into Zork"),
    ("two_statements.listen", " listen"),
    ("two_statements.build", " build Zork up"),
    ("two_statements.break", " break"),
    ("two_statements.if", " if 1"),
    ("two_statements.number", " 7"),
];

/// a single token appended to a statement's own line that cannot continue it: (name, text,
/// statement kinds after which it WOULD be legal)
pub const TRAILING_TOKENS: &[(&str, &str, &[&str])] = &[
    ("trailing_token.back", " back", &["return"]),
    ("trailing_token.up", " up", &["inc", "dec", "rounding"]),
    ("trailing_token.down", " down", &["inc", "dec", "rounding", "break"]),
    ("trailing_token.else", " else", &[]),
    ("trailing_token.top", " top", &[]),
    ("trailing_token.than", " than", &[]),
    ("trailing_token.be", " be", &[]),
    ("trailing_token.to", " to", &["input"]),
    ("trailing_token.like", " like", &["array_push"]),
    ("trailing_token.takes", " takes", &[]),
    ("trailing_token.string", " \"junk\"", &[]),
];

fn line_of_offset(text: &str, off: usize) -> u32 {
    1 + text.as_bytes()[..off].iter().filter(|b| **b == b'\n').count() as u32
}

fn check(ctx: &mut Ctx, fault: &str, faulty: &str, want_line: u32, after_multiline: bool) {
    ctx.eval();
    ctx.count("triples");
    ctx.seen("catalogue_entries_used", fault);
    if after_multiline {
        ctx.count("positions_after_multi_line_tokens");
    }
    ctx.nontrivial(hash_str(faulty) ^ hash_str(fault));
    let case = || {
        Json::obj()
            .with("src", Json::s(faulty))
            .with("fault", Json::s(fault))
            .with("expected_line", Json::u(want_line as u64))
    };
    match mon::parse_guarded(faulty, 1000, true) {
        Err(p) => {
            ctx.panic_outcome("parse", &p, case());
        }
        Ok(r) => match r.result {
            Ok(_) => {
                let class = fault.split('.').next().unwrap_or(fault);
                ctx.violation(
                    &format!("accepted:{}", fault),
                    &format!("a program with an injected `{}` fault on line {} was accepted ({})", fault, want_line, class),
                    case(),
                );
            }
            Err(e) => {
                ctx.seen("error_codes", &e.code);
                if e.line != want_line {
                    let class = fault.split('.').next().unwrap_or(fault);
                    ctx.violation(
                        &format!("wrong_line:{}:{}", class, if e.line > want_line { "later" } else { "earlier" }),
                        &format!(
                            "fault `{}` on line {} reported on line {}: {}",
                            fault, want_line, e.line, e.text
                        ),
                        case(),
                    );
                } else {
                    ctx.count("rejected_on_the_right_line");
                }
            }
        },
    }
    ctx.sites.absorb();
}

fn has_multiline_before(text: &str, r: &Rendered, off: usize) -> bool {
    let _ = text;
    r.tokens
        .iter()
        .any(|t| t.offset + t.len <= off && t.kind != crate::render::TokKind::Newline && {
            let s = &r.text[t.offset..t.offset + t.len];
            s.contains('\n')
        })
}

pub fn inject_all(ctx: &mut Ctx, r: &Rendered, rng: &mut Rng, positions: usize, per_position: usize, exhaustive: bool) {
    let text = &r.text;
    let n = r.stmts.len();
    if n == 0 {
        return;
    }
    let mut pos: Vec<usize> = (0..n).collect();
    if !exhaustive {
        rng.shuffle(&mut pos);
        pos.truncate(positions);
    }
    for k in pos {
        let st = &r.stmts[k];
        let ml = has_multiline_before(text, r, st.line_start_off);
        // A: a faulty line in front of statement k
        let entries: Vec<usize> = if exhaustive {
            (0..FAULT_LINES.len()).collect()
        } else {
            (0..per_position).map(|_| rng.below(FAULT_LINES.len())).collect()
        };
        for e in entries {
            let (name, line) = FAULT_LINES[e];
            // an "unterminated" token is only unterminated if nothing later closes it
            if name.starts_with("unterminated.string") && text[st.line_start_off..].contains('"') {
                ctx.count("unterminated_fault_skipped_because_closed_later");
                continue;
            }
            if name.starts_with("unterminated.comment") && text[st.line_start_off..].contains(')') {
                ctx.count("unterminated_fault_skipped_because_closed_later");
                continue;
            }
            let mut t = String::with_capacity(text.len() + line.len() + 1);
            t.push_str(&text[..st.line_start_off]);
            t.push_str(line);
            t.push('\n');
            t.push_str(&text[st.line_start_off..]);
            debug_assert_eq!(line_of_offset(&t, st.line_start_off), st.line);
            check(ctx, name, &t, st.line, ml);
        }
        // B: a second statement on the line of a non-poetic statement
        let poetic = matches!(st.kind, "poetic_number" | "poetic_string" | "array_push");
        if !poetic && st.end_off > 0 {
            let entries: Vec<usize> = if exhaustive {
                (0..SECOND_STATEMENTS.len()).collect()
            } else {
                vec![rng.below(SECOND_STATEMENTS.len())]
            };
            for e in entries {
                let (name, extra) = SECOND_STATEMENTS[e];
                let mut t = String::with_capacity(text.len() + extra.len());
                t.push_str(&text[..st.end_off]);
                t.push_str(extra);
                t.push_str(&text[st.end_off..]);
                check(ctx, name, &t, st.end_line, ml);
            }
        }
    }
    // B1: a statement on the line of an `else`
    for (off, line) in &r.else_ends {
        let (name, extra) = SECOND_STATEMENTS[rng.below(SECOND_STATEMENTS.len())];
        let mut t = String::with_capacity(text.len() + extra.len());
        t.push_str(&text[..*off]);
        t.push_str(extra);
        t.push_str(&text[*off..]);
        ctx.count("faults_after_else");
        check(ctx, &format!("after_else.{}", name), &t, *line, false);
    }
    // B2: a single junk token at the end of a non-poetic statement's own line
    for _ in 0..2 {
        let k = rng.below(n);
        let st = &r.stmts[k];
        let poetic = matches!(st.kind, "poetic_number" | "poetic_string" | "array_push");
        if poetic || st.end_off == 0 {
            continue;
        }
        let (name, extra, legal_after) = TRAILING_TOKENS[rng.below(TRAILING_TOKENS.len())];
        if legal_after.contains(&st.kind) {
            continue;
        }
        // (a listen without destination followed by ` to` needs an identifier: still an error, but
        // other kinds are simply excluded above)
        let mut t = String::with_capacity(text.len() + extra.len());
        t.push_str(&text[..st.end_off]);
        t.push_str(extra);
        t.push_str(&text[st.end_off..]);
        let ml = has_multiline_before(text, r, st.line_start_off);
        check(ctx, name, &t, st.end_line, ml);
    }
    // C: a faulty last line
    if text.ends_with('\n') {
        let e = rng.below(FAULT_LINES.len());
        let (name, line) = FAULT_LINES[e];
        let t = format!("{}{}", text, line);
        let want = line_of_offset(&t, text.len());
        check(ctx, name, &t, want, true);
        ctx.count("fault_on_last_line_without_newline");
    }
}

pub fn run(ctx: &mut Ctx) {
    // every catalogue entry must be an error on its own, on line 1 (validates the catalogue itself)
    ctx.cases("catalogue_alone", 1, |ctx, _, _| {
        for (name, line) in FAULT_LINES {
            check(ctx, name, line, 1, false);
            check(ctx, name, &format!("{}\n", line), 1, false);
            check(ctx, name, &format!("say 1\n\n\n{}\nsay 2\n", line), 4, false);
        }
        for (name, extra) in SECOND_STATEMENTS {
            check(ctx, name, &format!("say 1{}\n", extra), 1, false);
        }
        for (name, extra, _) in TRAILING_TOKENS {
            check(ctx, name, &format!("say 1{}\n", extra), 1, false);
            check(ctx, name, &format!("put 1 into Zork{}\nsay 2\n", extra), 1, false);
        }
    });
    let exhaustive = !ctx.is_quick();
    let n = ctx.size(10_000, 30_000);
    ctx.cases("programs", n, |ctx, rng, _| {
        let tree = {
            let bd = *rng.pick(&[1, 2, 3, 4]);
            let mut g = SynGen::new(rng);
            g.max_block_depth = bd;
            g.max_expr_depth = 3;
            g.program()
        };
        let mut sp = Spelling::mild(rng);
        sp.multiline_comments = rng.chance(1, 3);
        if sp.multiline_comments {
            sp.comments = true;
        }
        let r = match render(&tree, &sp, rng) {
            Ok(r) => r,
            Err(e) => {
                ctx.count("generator_inexpressible");
                ctx.seen("generator_inexpressible_reasons", &e.0);
                return;
            }
        };
        // the unmodified program must parse (otherwise the case says nothing)
        match mon::parse_guarded(&r.text, 1000, true).map(|x| x.result) {
            Ok(Ok(_)) => {}
            _ => {
                ctx.count("base_program_did_not_parse");
                return;
            }
        }
        ctx.count("programs");
        ctx.max("max_statements_in_program", r.stmts.len() as u64);
        ctx.max("max_depth", r.stmts.iter().map(|s| s.depth).max().unwrap_or(0) as u64);
        if ctx.samples.len() < 3 && r.text.len() < 400 {
            ctx.sample(Json::obj().with("base_program", Json::s(&r.text)).with("statements", Json::u(r.stmts.len() as u64)));
        }
        inject_all(ctx, &r, rng, 3, 6, exhaustive);
    });
}
