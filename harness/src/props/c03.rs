//! C03 — expressions evaluate by the value rules for every operand kind.
//!
//! (a) API layer, exhaustive over the value universe: every ordered pair through the public
//!     `Val` operators against the reference tables. (b) Program layer, sampled: random
//!     expressions over universe-valued variables in every evaluating statement position,
//!     with short-circuit witnesses, against the reference interpreter.

use crate::ctx::Ctx;
use crate::gen::Tail;
use crate::json::Json;
use crate::mast::*;
use crate::mon;
use crate::props::{exec_compare, Verdict};
use crate::refi::{self, Ar, Cmp, Kind, V};
use crate::render::Spelling;
use crate::rng::{hash_str, Rng};
use crate::semgen::Sem;
use crate::vals::{to_val, universe, UVal};
use rrss::exec::val::Val;
use std::cmp::Ordering;

fn val_text(v: &Val) -> String {
    format!("{}", v)
}

fn val_kind(v: &Val) -> Kind {
    match v {
        Val::Undefined => Kind::Mys,
        Val::Null => Kind::Null,
        Val::Boolean(_) => Kind::Bool,
        Val::Number(_) => Kind::Num,
        Val::String(_) => Kind::Str,
        Val::Array(_) => Kind::Arr,
    }
}

/// canonical number text, checked without the implementation's own formatter
pub fn check_number_text(text: &str, value: f64) -> Result<(), String> {
    if value.is_nan() {
        return if text == "NaN" { Ok(()) } else { Err(format!("NaN printed as {:?}", text)) };
    }
    if value.is_infinite() {
        let want = if value > 0.0 { "inf" } else { "-inf" };
        return if text == want { Ok(()) } else { Err(format!("{} printed as {:?}", want, text)) };
    }
    match text.parse::<f64>() {
        Ok(v) if v.to_bits() == value.to_bits() => {}
        other => return Err(format!("{:?} does not read back as the same number ({:?})", text, other)),
    }
    if text.contains('e') || text.contains('E') {
        return Err(format!("{:?} uses an exponent", text));
    }
    // minimal significant digits: no numeral with one significant digit less reads back the same
    let body = text.trim_start_matches('-');
    let (int, frac) = match body.split_once('.') {
        Some((i, f)) => (i, f),
        None => (body, ""),
    };
    if !int.chars().all(|c| c.is_ascii_digit()) || !frac.chars().all(|c| c.is_ascii_digit()) || int.is_empty() {
        return Err(format!("{:?} is not a plain decimal", text));
    }
    if body.contains('.') && frac.is_empty() {
        return Err(format!("{:?} ends in a decimal point", text));
    }
    if int.len() > 1 && int.starts_with('0') {
        return Err(format!("{:?} has a leading zero", text));
    }
    let all: Vec<u8> = int.bytes().chain(frac.bytes()).map(|b| b - b'0').collect();
    let first = all.iter().position(|d| *d != 0);
    let last = all.iter().rposition(|d| *d != 0);
    if let (Some(f), Some(l)) = (first, last) {
        if l > f {
            // drop the last significant digit: truncated and rounded-up variants
            let point = int.len();
            let mk = |digits: &[u8]| -> String {
                let mut s = String::new();
                if text.starts_with('-') {
                    s.push('-');
                }
                for (i, d) in digits.iter().enumerate() {
                    if i == point {
                        s.push('.');
                    }
                    s.push((b'0' + d) as char);
                }
                s
            };
            let mut trunc = all.clone();
            trunc[l] = 0;
            let mut up = trunc.clone();
            // add one unit at position l-1 (with carry)
            let mut i = l as isize - 1;
            let mut carry = true;
            while carry && i >= 0 {
                if up[i as usize] == 9 {
                    up[i as usize] = 0;
                    i -= 1;
                } else {
                    up[i as usize] += 1;
                    carry = false;
                }
            }
            for cand in [mk(&trunc), if carry { String::from("x") } else { mk(&up) }] {
                if let Ok(v) = cand.parse::<f64>() {
                    if v.to_bits() == value.to_bits() {
                        return Err(format!("{:?} is not the shortest: {:?} reads back the same", text, cand));
                    }
                }
            }
        }
        if !frac.is_empty() && frac.ends_with('0') {
            return Err(format!("{:?} has trailing zeros after the decimal point", text));
        }
    }
    Ok(())
}

fn cell(ctx: &mut Ctx, op: &str, a: &UVal, b: Option<&UVal>, ok: bool, detail: String) {
    ctx.count("api_cells_checked");
    ctx.seen(
        "api_kind_cells",
        &format!("{}:{}{}", op, a.v.kind().letter(), b.map_or("", |b| b.v.kind().letter())),
    );
    if !ok {
        ctx.violation(
            &format!("api:{}:{}{}", op, a.v.kind().letter(), b.map_or("", |b| b.v.kind().letter())),
            &format!("a = {} {}, b = {} {}: {}", a.label, if a.label == "random" { format!("{:?}", a.v) } else { String::new() }, b.map_or("-", |b| b.label), b.map_or(String::new(), |b| if b.label == "random" { format!("{:?}", b.v) } else { String::new() }), detail),
            Json::obj()
                .with("operator", Json::s(op))
                .with("a", Json::s(a.label))
                .with("b", Json::s(b.map_or("-", |b| b.label)))
                .with("detail", Json::s(detail.clone())),
        );
    }
}

fn same_value(model: &V, got: &Val) -> bool {
    // NaN compares unequal to itself: compare by rendering and kind
    model.kind() == val_kind(got) && model.display() == val_text(got)
}

fn api_pair(ctx: &mut Ctx, a: &UVal, b: &UVal) {
    ctx.eval();
    let (va, vb) = (to_val(&a.v), to_val(&b.v));
    if !same_value(&a.v, &va) {
        cell(ctx, "bridge", a, None, false, format!("model {} became {}", a.v.display(), val_text(&va)));
        return;
    }
    type F = fn(&Val, &Val) -> Val;
    let ops: [(&str, F, fn(&V, &V) -> Ar); 4] = [
        ("plus", |x, y| x.plus(y), refi::plus),
        ("minus", |x, y| x.subtract(y), refi::minus),
        ("times", |x, y| x.multiply(y), refi::times),
        ("over", |x, y| x.divide(y), refi::divide),
    ];
    for (name, f, m) in ops {
        let want = match m(&a.v, &b.v) {
            Ar::Val(v) => v,
            Ar::TooBig => {
                ctx.count("api_cells_over_budget");
                continue;
            }
        };
        match mon::guarded(|| f(&va, &vb)) {
            Err(p) => {
                ctx.panic_outcome("api", &p, Json::obj().with("op", Json::s(name)).with("a", Json::s(a.label)).with("b", Json::s(b.label)));
            }
            Ok(got) => {
                let ok = same_value(&want, &got);
                cell(ctx, name, a, Some(b), ok, format!("expected {} ({:?}), got {}", want.display(), want.kind(), val_text(&got)));
                if let Val::Number(n) = got {
                    ctx.count("number_texts_checked");
                    if let Err(e) = check_number_text(&Val::Number(n).to_string_for_output(), n) {
                        cell(ctx, "number_text", a, Some(b), false, e);
                    }
                }
            }
        }
    }
    // equality
    let want = refi::equals(&a.v, &b.v);
    let got = mon::guarded(|| va.equals(&vb));
    cell(ctx, "is", a, Some(b), got.as_ref().ok() == Some(&want), format!("expected {}, got {:?}", want, got.ok()));
    // ordering
    let want = refi::compare(&a.v, &b.v);
    match mon::guarded(|| va.compare(&vb)) {
        Err(p) => {
            ctx.panic_outcome("api", &p, Json::obj().with("op", Json::s("compare")).with("a", Json::s(a.label)).with("b", Json::s(b.label)));
        }
        Ok(got) => {
            let g = match &got {
                Ok(Some(o)) => Cmp::Ord(*o),
                Ok(None) => Cmp::NoOrder,
                Err(_) => Cmp::Error,
            };
            cell(ctx, "compare", a, Some(b), g == want, format!("expected {:?}, got {:?}", want, g));
            if want == Cmp::Error {
                ctx.count("api_error_cells");
            }
        }
    }
    let _ = Ordering::Equal;
}

fn api_unary(ctx: &mut Ctx, a: &UVal) {
    ctx.eval();
    let va = to_val(&a.v);
    // truthiness
    cell(ctx, "truthy", a, None, va.is_truthy() == a.v.truthy(), format!("expected {}", a.v.truthy()));
    // canonical text
    let t = mon::guarded(|| va.to_string_for_output().to_string());
    cell(ctx, "text", a, None, t.as_ref().ok() == Some(&a.v.text()), format!("expected {:?}, got {:?}", a.v.text(), t.ok()));
    if let V::Num(n) = &a.v {
        if let Err(e) = check_number_text(&a.v.text(), *n) {
            cell(ctx, "number_text", a, None, false, e);
        }
    }
    // negate
    let want = match &a.v {
        V::Num(n) => Some(V::Num(-n)),
        _ => None,
    };
    match mon::guarded(|| va.negate()) {
        Ok(Ok(v)) => cell(ctx, "negate", a, None, want.as_ref().map_or(false, |w| same_value(w, &v)), format!("expected {:?}, got {}", want.map(|w| w.display()), val_text(&v))),
        Ok(Err(_)) => {
            ctx.count("api_error_cells");
            cell(ctx, "negate", a, None, want.is_none(), "error for a number".into())
        }
        Err(p) => {
            ctx.panic_outcome("api", &p, Json::obj().with("op", Json::s("negate")).with("a", Json::s(a.label)));
        }
    }
    // build / knock
    for k in [-3isize, -2, -1, 1, 2, 3] {
        let want: Option<V> = match &a.v {
            V::Null => Some(V::Num(0.0 + k as f64)),
            V::Num(n) => Some(V::Num(n + k as f64)),
            V::Bool(b) => Some(V::Bool(if k % 2 != 0 { !b } else { *b })),
            _ => None,
        };
        let mut v = va.clone();
        match mon::guarded(|| v.inc(k).map(|_| v.clone())) {
            Ok(Ok(got)) => cell(ctx, "build_knock", a, None, want.as_ref().map_or(false, |w| same_value(w, &got)), format!("k = {}: expected {:?}, got {}", k, want.map(|w| w.display()), val_text(&got))),
            Ok(Err(_)) => {
                ctx.count("api_error_cells");
                cell(ctx, "build_knock", a, None, want.is_none(), format!("k = {}: error", k))
            }
            Err(p) => {
                ctx.panic_outcome("api", &p, Json::obj().with("op", Json::s("inc")).with("a", Json::s(a.label)));
            }
        }
    }
}

/// one probe statement group in some evaluating position
fn probes(sem: &Sem, rng: &mut Rng, n: usize) -> Vec<Stmt> {
    let mut out = Vec::new();
    let names = sem.names();
    let arrays = sem.arrays();
    let target = simple("Target");
    let mut g = sem.gen(rng);
    for _ in 0..n {
        match g.rng.below(10) {
            0 | 1 | 2 => out.push(say(g.expr(3, Tail::Free))),
            3 => {
                out.push(put(g.expr(3, Tail::Free), &target));
                out.push(say(var(&target)));
            }
            4 => {
                // compound assignment with a (possibly multi-element) list
                let v = g.rng.pick_clone(&names);
                let op = *g.rng.pick(&BinOp::ARITH);
                let value = if g.rng.coin() {
                    let k = g.rng.range(2, 3);
                    (0..k).map(|i| g.unary(1, if i + 1 < k { Tail::NoCall } else { Tail::Free })).collect()
                } else {
                    vec![g.expr(2, Tail::Free)]
                };
                out.push(Stmt::Assign { dest: Lhs::Ident(Ident::Name(v.clone())), op: Some(op), value });
                out.push(say(var(&v)));
            }
            5 => {
                let c = g.expr(2, Tail::Free);
                out.push(Stmt::If { cond: c, then: vec![say(strlit("then"))], els: Some(vec![say(strlit("else"))]) });
            }
            6 => {
                let c = g.expr(2, Tail::Free);
                let w = g.rng.coin();
                let body = vec![say(strlit("loop")), Stmt::Break];
                out.push(if w { Stmt::While { cond: c, body } } else { Stmt::Until { cond: c, body } });
            }
            7 => {
                // subscript read with a computed key
                let base = if !arrays.is_empty() && g.rng.chance(2, 3) { g.rng.pick_clone(&arrays) } else { g.rng.pick_clone(&names) };
                let key = match g.rng.below(3) {
                    0 => Prim::Lit(Lit::Num(g.rng.below(3) as f64)),
                    1 => Prim::Ident(Ident::Name(g.rng.pick_clone(&names))),
                    _ => Prim::Lit(g.lit()),
                };
                out.push(say(Expr::Prim(Prim::Sub(Box::new(pvar(&base)), Box::new(key)))));
            }
            8 => {
                let v = g.rng.pick_clone(&names);
                let n = g.rng.range(1, 4);
                out.push(if g.rng.coin() { Stmt::Inc { dest: Ident::Name(v.clone()), n } } else { Stmt::Dec { dest: Ident::Name(v.clone()), n } });
                out.push(say(var(&v)));
            }
            _ => {
                // list operands folded left to right, with witnesses
                let op = *g.rng.pick(&BinOp::ALL);
                let k = g.rng.range(2, 4);
                let lhs = g.unary(1, Tail::Free);
                let lhs = if op == BinOp::And && lhs.ends_in_call() { var(&names[0]) } else { lhs };
                let rhs: Vec<Expr> = (0..k).map(|i| g.unary(1, if i + 1 < k { Tail::NoCall } else { Tail::Free })).collect();
                if op == BinOp::Eq {
                    // `is` takes a single operand
                    out.push(say(Expr::Bin(op, Box::new(lhs), vec![rhs[0].clone()])));
                } else {
                    out.push(say(Expr::Bin(op, Box::new(lhs), rhs)));
                }
            }
        }
    }
    out
}

pub fn run(ctx: &mut Ctx) {
    let u = universe();
    let n = u.len() as u64;
    ctx.counters.insert("universe_size".into(), n);
    if ctx.miri {
        ctx.cases("miri_api", 64, |ctx, rng, _| {
            let (a, b) = (rng.pick(&u).clone(), rng.pick(&u).clone());
            api_pair(ctx, &a, &b);
            api_unary(ctx, &a);
        });
        ctx.cases("miri_programs", ctx.nshards as u64 * 2, |ctx, rng, _| {
            let sem = Sem::new(rng, 3);
            let mut ss = sem.prelude();
            ss.extend(probes(&sem, rng, 2));
            let tree = Program::single(ss);
            let sp = Spelling::canonical();
            exec_compare(ctx, "program", &tree, b"", &sp, rng);
        });
        return;
    }
    // (a) exhaustive API layer
    ctx.cases("api_pairs", n * n, |ctx, _, idx| {
        let (a, b) = (&u[(idx / n) as usize], &u[(idx % n) as usize]);
        ctx.count("ordered_pairs_api");
        ctx.nontrivial(hash_str(a.label) ^ hash_str(b.label).rotate_left(1));
        api_pair(ctx, a, b);
    });
    ctx.cases("api_unary", n, |ctx, _, idx| {
        api_unary(ctx, &u[idx as usize]);
    });
    // (a') the same cells on random values beyond the universe
    let m = ctx.size(6_000, 2_000_000);
    ctx.cases("random_api_pairs", m, |ctx, rng, _| {
        let a = if rng.chance(1, 4) { rng.pick(&u).clone() } else { UVal { label: "random", v: crate::vals::random_value(rng, 0) } };
        let mut b = if rng.chance(1, 4) { rng.pick(&u).clone() } else { UVal { label: "random", v: crate::vals::random_value(rng, 0) } };
        if rng.chance(1, 5) {
            // a near miss of `a`: the adjacent double, its text, the same array with one more key, the same text
            // with a blank - what a tolerance, a shortcut or a forgotten field would take for equal
            if let Some(v) = crate::vals::near_miss(rng, &a.v) {
                b = UVal { label: "random", v };
                ctx.count("near_miss_pairs_api");
            }
        }
        ctx.count("random_pairs_api");
        ctx.nontrivial(hash_str(&format!("{:?}{:?}", a.v, b.v)));
        api_pair(ctx, &a, &b);
        api_unary(ctx, &a);
    });
    // (b) program layer
    let total = ctx.size(40_000, 1_500_000);
    ctx.cases("programs", total, |ctx, rng, _| {
        let k = rng.range(2, 4);
        let sem = Sem::new(rng, k);
        let mut ss = sem.prelude();
        let np = rng.range(1, 3);
        ss.extend(probes(&sem, rng, np));
        let tree = Program::single(ss);
        let sp = if rng.chance(1, 3) { Spelling::canonical() } else { Spelling::mild(rng) };
        let c = exec_compare(ctx, "program", &tree, b"", &sp, rng);
        ctx.count("programs");
        if let Some(m) = &c.model {
            for (op, ka, kb) in &m.cells {
                ctx.seen("program_kind_cells", &format!("{}:{}{}", op.name(), ka.letter(), kb.letter()));
            }
            if m.stats.get("short_circuits").copied().unwrap_or(0) > 0 {
                ctx.count("programs_with_short_circuit");
            }
            if m.stats.get("calls").copied().unwrap_or(0) > 0 {
                ctx.count("programs_with_echo_witness");
            }
        }
        if let Verdict::Agree = c.verdict {
            ctx.nontrivial(hash_str(&c.text));
            if ctx.samples.len() < 3 && c.text.len() < 700 {
                ctx.sample(Json::obj().with("src", Json::s(&c.text)).with("stdout", Json::s(String::from_utf8_lossy(&c.rrss_out).to_string())).with("error", match &c.rrss_err { Some(e) => Json::s(e), None => Json::Null }));
            }
        }
    });
}
