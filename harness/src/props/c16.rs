//! C16 — visitors see every node exactly once, in order, and stop at the first error.
//!
//! Recording visitors implemented OUTSIDE the crate against the public traits. The event log of
//! a walk must be exactly the model traversal of the tree; the folded result must be the
//! left-to-right concatenation of the callback results; with a failure injected at the k-th
//! callback there must be exactly k callbacks and the injected error must come back unchanged.

use crate::conv;
use crate::ctx::Ctx;
use crate::gen::SynGen;
use crate::json::Json;
use crate::mast as m;
use crate::mon;
use crate::render::{render, Spelling};
use crate::rng::hash_str;
use rrss::analysis::visit::{self, Combine, ExprVisitorRunner, Visit, VisitExpr, VisitProgram};
use rrss::frontend::ast::*;
use rrss::frontend::source_range::SourceRange;

#[derive(Clone, Debug, Default, PartialEq)]
pub struct Lst(pub Vec<String>);

impl Combine for Lst {
    fn combine(mut self, other: Self) -> Self {
        self.0.extend(other.0);
        self
    }
}

#[derive(Clone, Debug, PartialEq)]
pub struct Injected(pub usize);

/// shared state of every recorder
#[derive(Default)]
pub struct Rec {
    pub log: Vec<String>,
    pub fail_at: Option<usize>,
}

impl Rec {
    fn hit(&mut self, ev: String) -> Result<Lst, Injected> {
        self.log.push(ev.clone());
        if Some(self.log.len()) == self.fail_at {
            return Err(Injected(self.log.len()));
        }
        Ok(Lst(vec![ev]))
    }
}

fn lit_text(l: &LiteralExpression) -> String {
    match l {
        LiteralExpression::Mysterious => "lit:mysterious".into(),
        LiteralExpression::Null => "lit:null".into(),
        LiteralExpression::Boolean(b) => format!("lit:{}", b),
        LiteralExpression::Number(n) => format!("lit:#{:016x}", n.to_bits()),
        LiteralExpression::String(s) => format!("lit:{:?}", s),
    }
}

macro_rules! leaf_methods {
    () => {
        fn visit_poetic_number_literal_elem(&mut self, p: &PoeticNumberLiteralElem) -> visit::Result<Self> {
            let t = match p {
                PoeticNumberLiteralElem::Word(w) => format!("poetic:word:{}", w),
                PoeticNumberLiteralElem::WordSuffix(w) => format!("poetic:suffix:{}", w),
                PoeticNumberLiteralElem::Dot => "poetic:dot".to_string(),
            };
            self.0.hit(t)
        }
        fn visit_binary_operator(&mut self, o: BinaryOperator) -> visit::Result<Self> {
            self.0.hit(format!("op:{:?}", o))
        }
        fn visit_unary_operator(&mut self, o: UnaryOperator) -> visit::Result<Self> {
            self.0.hit(format!("un:{:?}", o))
        }
        fn visit_literal_expression(&mut self, e: &WithRange<LiteralExpression>) -> visit::Result<Self> {
            self.0.hit(lit_text(&e.0))
        }
        fn visit_pronoun(&mut self, _: SourceRange) -> visit::Result<Self> {
            self.0.hit("pronoun".to_string())
        }
        fn visit_simple_identifier(&mut self, n: WithRange<&SimpleIdentifier>) -> visit::Result<Self> {
            self.0.hit(format!("simple:{}", (n.0).0))
        }
        fn visit_common_identifier(&mut self, n: WithRange<&CommonIdentifier>) -> visit::Result<Self> {
            self.0.hit(format!("common:{} {}", (n.0).0, (n.0).1))
        }
        fn visit_proper_identifier(&mut self, n: WithRange<&ProperIdentifier>) -> visit::Result<Self> {
            self.0.hit(format!("proper:{}", (n.0).0.join(" ")))
        }
    };
}

/// a recorder that overrides every leaf callback and, optionally, ONE inner-node callback, which
/// it records without descending (so that node type is observed exactly where it is presented)
macro_rules! recorder {
    ($name:ident $(, $method:ident, $arg:ty, $label:expr)?) => {
        pub struct $name(pub Rec);
        impl Visit for $name {
            type Output = Lst;
            type Error = Injected;
        }
        impl VisitExpr for $name {
            leaf_methods!();
            $(fn $method(&mut self, _: $arg) -> visit::Result<Self> {
                self.0.hit(format!("node:{}", $label))
            })?
        }
    };
}

recorder!(LeafRecorder);
recorder!(ProbeExpr, visit_expression, &Expression, "Expr");
recorder!(ProbePrim, visit_primary_expression, &PrimaryExpression, "Prim");
recorder!(ProbeBin, visit_binary_expression, &BinaryExpression, "Bin");
recorder!(ProbeUn, visit_unary_expression, &UnaryExpression, "Un");
recorder!(ProbeSub, visit_array_subscript, &ArraySubscript, "Sub");
recorder!(ProbeCall, visit_function_call, &FunctionCall, "Call");
recorder!(ProbeList, visit_expression_list, &ExpressionList, "List");
recorder!(ProbeLhs, visit_assignment_lhs, &AssignmentLHS, "Lhs");
recorder!(ProbeRhs, visit_assignment_rhs, &AssignmentRHS, "Rhs");
recorder!(ProbePoeticRhs, visit_poetic_number_assignment_rhs, &PoeticNumberAssignmentRHS, "PoeticRhs");
recorder!(ProbePoeticLit, visit_poetic_number_literal, &PoeticNumberLiteral, "PoeticLit");
recorder!(ProbePushRhs, visit_array_push_rhs, &ArrayPushRHS, "PushRhs");
recorder!(ProbePop, visit_array_pop_expr, &ArrayPopExpr, "PopExpr");
recorder!(ProbeIdent, visit_identifier, &WithRange<Identifier>, "Ident");
recorder!(ProbeVarName, visit_variable_name, WithRange<&VariableName>, "VarName");

// Partial recorders: they override only SOME leaf callbacks, so the trait's own default leaves
// (which return the default value) are folded in between - the shape of every real analysis.
pub struct LitOnly(pub Rec);
impl Visit for LitOnly {
    type Output = Lst;
    type Error = Injected;
}
impl VisitExpr for LitOnly {
    fn visit_literal_expression(&mut self, e: &WithRange<LiteralExpression>) -> visit::Result<Self> {
        self.0.hit(lit_text(&e.0))
    }
}
pub struct OpsOnly(pub Rec);
impl Visit for OpsOnly {
    type Output = Lst;
    type Error = Injected;
}
impl VisitExpr for OpsOnly {
    fn visit_poetic_number_literal_elem(&mut self, p: &PoeticNumberLiteralElem) -> visit::Result<Self> {
        let t = match p {
            PoeticNumberLiteralElem::Word(w) => format!("poetic:word:{}", w),
            PoeticNumberLiteralElem::WordSuffix(w) => format!("poetic:suffix:{}", w),
            PoeticNumberLiteralElem::Dot => "poetic:dot".to_string(),
        };
        self.0.hit(t)
    }
    fn visit_binary_operator(&mut self, o: BinaryOperator) -> visit::Result<Self> {
        self.0.hit(format!("op:{:?}", o))
    }
    fn visit_unary_operator(&mut self, o: UnaryOperator) -> visit::Result<Self> {
        self.0.hit(format!("un:{:?}", o))
    }
}
pub struct IdOnly(pub Rec);
impl Visit for IdOnly {
    type Output = Lst;
    type Error = Injected;
}
impl VisitExpr for IdOnly {
    fn visit_pronoun(&mut self, _: SourceRange) -> visit::Result<Self> {
        self.0.hit("pronoun".to_string())
    }
    fn visit_simple_identifier(&mut self, n: WithRange<&SimpleIdentifier>) -> visit::Result<Self> {
        self.0.hit(format!("simple:{}", (n.0).0))
    }
    fn visit_common_identifier(&mut self, n: WithRange<&CommonIdentifier>) -> visit::Result<Self> {
        self.0.hit(format!("common:{} {}", (n.0).0, (n.0).1))
    }
    fn visit_proper_identifier(&mut self, n: WithRange<&ProperIdentifier>) -> visit::Result<Self> {
        self.0.hit(format!("proper:{}", (n.0).0.join(" ")))
    }
}

/// An output whose default is NOT neutral: it shows where a fold started "from the default".
#[derive(Clone, Debug, PartialEq)]
pub struct Marked(pub Vec<String>);
impl Default for Marked {
    fn default() -> Self {
        Marked(vec!["D".to_string()])
    }
}
impl Combine for Marked {
    fn combine(mut self, other: Self) -> Self {
        self.0.extend(other.0);
        self
    }
}
/// leaf recorder with the marked output (identifier and literal leaves only; the rest are default leaves)
pub struct MarkedRecorder(pub Vec<String>);
impl Visit for MarkedRecorder {
    type Output = Marked;
    type Error = Injected;
}
impl VisitExpr for MarkedRecorder {
    fn visit_literal_expression(&mut self, e: &WithRange<LiteralExpression>) -> visit::Result<Self> {
        let t = lit_text(&e.0);
        self.0.push(t.clone());
        Ok(Marked(vec![t]))
    }
    fn visit_simple_identifier(&mut self, n: WithRange<&SimpleIdentifier>) -> visit::Result<Self> {
        let t = format!("simple:{}", (n.0).0);
        self.0.push(t.clone());
        Ok(Marked(vec![t]))
    }
}

/// a statement visitor that overrides two callbacks only (default statement leaves in between)
pub struct OutputOnly(pub Rec);
impl Visit for OutputOnly {
    type Output = Lst;
    type Error = Injected;
}
impl VisitProgram for OutputOnly {
    fn visit_output(&mut self, _: &Output) -> visit::Result<Self> {
        self.0.hit("output".into())
    }
    fn visit_mutation_operator(&mut self, o: MutationOperator) -> visit::Result<Self> {
        self.0.hit(format!("mutation:{:?}", o))
    }
}

/// An output whose `combine` is NOT associative: it records the shape of the fold. The default is the empty
/// shape and combines as the identity, so only the association of actual callback results shows.
#[derive(Clone, Debug, PartialEq)]
pub enum Tree {
    Leaf(String),
    Pair(Box<Tree>, Box<Tree>),
}
#[derive(Clone, Debug, PartialEq, Default)]
pub struct Shape(pub Option<Tree>);
impl Combine for Shape {
    fn combine(self, other: Self) -> Self {
        match (self.0, other.0) {
            (None, x) => Shape(x),
            (x, None) => Shape(x),
            (Some(a), Some(b)) => Shape(Some(Tree::Pair(Box::new(a), Box::new(b)))),
        }
    }
}
impl Tree {
    fn text(&self, out: &mut String, budget: &mut usize) {
        if *budget == 0 {
            return;
        }
        match self {
            Tree::Leaf(s) => {
                *budget -= 1;
                out.push_str(s)
            }
            Tree::Pair(a, b) => {
                out.push('(');
                a.text(out, budget);
                out.push(' ');
                b.text(out, budget);
                out.push(')');
            }
        }
    }
}
pub struct ShapeRecorder;
impl Visit for ShapeRecorder {
    type Output = Shape;
    type Error = Injected;
}
fn sleaf(t: String) -> Result<Shape, Injected> {
    Ok(Shape(Some(Tree::Leaf(t))))
}
impl VisitExpr for ShapeRecorder {
    fn visit_poetic_number_literal_elem(&mut self, p: &PoeticNumberLiteralElem) -> visit::Result<Self> {
        sleaf(match p {
            PoeticNumberLiteralElem::Word(w) => format!("poetic:word:{}", w),
            PoeticNumberLiteralElem::WordSuffix(w) => format!("poetic:suffix:{}", w),
            PoeticNumberLiteralElem::Dot => "poetic:dot".to_string(),
        })
    }
    fn visit_binary_operator(&mut self, o: BinaryOperator) -> visit::Result<Self> {
        sleaf(format!("op:{:?}", o))
    }
    fn visit_unary_operator(&mut self, o: UnaryOperator) -> visit::Result<Self> {
        sleaf(format!("un:{:?}", o))
    }
    fn visit_literal_expression(&mut self, e: &WithRange<LiteralExpression>) -> visit::Result<Self> {
        sleaf(lit_text(&e.0))
    }
    fn visit_pronoun(&mut self, _: SourceRange) -> visit::Result<Self> {
        sleaf("pronoun".to_string())
    }
    fn visit_simple_identifier(&mut self, n: WithRange<&SimpleIdentifier>) -> visit::Result<Self> {
        sleaf(format!("simple:{}", (n.0).0))
    }
    fn visit_common_identifier(&mut self, n: WithRange<&CommonIdentifier>) -> visit::Result<Self> {
        sleaf(format!("common:{} {}", (n.0).0, (n.0).1))
    }
    fn visit_proper_identifier(&mut self, n: WithRange<&ProperIdentifier>) -> visit::Result<Self> {
        sleaf(format!("proper:{}", (n.0).0.join(" ")))
    }
}

/// does the pattern produce any event at all (the same for every alternative)
fn pat_is_empty(p: &Pat) -> bool {
    match p {
        Pat::Leaf(_) => false,
        Pat::Seq(ps) => ps.iter().all(pat_is_empty),
        Pat::Alt(ps) => ps.first().map_or(true, pat_is_empty),
    }
}

/// Is `tree` the left-to-right fold of the pattern: a node's result is ((c1 . c2) . c3) ... over the results of its
/// children that returned anything, each child's result being the fold of that child.
fn shape_matches(p: &Pat, tree: &Tree) -> bool {
    match p {
        Pat::Leaf(s) => matches!(tree, Tree::Leaf(t) if t == s),
        Pat::Alt(ps) => ps.iter().any(|q| shape_matches(q, tree)),
        Pat::Seq(ps) => {
            let kids: Vec<&Pat> = ps.iter().filter(|q| !pat_is_empty(q)).collect();
            seq_matches(&kids, tree)
        }
    }
}
fn seq_matches(kids: &[&Pat], tree: &Tree) -> bool {
    match kids.len() {
        0 => false,
        1 => shape_matches(kids[0], tree),
        n => match tree {
            Tree::Pair(l, r) => shape_matches(kids[n - 1], r) && seq_matches(&kids[..n - 1], l),
            Tree::Leaf(_) => false,
        },
    }
}

// ------------------------------------------------------------------------- model traversal

#[derive(Clone, Debug)]
pub enum Pat {
    Leaf(String),
    Seq(Vec<Pat>),
    /// alternatives (field order vs source order where they differ)
    Alt(Vec<Pat>),
}

#[derive(Clone, Copy, Debug, PartialEq, Eq)]
pub enum NK {
    None,
    Expr,
    Prim,
    Bin,
    Un,
    Sub,
    Call,
    List,
    Lhs,
    Rhs,
    PoeticRhs,
    PoeticLit,
    PushRhs,
    PopExpr,
    Ident,
    VarName,
}

fn node(k: NK) -> Pat {
    Pat::Leaf(format!("node:{:?}", k))
}

struct T {
    probe: NK,
}

impl T {
    fn name(&self, n: &m::Name) -> Pat {
        if self.probe == NK::VarName {
            return node(NK::VarName);
        }
        Pat::Leaf(match n {
            m::Name::Simple(s) => format!("simple:{}", s),
            m::Name::Common(p, w) => format!("common:{} {}", p, w),
            m::Name::Proper(ws) => format!("proper:{}", ws.join(" ")),
        })
    }
    fn ident(&self, i: &m::Ident) -> Pat {
        if self.probe == NK::Ident {
            return node(NK::Ident);
        }
        match i {
            m::Ident::Name(n) => self.name(n),
            m::Ident::Pronoun => Pat::Leaf("pronoun".into()),
        }
    }
    fn lit(&self, l: &m::Lit) -> Pat {
        Pat::Leaf(match l {
            m::Lit::Mysterious => "lit:mysterious".into(),
            m::Lit::Null => "lit:null".into(),
            m::Lit::Bool(b) => format!("lit:{}", b),
            m::Lit::Num(n) => format!("lit:#{:016x}", n.to_bits()),
            m::Lit::Str(s) => format!("lit:{:?}", s),
        })
    }
    fn sub(&self, a: &m::Prim, s: &m::Prim) -> Pat {
        if self.probe == NK::Sub {
            return node(NK::Sub);
        }
        Pat::Seq(vec![self.prim(a), self.prim(s)])
    }
    fn call(&self, n: &m::Name, args: &[m::Expr]) -> Pat {
        if self.probe == NK::Call {
            return node(NK::Call);
        }
        let mut v = vec![self.name(n)];
        v.extend(args.iter().map(|a| self.expr(a)));
        Pat::Seq(v)
    }
    fn pop_expr(&self, a: &m::Prim) -> Pat {
        if self.probe == NK::PopExpr {
            return node(NK::PopExpr);
        }
        self.prim(a)
    }
    fn prim(&self, p: &m::Prim) -> Pat {
        if self.probe == NK::Prim {
            return node(NK::Prim);
        }
        match p {
            m::Prim::Lit(l) => self.lit(l),
            m::Prim::Ident(i) => self.ident(i),
            m::Prim::Sub(a, s) => self.sub(a, s),
            m::Prim::Call(n, args) => self.call(n, args),
            m::Prim::Pop(a) => self.pop_expr(a),
        }
    }
    fn list(&self, es: &[m::Expr]) -> Pat {
        if self.probe == NK::List {
            return node(NK::List);
        }
        Pat::Seq(es.iter().map(|e| self.expr(e)).collect())
    }
    fn expr(&self, e: &m::Expr) -> Pat {
        if self.probe == NK::Expr {
            return node(NK::Expr);
        }
        match e {
            m::Expr::Prim(p) => self.prim(p),
            m::Expr::Bin(op, l, r) => {
                if self.probe == NK::Bin {
                    return node(NK::Bin);
                }
                let o = Pat::Leaf(format!("op:{}", binop_name(*op)));
                let (l, r) = (self.expr(l), self.list(r));
                Pat::Alt(vec![Pat::Seq(vec![l.clone(), o.clone(), r.clone()]), Pat::Seq(vec![o, l, r])])
            }
            m::Expr::Un(op, x) => {
                if self.probe == NK::Un {
                    return node(NK::Un);
                }
                let o = Pat::Leaf(format!("un:{}", match op { m::UnOp::Minus => "Minus", m::UnOp::Not => "Not" }));
                Pat::Seq(vec![o, self.expr(x)])
            }
        }
    }
    fn lhs(&self, l: &m::Lhs) -> Pat {
        if self.probe == NK::Lhs {
            return node(NK::Lhs);
        }
        match l {
            m::Lhs::Ident(i) => self.ident(i),
            m::Lhs::Sub(a, s) => self.sub(a, s),
        }
    }
    fn poetic(&self, elems: &[m::PoeticElem]) -> Pat {
        if self.probe == NK::PoeticLit {
            return node(NK::PoeticLit);
        }
        Pat::Seq(
            elems
                .iter()
                .map(|e| {
                    Pat::Leaf(match e {
                        m::PoeticElem::Word(w) => format!("poetic:word:{}", w),
                        m::PoeticElem::Suffix(w) => format!("poetic:suffix:{}", w),
                        m::PoeticElem::Dot => "poetic:dot".into(),
                    })
                })
                .collect(),
        )
    }
    fn block(&self, ss: &[m::Stmt]) -> Pat {
        Pat::Seq(ss.iter().map(|s| self.stmt(s)).collect())
    }
    fn stmt(&self, s: &m::Stmt) -> Pat {
        match s {
            m::Stmt::Assign { dest, op, value } => {
                let d = self.lhs(dest);
                let rhs = if self.probe == NK::Rhs { node(NK::Rhs) } else { self.list(value) };
                match op {
                    None => Pat::Seq(vec![d, rhs]),
                    Some(o) => {
                        let o = Pat::Leaf(format!("op:{}", binop_name(*o)));
                        Pat::Alt(vec![Pat::Seq(vec![d.clone(), o.clone(), rhs.clone()]), Pat::Seq(vec![d, rhs, o])])
                    }
                }
            }
            m::Stmt::PoeticNum { dest, rhs } => {
                let r = if self.probe == NK::PoeticRhs {
                    node(NK::PoeticRhs)
                } else {
                    match rhs {
                        m::PoeticRhs::Expr(e) => self.expr(e),
                        m::PoeticRhs::Lit(l) => self.poetic(l),
                    }
                };
                Pat::Seq(vec![self.lhs(dest), r])
            }
            m::Stmt::PoeticStr { dest, .. } => self.lhs(dest),
            m::Stmt::If { cond, then, els } => {
                let mut v = vec![self.expr(cond), self.block(then)];
                if let Some(e) = els {
                    v.push(self.block(e));
                }
                Pat::Seq(v)
            }
            m::Stmt::While { cond, body } | m::Stmt::Until { cond, body } => Pat::Seq(vec![self.expr(cond), self.block(body)]),
            m::Stmt::Inc { dest, .. } | m::Stmt::Dec { dest, .. } => self.ident(dest),
            m::Stmt::Input { dest } => match dest {
                Some(d) => self.lhs(d),
                None => Pat::Seq(vec![]),
            },
            m::Stmt::Output { value } | m::Stmt::Return { value } => self.expr(value),
            m::Stmt::Mutation { operand, dest, param, .. } => {
                let mut v = vec![self.prim(operand)];
                if let Some(d) = dest {
                    v.push(self.lhs(d));
                }
                if let Some(p) = param {
                    v.push(self.expr(p));
                }
                Pat::Seq(v)
            }
            m::Stmt::Rounding { operand, .. } => self.expr(operand),
            m::Stmt::Continue | m::Stmt::Break => Pat::Seq(vec![]),
            m::Stmt::Push { array, value } => {
                let mut v = vec![self.prim(array)];
                if let Some(r) = value {
                    v.push(if self.probe == NK::PushRhs {
                        node(NK::PushRhs)
                    } else {
                        match r {
                            m::PushRhs::List(es) => self.list(es),
                            m::PushRhs::Poetic(l) => self.poetic(l),
                        }
                    });
                }
                Pat::Seq(v)
            }
            m::Stmt::Pop { array, dest } => {
                let mut v = vec![self.pop_expr(array)];
                if let Some(d) = dest {
                    v.push(self.lhs(d));
                }
                Pat::Seq(v)
            }
            m::Stmt::Function { name, params, body } => {
                // (grouped as the code folds it: name . (parameters . body))
                let ps = Pat::Seq(params.iter().map(|p| self.name(p)).collect());
                Pat::Seq(vec![self.name(name), Pat::Seq(vec![ps, self.block(body)])])
            }
            m::Stmt::Call { name, args } => self.call(name, args),
        }
    }
    fn program(&self, p: &m::Program) -> Pat {
        Pat::Seq(p.blocks.iter().map(|b| self.block(b)).collect())
    }
}

fn binop_name(o: m::BinOp) -> &'static str {
    match o {
        m::BinOp::Plus => "Plus",
        m::BinOp::Minus => "Minus",
        m::BinOp::Multiply => "Multiply",
        m::BinOp::Divide => "Divide",
        m::BinOp::And => "And",
        m::BinOp::Or => "Or",
        m::BinOp::Nor => "Nor",
        m::BinOp::Eq => "Eq",
        m::BinOp::NotEq => "NotEq",
        m::BinOp::Greater => "Greater",
        m::BinOp::GreaterEq => "GreaterEq",
        m::BinOp::Less => "Less",
        m::BinOp::LessEq => "LessEq",
    }
}

/// all positions at which `pat` can end when matched against log[pos..]
fn ends(pat: &Pat, log: &[String], pos: usize, out: &mut Vec<usize>) {
    match pat {
        Pat::Leaf(s) => {
            if log.get(pos) == Some(s) {
                out.push(pos + 1);
            }
        }
        Pat::Seq(ps) => {
            let mut cur = vec![pos];
            for p in ps {
                let mut next = Vec::new();
                for c in &cur {
                    ends(p, log, *c, &mut next);
                }
                next.sort_unstable();
                next.dedup();
                if next.is_empty() {
                    return;
                }
                cur = next;
            }
            out.extend(cur);
        }
        Pat::Alt(ps) => {
            for p in ps {
                ends(p, log, pos, out);
            }
        }
    }
}

fn matches(pat: &Pat, log: &[String]) -> bool {
    let mut out = Vec::new();
    ends(pat, log, 0, &mut out);
    out.contains(&log.len())
}

/// first canonical flattening (for diagnostics)
fn flatten(pat: &Pat, out: &mut Vec<String>) {
    match pat {
        Pat::Leaf(s) => out.push(s.clone()),
        Pat::Seq(ps) => ps.iter().for_each(|p| flatten(p, out)),
        Pat::Alt(ps) => flatten(&ps[0], out),
    }
}

fn first_mismatch(pat: &Pat, log: &[String]) -> String {
    let mut exp = Vec::new();
    flatten(pat, &mut exp);
    let k = exp.iter().zip(log.iter()).position(|(a, b)| a != b).unwrap_or(exp.len().min(log.len()));
    format!(
        "event #{}: expected {:?}, got {:?} (expected {} events, log has {}); context expected {:?} / got {:?}",
        k,
        exp.get(k),
        log.get(k),
        exp.len(),
        log.len(),
        &exp[k.saturating_sub(3)..(k + 3).min(exp.len())],
        &log[k.saturating_sub(3)..(k + 3).min(log.len())]
    )
}

macro_rules! walk_with {
    ($ty:ident, $prog:expr, $fail:expr) => {{
        let mut r = ExprVisitorRunner::with_inner($ty(Rec { log: Vec::new(), fail_at: $fail }));
        let res = r.visit_program($prog);
        let inner = r.inner();
        (res, inner.0.log)
    }};
}

fn walk(probe: NK, prog: &Program, fail: Option<usize>) -> (Result<Lst, Injected>, Vec<String>) {
    match probe {
        NK::None => walk_with!(LeafRecorder, prog, fail),
        NK::Expr => walk_with!(ProbeExpr, prog, fail),
        NK::Prim => walk_with!(ProbePrim, prog, fail),
        NK::Bin => walk_with!(ProbeBin, prog, fail),
        NK::Un => walk_with!(ProbeUn, prog, fail),
        NK::Sub => walk_with!(ProbeSub, prog, fail),
        NK::Call => walk_with!(ProbeCall, prog, fail),
        NK::List => walk_with!(ProbeList, prog, fail),
        NK::Lhs => walk_with!(ProbeLhs, prog, fail),
        NK::Rhs => walk_with!(ProbeRhs, prog, fail),
        NK::PoeticRhs => walk_with!(ProbePoeticRhs, prog, fail),
        NK::PoeticLit => walk_with!(ProbePoeticLit, prog, fail),
        NK::PushRhs => walk_with!(ProbePushRhs, prog, fail),
        NK::PopExpr => walk_with!(ProbePop, prog, fail),
        NK::Ident => walk_with!(ProbeIdent, prog, fail),
        NK::VarName => walk_with!(ProbeVarName, prog, fail),
    }
}

const PROBES: &[NK] = &[
    NK::None, NK::Expr, NK::Prim, NK::Bin, NK::Un, NK::Sub, NK::Call, NK::List, NK::Lhs, NK::Rhs, NK::PoeticRhs, NK::PoeticLit,
    NK::PushRhs, NK::PopExpr, NK::Ident, NK::VarName,
];

// ------------------------------------------------------------------------- statement level (default VisitProgram)

pub struct StmtRecorder(pub Rec);
impl Visit for StmtRecorder {
    type Output = Lst;
    type Error = Injected;
}
impl VisitProgram for StmtRecorder {
    fn visit_assignment(&mut self, _: &Assignment) -> visit::Result<Self> {
        self.0.hit("assignment".into())
    }
    fn visit_poetic_number_assignment(&mut self, _: &PoeticNumberAssignment) -> visit::Result<Self> {
        self.0.hit("poetic_number".into())
    }
    fn visit_poetic_string_assignment(&mut self, _: &PoeticStringAssignment) -> visit::Result<Self> {
        self.0.hit("poetic_string".into())
    }
    fn visit_inc(&mut self, _: &Inc) -> visit::Result<Self> {
        self.0.hit("inc".into())
    }
    fn visit_dec(&mut self, _: &Dec) -> visit::Result<Self> {
        self.0.hit("dec".into())
    }
    fn visit_input(&mut self, _: &Input) -> visit::Result<Self> {
        self.0.hit("input".into())
    }
    fn visit_output(&mut self, _: &Output) -> visit::Result<Self> {
        self.0.hit("output".into())
    }
    fn visit_continue(&mut self, _: &Continue) -> visit::Result<Self> {
        self.0.hit("continue".into())
    }
    fn visit_break(&mut self, _: &Break) -> visit::Result<Self> {
        self.0.hit("break".into())
    }
    fn visit_array_push(&mut self, _: &ArrayPush) -> visit::Result<Self> {
        self.0.hit("array_push".into())
    }
    fn visit_array_pop(&mut self, _: &ArrayPop) -> visit::Result<Self> {
        self.0.hit("array_pop".into())
    }
    fn visit_return(&mut self, _: &Return) -> visit::Result<Self> {
        self.0.hit("return".into())
    }
    fn visit_function_call_statement(&mut self, _: &FunctionCall) -> visit::Result<Self> {
        self.0.hit("call_statement".into())
    }
    fn visit_mutation_operator(&mut self, o: MutationOperator) -> visit::Result<Self> {
        self.0.hit(format!("mutation:{:?}", o))
    }
    fn visit_rounding_direction(&mut self, r: RoundingDirection) -> visit::Result<Self> {
        self.0.hit(format!("rounding:{:?}", r))
    }
}

fn stmt_pattern(ss: &[m::Stmt], out: &mut Vec<String>) {
    for s in ss {
        match s {
            m::Stmt::If { then, els, .. } => {
                stmt_pattern(then, out);
                if let Some(e) = els {
                    stmt_pattern(e, out);
                }
            }
            m::Stmt::While { body, .. } | m::Stmt::Until { body, .. } | m::Stmt::Function { body, .. } => stmt_pattern(body, out),
            m::Stmt::Mutation { op, .. } => out.push(format!("mutation:{}", match op { m::MutOp::Cut => "Cut", m::MutOp::Join => "Join", m::MutOp::Cast => "Cast" })),
            m::Stmt::Rounding { dir, .. } => out.push(format!("rounding:{}", match dir { m::RoundDir::Up => "Up", m::RoundDir::Down => "Down", m::RoundDir::Nearest => "Nearest" })),
            other => out.push(other.kind().to_string()),
        }
    }
}

// ------------------------------------------------------------------------- the check

pub fn check_tree(ctx: &mut Ctx, prog: &Program, src: &str, exhaustive_k: bool, rng: &mut crate::rng::Rng) {
    let model = conv::program(prog);
    let case = |probe: NK| Json::obj().with("src", Json::s(src)).with("probe", Json::s(format!("{:?}", probe)));
    for probe in PROBES {
        let pat = T { probe: *probe }.program(&model);
        ctx.eval();
        let walked = mon::guarded(|| walk(*probe, prog, None));
        let (res, log) = match walked {
            Ok(x) => x,
            Err(p) => {
                ctx.panic_outcome("walk", &p, case(*probe));
                return;
            }
        };
        ctx.add("events_compared", log.len() as u64);
        for e in &log {
            if let Some(k) = e.split(':').next() {
                ctx.seen("event_types", k);
            }
            if e.starts_with("node:") {
                ctx.seen("node_types_observed", e);
            }
        }
        if !matches(&pat, &log) {
            ctx.violation(
                &format!("traversal_differs:probe_{:?}", probe),
                &first_mismatch(&pat, &log),
                case(*probe),
            );
            return;
        }
        match &res {
            Ok(l) if l.0 == log => {}
            other => {
                ctx.violation(
                    &format!("fold_differs:probe_{:?}", probe),
                    &format!("folded result {:?} is not the concatenation of the {} callback results", other.as_ref().map(|l| l.0.len()), log.len()),
                    case(*probe),
                );
                return;
            }
        }
        ctx.count("walks_matched");
        // failure injection: at every k (leaf recorder) or at sampled k (probes)
        let n = log.len();
        let ks: Vec<usize> = if n == 0 {
            vec![]
        } else if *probe == NK::None && exhaustive_k {
            (1..=n).collect()
        } else {
            let mut v = vec![1, n];
            for _ in 0..2 {
                v.push(rng.range(1, n));
            }
            v.sort_unstable();
            v.dedup();
            v
        };
        for k in ks {
            ctx.eval();
            let (res, log2) = match mon::guarded(|| walk(*probe, prog, Some(k))) {
                Ok(x) => x,
                Err(p) => {
                    ctx.panic_outcome("walk", &p, case(*probe));
                    return;
                }
            };
            ctx.count("failure_injection_runs");
            if log2.len() != k || log2[..] != log[..k] {
                ctx.violation(
                    &format!("walk_continued_after_error:probe_{:?}", probe),
                    &format!("failure injected at callback {} of {}: {} callbacks were made", k, n, log2.len()),
                    case(*probe),
                );
                return;
            }
            if res != Err(Injected(k)) {
                ctx.violation(
                    &format!("injected_error_not_returned:probe_{:?}", probe),
                    &format!("failure injected at callback {}: the walk returned {:?}", k, res.map(|l| l.0.len())),
                    case(*probe),
                );
                return;
            }
        }
    }
    // partial visitors: the log of a visitor that overrides only some leaves is the leaf log filtered
    {
        let (_, full) = walk(NK::None, prog, None);
        let partial: [(&str, &[&str]); 3] =
            [("LitOnly", &["lit:"]), ("OpsOnly", &["poetic:", "op:", "un:"]), ("IdOnly", &["pronoun", "simple:", "common:", "proper:"])];
        for (which, prefixes) in partial.iter() {
            let want: Vec<String> = full.iter().filter(|e| prefixes.iter().any(|p| e.starts_with(p))).cloned().collect();
            let k = if want.is_empty() { None } else { Some(rng.range(1, want.len())) };
            for fail in [None, k] {
                ctx.eval();
                let walked = mon::guarded(|| match *which {
                    "LitOnly" => walk_with!(LitOnly, prog, fail),
                    "OpsOnly" => walk_with!(OpsOnly, prog, fail),
                    _ => walk_with!(IdOnly, prog, fail),
                });
                let (res, log) = match walked {
                    Ok(x) => x,
                    Err(p) => {
                        ctx.panic_outcome("walk", &p, case(NK::None).with("visitor", Json::s(*which)));
                        return;
                    }
                };
                ctx.add("events_compared", log.len() as u64);
                let ok = match fail {
                    None => log == want && res.as_ref().ok().map(|l| &l.0) == Some(&want),
                    Some(k) => log[..] == want[..k] && res == Err(Injected(k)),
                };
                if !ok {
                    ctx.violation(
                        &format!("partial_visitor_differs:{}", which),
                        &format!(
                            "a visitor overriding only {:?} (failure injected at {:?}) made {} callbacks and returned {:?}; the filtered leaf walk has {}",
                            prefixes, fail, log.len(), res.map(|l| l.0.len()), want.len()
                        ),
                        case(NK::None).with("visitor", Json::s(*which)),
                    );
                    return;
                }
                ctx.count("partial_visitor_walks_matched");
            }
        }
    }
    // "starting from the default": with an output whose default is a visible marker, the folded result of a
    // walk begins with that marker, and without the markers it is the sequence of callback results
    {
        let mut r = ExprVisitorRunner::with_inner(MarkedRecorder(Vec::new()));
        ctx.eval();
        let res = r.visit_program(prog);
        let log = r.inner().0;
        match res {
            Ok(Marked(v)) => {
                let stripped: Vec<&String> = v.iter().filter(|e| *e != "D").collect();
                if v.first().map(|e| e.as_str()) != Some("D") || stripped != log.iter().collect::<Vec<_>>() {
                    ctx.violation(
                        "fold_does_not_start_from_default",
                        &format!("with a marker as default value the walk returned {:?}; callbacks returned {:?}", &v[..v.len().min(12)], &log[..log.len().min(12)]),
                        case(NK::None).with("visitor", Json::s("MarkedRecorder")),
                    );
                    return;
                }
                ctx.count("marked_default_walks_matched");
            }
            Err(_) => {
                ctx.violation("fold_differs:marked", "a walk without injected failure returned an error", case(NK::None));
                return;
            }
        }
    }
    // "folds the results left to right": with a combine that is not associative the result shows how it was folded
    {
        let pat = T { probe: NK::None }.program(&model);
        let mut r = ExprVisitorRunner::with_inner(ShapeRecorder);
        ctx.eval();
        match r.visit_program(prog) {
            Ok(Shape(None)) => {
                if !pat_is_empty(&pat) {
                    ctx.violation("fold_shape_differs", "the walk returned the empty result for a tree with leaves", case(NK::None).with("visitor", Json::s("ShapeRecorder")));
                    return;
                }
            }
            Ok(Shape(Some(tree))) => {
                if !shape_matches(&pat, &tree) {
                    let mut t = String::new();
                    tree.text(&mut t, &mut 60);
                    ctx.violation(
                        "fold_shape_differs",
                        &format!("with a non-associative combine the result is not the left-to-right fold of the children's results; result (cut): {}", t),
                        case(NK::None).with("visitor", Json::s("ShapeRecorder")),
                    );
                    return;
                }
                ctx.count("fold_shapes_matched");
            }
            Err(_) => {
                ctx.violation("fold_differs:shape", "a walk without injected failure returned an error", case(NK::None));
                return;
            }
        }
    }
    // statement level: the default VisitProgram traversal
    let mut want = Vec::new();
    for b in &model.blocks {
        stmt_pattern(b, &mut want);
    }
    let mut sr = StmtRecorder(Rec::default());
    let res = sr.visit_program(prog);
    ctx.eval();
    ctx.add("events_compared", sr.0.log.len() as u64);
    if sr.0.log != want || res.as_ref().ok().map(|l| &l.0) != Some(&want) {
        let k = want.iter().zip(sr.0.log.iter()).position(|(a, b)| a != b).unwrap_or(want.len().min(sr.0.log.len()));
        ctx.violation(
            "statement_traversal_differs",
            &format!("statement #{}: expected {:?}, got {:?} ({} vs {} statements)", k, want.get(k), sr.0.log.get(k), want.len(), sr.0.log.len()),
            case(NK::None),
        );
        return;
    }
    if !want.is_empty() {
        let k = rng.range(1, want.len());
        let mut sr = StmtRecorder(Rec { log: vec![], fail_at: Some(k) });
        let res = sr.visit_program(prog);
        ctx.count("failure_injection_runs");
        if sr.0.log.len() != k || res != Err(Injected(k)) {
            ctx.violation(
                "statement_walk_continued_after_error",
                &format!("failure injected at statement {}: {} callbacks, result {:?}", k, sr.0.log.len(), res.map(|l| l.0.len())),
                case(NK::None),
            );
            return;
        }
    }
    {
        let part: Vec<String> = want.iter().filter(|e| *e == "output" || e.starts_with("mutation:")).cloned().collect();
        let mut v = OutputOnly(Rec::default());
        let res = v.visit_program(prog);
        ctx.eval();
        if v.0.log != part || res.as_ref().ok().map(|l| &l.0) != Some(&part) {
            ctx.violation(
                "partial_statement_visitor_differs",
                &format!("a statement visitor overriding only output/mutation made {} callbacks, result {:?}; expected {}", v.0.log.len(), res.map(|l| l.0.len()), part.len()),
                case(NK::None),
            );
            return;
        }
        ctx.count("partial_visitor_walks_matched");
    }
    ctx.count("trees");
    ctx.nontrivial(hash_str(src));
}

/// `combine_all` itself (public): default . r1 . r2 ... rn, left to right; the first error is returned
/// unchanged and nothing after it is evaluated.
fn check_combine_all(ctx: &mut Ctx, rng: &mut crate::rng::Rng) {
    let n = rng.range(0, 6);
    let fail = if n > 0 && rng.coin() { Some(rng.below(n)) } else { None };
    let pulled = std::cell::Cell::new(0usize);
    let items = (0..n).map(|i| {
        pulled.set(pulled.get() + 1);
        if Some(i) == fail {
            Err(Injected(i))
        } else {
            Ok(Marked(vec![format!("r{}", i)]))
        }
    });
    ctx.eval();
    let got: Result<Marked, Injected> = visit::combine_all(items);
    let want: Result<Marked, Injected> = match fail {
        Some(k) => Err(Injected(k)),
        None => Ok(Marked(std::iter::once("D".to_string()).chain((0..n).map(|i| format!("r{}", i))).collect())),
    };
    let want_pulled = fail.map(|k| k + 1).unwrap_or(n);
    if got != want || pulled.get() != want_pulled {
        ctx.violation(
            "combine_all_differs",
            &format!("{} results, failure at {:?}: combine_all returned {:?} after evaluating {} of them; expected {:?} after {}", n, fail, got, pulled.get(), want, want_pulled),
            Json::obj().with("n", Json::Num(n as f64)).with("fail_at", Json::s(format!("{:?}", fail))),
        );
        return;
    }
    ctx.count("combine_all_calls_matched");
}

pub fn run(ctx: &mut Ctx) {
    ctx.cases("combine_all", 2_000, |ctx, rng, _| check_combine_all(ctx, rng));
    let n = ctx.size(8_000, 250_000);
    let exhaustive = true;
    ctx.cases("trees", n, |ctx, rng, _| {
        let tree = {
            let bd = *rng.pick(&[1usize, 2, 3]);
            let mut g = SynGen::new(rng);
            g.max_block_depth = bd;
            g.max_expr_depth = 4;
            g.program()
        };
        let text = match render(&tree, &Spelling::canonical(), rng) {
            Ok(r) => r.text,
            Err(_) => {
                ctx.count("generator_inexpressible");
                return;
            }
        };
        let prog = match mon::parse_quiet(&text) {
            Ok(p) => p,
            Err(_) => {
                ctx.count("base_program_did_not_parse");
                return;
            }
        };
        tree.for_each_stmt(&mut |s| ctx.seen("statement_kinds", s.kind()));
        if ctx.samples.len() < 2 && text.len() < 300 {
            let (_, log) = walk(NK::None, &prog, None);
            ctx.sample(Json::obj().with("src", Json::s(&text)).with("leaf_events", Json::Arr(log.iter().map(|e| Json::s(e)).collect())));
        }
        check_tree(ctx, &prog, &text, exhaustive, rng);
    });
    // the kitchen-sink program (every optional child present) and its children-absent variant
    ctx.cases("kitchen_sink", 1, |ctx, rng, _| {
        let sink = crate::props::c02::kitchen_sink();
        if let Ok(r) = render(&sink, &Spelling::canonical(), rng) {
            if let Ok(prog) = mon::parse_quiet(&r.text) {
                check_tree(ctx, &prog, &r.text, true, rng);
            }
        }
    });
}
