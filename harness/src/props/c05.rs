//! C05 — functions, scopes and pronouns: calls are by value and locals do not leak.

use crate::ctx::Ctx;
use crate::gen::{fresh_name_of_kind, Tail};
use crate::json::Json;
use crate::mast::*;
use crate::props::{exec_compare, Verdict};
use crate::refi::RefOutcome;
use crate::render::Spelling;
use crate::rng::{hash_str, Rng};
use crate::semgen::{echo_def, echo_name};

struct Func {
    name: Name,
    params: Vec<Name>,
    locals: Vec<Name>,
    recursive: bool,
}

struct G<'a> {
    rng: &'a mut Rng,
    used_keys: Vec<String>,
    globals: Vec<Name>,
    funcs: Vec<Func>,
    marker: u32,
    echo_id: u32,
}

impl<'a> G<'a> {
    fn fresh(&mut self) -> Name {
        loop {
            let k = self.rng.weighted(&[5, 3, 2]);
            let n = fresh_name_of_kind(self.rng, k, false);
            // proper names made of one-letter words or names equal to helper names are avoided
            let key = n.key();
            if self.used_keys.contains(&key) || key == "s:echo" || key == "s:ident" || key == "s:payload" {
                continue;
            }
            // distinct spellings must denote distinct variables across kinds too: keep keys unique
            self.used_keys.push(key);
            return n;
        }
    }

    fn mark(&mut self) -> f64 {
        self.marker += 1;
        self.marker as f64
    }

    fn lit(&mut self) -> Expr {
        match self.rng.below(5) {
            0 => strlit(*self.rng.pick(&["a", "bc", "", "x y"])),
            1 => Expr::Prim(Prim::Lit(Lit::Bool(self.rng.coin()))),
            2 => Expr::Prim(Prim::Lit(Lit::Null)),
            _ => num(self.rng.below(20) as f64),
        }
    }

    /// a value expression over the given readable names
    fn value(&mut self, readable: &[Name], depth: usize) -> Expr {
        if depth == 0 || self.rng.chance(1, 2) {
            if !readable.is_empty() && self.rng.chance(2, 3) {
                var(self.rng.pick(readable))
            } else {
                self.lit()
            }
        } else {
            let mut op = *self.rng.pick(&[BinOp::Plus, BinOp::Plus, BinOp::Minus, BinOp::Multiply]);
            let l = self.value(readable, depth - 1);
            let r = self.value(readable, 0);
            // no parentheses: the left operand of `times` must not be a sum
            if matches!(&l, Expr::Bin(o, _, _) if o.level() < op.level()) {
                op = BinOp::Plus;
            }
            bin(op, l, r)
        }
    }

    /// a unary-level argument, sometimes wrapped in an Echo witness
    fn arg(&mut self, readable: &[Name], last: bool) -> Expr {
        let base = if !readable.is_empty() && self.rng.coin() {
            var(self.rng.pick(readable))
        } else {
            self.lit()
        };
        if last && self.rng.chance(1, 3) {
            self.echo_id += 1;
            Expr::Prim(Prim::Call(echo_name(), vec![num(1000.0 + self.echo_id as f64), base]))
        } else {
            base
        }
    }

    fn call_of(&mut self, fi: usize, readable: &[Name], wrong_arity: bool) -> Prim {
        let np = self.funcs[fi].params.len();
        let n = if wrong_arity {
            if np > 1 && self.rng.coin() { np - 1 } else { np + 1 }
        } else {
            np
        };
        let name = self.funcs[fi].name.clone();
        let recursive = self.funcs[fi].recursive;
        let mut args = Vec::new();
        for i in 0..n {
            if recursive && i == 0 {
                args.push(num(self.rng.range(0, 6) as f64));
            } else {
                args.push(self.arg(readable, i + 1 == n));
            }
        }
        Prim::Call(name, args)
    }

    fn pronoun_snippet(&mut self, target: &Name, out: &mut Vec<Stmt>) {
        // a statement that names exactly one variable, followed by a pronoun use
        let t = target.clone();
        match self.rng.below(7) {
            0 => out.push(put(num(self.mark()), &t)),
            1 => out.push(Stmt::PoeticNum { dest: Lhs::Ident(Ident::Name(t.clone())), rhs: PoeticRhs::Expr(num(self.mark())) }),
            2 => {
                out.push(put(num(self.mark()), &t));
                out.push(Stmt::Inc { dest: Ident::Name(t.clone()), n: self.rng.range(1, 3) });
            }
            3 => {
                out.push(put(num(self.mark()), &t));
                out.push(say(var(&t)));
            }
            4 => out.push(Stmt::PoeticStr { dest: Lhs::Ident(Ident::Name(t.clone())), text: format!("text {}", self.mark()) }),
            5 => {
                out.push(put(num(self.mark()), &t));
                out.push(Stmt::Assign { dest: Lhs::Ident(Ident::Name(t.clone())), op: Some(BinOp::Plus), value: vec![num(1.0)] });
            }
            _ => {
                out.push(put(num(self.mark() + 0.5), &t));
                out.push(Stmt::Rounding { dir: RoundDir::Up, operand: var(&t) });
            }
        }
        let it = Ident::Pronoun;
        match self.rng.below(5) {
            0 | 1 => out.push(say(Expr::Prim(Prim::Ident(it)))),
            2 => {
                // pronoun write, then read through the name
                out.push(Stmt::Assign { dest: Lhs::Ident(it), op: None, value: vec![num(self.mark())] });
                out.push(say(var(&t)));
            }
            3 => {
                out.push(Stmt::Inc { dest: it, n: 1 });
                out.push(say(var(&t)));
            }
            _ => out.push(say(bin(BinOp::Plus, Expr::Prim(Prim::Ident(it)), num(1.0)))),
        }
    }

    fn body(&mut self, fi: usize) -> Vec<Stmt> {
        let params = self.funcs[fi].params.clone();
        let locals = self.funcs[fi].locals.clone();
        let globals = self.globals.clone();
        let mut readable: Vec<Name> = params.clone();
        readable.extend(globals.iter().cloned());
        let mut assigned_locals: Vec<Name> = Vec::new();
        let mut out = Vec::new();
        if self.rng.chance(1, 10) {
            // a function without a body: a call of it is still a call (it yields mysterious, and when it has
            // ended there is no pronoun referent)
            return out;
        }
        if self.rng.chance(1, 6) {
            // a pronoun before the body names anything: the variable the caller named last
            let it = Expr::Prim(Prim::Ident(Ident::Pronoun));
            out.push(match self.rng.below(3) {
                0 => say(it),
                1 => say(bin(BinOp::Plus, it, num(1.0))),
                _ => Stmt::If { cond: bin(BinOp::Eq, it, Expr::Prim(Prim::Lit(Lit::Null))), then: vec![say(strlit("nothing"))], els: None },
            });
        }
        let n = self.rng.range(1, 6);
        for _ in 0..n {
            let mut rd = readable.clone();
            rd.extend(assigned_locals.iter().cloned());
            match self.rng.below(12) {
                0 | 1 => out.push(say(self.value(&rd, 1))),
                2 | 3 if !locals.is_empty() => {
                    let l = self.rng.pick(&locals).clone();
                    out.push(put(self.value(&rd, 1), &l));
                    if !assigned_locals.iter().any(|x| x.key() == l.key()) {
                        assigned_locals.push(l);
                    }
                }
                4 => {
                    // assignment to an outer (global) name updates it
                    let g = self.rng.pick(&globals).clone();
                    out.push(put(self.value(&rd, 1), &g));
                }
                5 => {
                    let p = self.rng.pick(&params).clone();
                    out.push(put(self.value(&rd, 1), &p));
                }
                6 => {
                    // return from inside an if
                    let c = self.value(&rd, 1);
                    let v = self.value(&rd, 1);
                    let m = self.mark();
                    out.push(Stmt::If { cond: c, then: vec![say(num(m)), Stmt::Return { value: v }], els: None });
                }
                7 => {
                    // return / break from inside a loop (loop counter is a parameter-independent local)
                    if let Some(l) = locals.first().cloned() {
                        let limit = self.rng.range(1, 3) as f64;
                        out.push(put(num(0.0), &l));
                        if !assigned_locals.iter().any(|x| x.key() == l.key()) {
                            assigned_locals.push(l.clone());
                        }
                        let mut b = vec![Stmt::Inc { dest: Ident::Name(l.clone()), n: 1 }, say(var(&l))];
                        match self.rng.below(3) {
                            0 => {
                                let v = self.value(&rd, 0);
                                b.push(Stmt::If { cond: bin(BinOp::Eq, var(&l), num(limit)), then: vec![Stmt::Return { value: v }], els: None });
                            }
                            1 => b.push(Stmt::Return { value: var(&l) }),
                            _ => b.push(Stmt::If { cond: bin(BinOp::Eq, var(&l), num(limit)), then: vec![Stmt::Break], els: None }),
                        }
                        out.push(Stmt::While { cond: bin(BinOp::Less, var(&l), num(limit + 1.0)), body: b });
                    }
                }
                8 => {
                    // nested call to a later function (no cycles)
                    if fi + 1 < self.funcs.len() {
                        let callee = self.rng.range(fi + 1, self.funcs.len() - 1);
                        let c = self.call_of(callee, &rd, false);
                        out.push(say(Expr::Prim(c)));
                    }
                }
                9 => {
                    // block local inside the function
                    if let Some(l) = locals.last().cloned() {
                        if !assigned_locals.iter().any(|x| x.key() == l.key()) {
                            let m = self.mark();
                            if self.rng.coin() {
                                out.push(Stmt::If { cond: Expr::Prim(Prim::Lit(Lit::Bool(true))), then: vec![put(num(m), &l), say(var(&l))], els: None });
                            } else {
                                // in the else block of an if inside a loop (an if/else directly in a function body
                                // would have to be its last statement)
                                let m2 = self.mark();
                                let inner = Stmt::If { cond: Expr::Prim(Prim::Lit(Lit::Bool(false))), then: vec![say(num(m2))], els: Some(vec![put(num(m), &l), say(var(&l))]) };
                                out.push(Stmt::While { cond: Expr::Prim(Prim::Lit(Lit::Bool(true))), body: vec![inner, Stmt::Break] });
                            }
                        }
                    }
                }
                10 => {
                    let p = self.rng.pick(&params).clone();
                    self.pronoun_snippet(&p, &mut out);
                }
                _ => out.push(say(self.value(&rd, 2))),
            }
        }
        let mut rd = readable.clone();
        rd.extend(assigned_locals.iter().cloned());
        match self.rng.below(4) {
            0 => {}
            1 => {
                // if/else as the last statement of the body, returning from both branches
                let c = self.value(&rd, 1);
                let (a, b) = (self.value(&rd, 1), self.value(&rd, 1));
                out.push(Stmt::If { cond: c, then: vec![Stmt::Return { value: a }], els: Some(vec![Stmt::Return { value: b }]) });
            }
            _ => out.push(Stmt::Return { value: self.value(&rd, 2) }),
        }
        out
    }

    fn recursive_body(&mut self, fi: usize) -> Vec<Stmt> {
        // f takes N, Acc: counts N down through parameter reassignment only (no locals)
        let f = &self.funcs[fi];
        let (n, acc) = (f.params[0].clone(), f.params[1].clone());
        let name = f.name.clone();
        let g = self.rng.pick(&self.globals.clone()).clone();
        let mut v = vec![
            Stmt::If { cond: bin(BinOp::LessEq, var(&n), num(0.0)), then: vec![Stmt::Return { value: var(&acc) }], els: None },
            say(var(&n)),
        ];
        if self.rng.coin() {
            v.push(Stmt::Assign { dest: Lhs::Ident(Ident::Name(g.clone())), op: Some(BinOp::Plus), value: vec![num(1.0)] });
        }
        v.push(put(bin(BinOp::Minus, var(&n), num(1.0)), &n));
        v.push(put(bin(BinOp::Plus, var(&acc), num(2.0)), &acc));
        v.push(Stmt::Return { value: Expr::Prim(Prim::Call(name, vec![var(&n), var(&acc)])) });
        v
    }
}

pub fn program(rng: &mut Rng) -> (Program, &'static str) {
    let mut g = G { rng, used_keys: Vec::new(), globals: Vec::new(), funcs: Vec::new(), marker: 0, echo_id: 0 };
    let ng = g.rng.range(2, 3);
    for _ in 0..ng {
        let n = g.fresh();
        g.globals.push(n);
    }
    let nf = g.rng.range(1, 4);
    for i in 0..nf {
        let name = g.fresh();
        let recursive = i == nf - 1 && g.rng.chance(1, 3);
        let np = if recursive { 2 } else { g.rng.range(1, 4) };
        let mut params = Vec::new();
        for _ in 0..np {
            // sometimes a parameter shadows a global
            if !recursive && g.rng.chance(1, 5) {
                let gl = g.rng.pick(&g.globals.clone()).clone();
                if !params.iter().any(|p: &Name| p.key() == gl.key()) {
                    params.push(gl);
                    continue;
                }
            }
            let p = g.fresh();
            params.push(p);
        }
        let nl = if recursive { 0 } else { g.rng.range(1, 2) };
        let mut locals = Vec::new();
        for _ in 0..nl {
            let l = g.fresh();
            locals.push(l);
        }
        g.funcs.push(Func { name, params, locals, recursive });
    }
    let mut top: Vec<Stmt> = Vec::new();
    let globals = g.globals.clone();
    for gl in &globals {
        let m = g.mark();
        top.push(put(num(m * 100.0), gl));
    }
    top.push(echo_def());
    for fi in 0..g.funcs.len() {
        let body = if g.funcs[fi].recursive { g.recursive_body(fi) } else { g.body(fi) };
        top.push(Stmt::Function { name: g.funcs[fi].name.clone(), params: g.funcs[fi].params.clone(), body });
    }
    // main
    let n = g.rng.range(3, 9);
    let mut block_local: Option<Name> = None;
    for _ in 0..n {
        match g.rng.below(10) {
            0 | 1 | 2 => {
                let fi = g.rng.below(g.funcs.len());
                let c = g.call_of(fi, &globals, false);
                match g.rng.below(3) {
                    0 => top.push(say(Expr::Prim(c))),
                    1 => {
                        let t = g.rng.pick(&globals).clone();
                        top.push(put(Expr::Prim(c), &t));
                        top.push(say(var(&t)));
                    }
                    _ => {
                        if let Prim::Call(name, args) = c {
                            top.push(Stmt::Call { name, args });
                        }
                    }
                }
            }
            3 => {
                for gl in &globals {
                    top.push(say(var(gl)));
                }
            }
            4 | 5 => {
                let t = g.rng.pick(&globals).clone();
                g.pronoun_snippet(&t, &mut top);
            }
            6 => {
                // a block local in main
                let l = g.fresh();
                let m = g.mark();
                let t = g.rng.pick(&globals).clone();
                let body = vec![put(num(m), &l), say(var(&l)), put(var(&l), &t)];
                let k = g.rng.below(3);
                if k == 0 {
                    top.push(Stmt::If { cond: Expr::Prim(Prim::Lit(Lit::Bool(true))), then: body, els: None });
                } else if k == 1 {
                    // the local lives in the ELSE block
                    let m2 = g.mark();
                    top.push(Stmt::If { cond: Expr::Prim(Prim::Lit(Lit::Bool(false))), then: vec![say(num(m2))], els: Some(body) });
                } else {
                    top.push(Stmt::Until { cond: bin(BinOp::Eq, var(&t), num(m)), body });
                }
                block_local = Some(l);
            }
            8 => {
                // a loop that runs several times: names first assigned in the body are fresh in
                // every iteration (a stale read in a later iteration is an unknown name)
                let counter = g.fresh();
                let fresh = g.fresh();
                let stale = g.fresh();
                let times = g.rng.range(2, 4) as f64;
                top.push(put(num(0.0), &counter));
                let mut body = vec![
                    Stmt::Inc { dest: Ident::Name(counter.clone()), n: 1 },
                    Stmt::Push { array: pvar(&fresh), value: Some(PushRhs::List(vec![var(&counter)])) },
                    say(var(&fresh)),
                ];
                if g.rng.chance(1, 3) {
                    body.push(Stmt::If { cond: bin(BinOp::Eq, var(&counter), num(2.0)), then: vec![say(var(&stale))], els: None });
                }
                body.push(put(var(&counter), &stale));
                top.push(Stmt::While { cond: bin(BinOp::Less, var(&counter), num(times)), body });
            }
            7 => {
                // sum of two calls: evaluation order through Echo witnesses
                let (fa, fb) = (g.rng.below(g.funcs.len()), g.rng.below(g.funcs.len()));
                let a = g.call_of(fa, &globals, false);
                let b = g.call_of(fb, &globals, false);
                // a call swallows a following `and`/`,`; plus is fine
                top.push(say(bin(BinOp::Plus, Expr::Prim(a), Expr::Prim(b))));
            }
            _ => {
                let t = g.rng.pick(&globals).clone();
                let v = g.value(&globals, 2);
                top.push(put(v, &t));
            }
        }
    }
    // terminal probe
    let probe: &'static str = match g.rng.below(10) {
        0 => {
            // a function's local after the call
            let fi = g.rng.below(g.funcs.len());
            if let Some(l) = g.funcs[fi].locals.first().cloned() {
                top.push(say(var(&l)));
                "leak_probe_function_local"
            } else {
                "none"
            }
        }
        1 => {
            let fi = g.rng.below(g.funcs.len());
            let p = g.funcs[fi].params.iter().find(|p| !globals.iter().any(|gl| gl.key() == p.key())).cloned();
            if let Some(p) = p {
                top.push(say(var(&p)));
                "leak_probe_parameter"
            } else {
                "none"
            }
        }
        2 => {
            if let Some(l) = block_local {
                top.push(say(var(&l)));
                "leak_probe_block_local"
            } else {
                "none"
            }
        }
        3 => {
            // pronoun right after a call ended
            let fi = g.rng.below(g.funcs.len());
            if let Prim::Call(name, args) = g.call_of(fi, &[], false) {
                top.push(Stmt::Call { name, args });
            }
            top.push(say(Expr::Prim(Prim::Ident(Ident::Pronoun))));
            "pronoun_probe_after_call"
        }
        4 => {
            let t = g.rng.pick(&globals).clone();
            match g.rng.below(3) {
                0 => top.push(Stmt::If { cond: Expr::Prim(Prim::Lit(Lit::Bool(true))), then: vec![say(var(&t))], els: None }),
                1 => top.push(Stmt::If { cond: Expr::Prim(Prim::Lit(Lit::Bool(false))), then: vec![say(num(0.0))], els: Some(vec![say(var(&t))]) }),
                _ => {
                    // an if whose branch is not taken is a block that has ended, too
                    top.push(say(var(&t)));
                    top.push(Stmt::If { cond: Expr::Prim(Prim::Lit(Lit::Bool(false))), then: vec![say(num(0.0))], els: None });
                }
            }
            top.push(say(Expr::Prim(Prim::Ident(Ident::Pronoun))));
            "pronoun_probe_after_block"
        }
        5 => {
            let fi = g.rng.below(g.funcs.len());
            let c = g.call_of(fi, &globals, true);
            top.push(say(Expr::Prim(c)));
            "wrong_arity"
        }
        6 => {
            let t = g.rng.pick(&globals).clone();
            top.push(say(Expr::Prim(Prim::Call(t, vec![num(1.0)]))));
            "call_of_variable"
        }
        7 => {
            let u = g.fresh();
            if g.rng.coin() {
                top.push(say(var(&u)));
                "read_unknown_name"
            } else {
                top.push(say(Expr::Prim(Prim::Call(u, vec![num(1.0)]))));
                "call_unknown_function"
            }
        }
        _ => "none",
    };
    let m = g.mark();
    top.push(say(num(m)));
    let _ = Tail::Free;
    (Program::single(top), probe)
}

/// Programs in which functions, parameters, globals and function-local names all come from one pool of
/// four names, so that every kind of shadowing happens: a parameter named like a global function (calling
/// it is a call of a non-function), a nested definition hiding a global function of another arity, a
/// parameter hiding a global variable, the hidden thing being visible again after the call.
pub fn collision_program(rng: &mut Rng) -> Program {
    const POOL: &[&str] = &["Alpha", "Bravo", "Carol", "Delta"];
    /// arity of the global function of that name (0 = a global variable)
    struct G {
        arity: [usize; 4],
    }
    fn pick(rng: &mut Rng) -> usize {
        rng.below(4)
    }
    fn nm(i: usize) -> Name {
        simple(POOL[i])
    }
    fn arg(g: &G, rng: &mut Rng, depth: usize) -> Expr {
        match rng.below(if depth == 0 { 5 } else if depth >= 2 { 3 } else { 4 }) {
            0 | 1 => num(rng.range(1, 9) as f64),
            2 => var(&nm(pick(rng))),
            _ => Expr::Prim(call(g, rng, depth + 1)),
        }
    }
    fn call(g: &G, rng: &mut Rng, depth: usize) -> Prim {
        let i = pick(rng);
        // mostly the arity of the global function of that name (what a shadowing parameter or a nested
        // definition then turns into a non-function call or an arity error)
        let n = if g.arity[i] > 0 && !rng.chance(1, 6) { g.arity[i] } else { rng.range(1, 2) };
        // (a call swallows a following `,`: only the last argument may itself be a call)
        Prim::Call(nm(i), (0..n).map(|k| arg(g, rng, if k + 1 == n { depth } else { 9 })).collect())
    }
    fn body(g: &G, rng: &mut Rng, nest: usize) -> Vec<Stmt> {
        let mut ss = Vec::new();
        for _ in 0..rng.range(0, 3) {
            match rng.below(7) {
                0 | 1 => ss.push(say(var(&nm(pick(rng))))),
                2 => ss.push(say(Expr::Prim(call(g, rng, 1)))),
                3 => {
                    let t = nm(pick(rng));
                    ss.push(put(arg(g, rng, 1), &t));
                }
                4 if nest < 2 => {
                    let name = pick(rng);
                    ss.push(def(g, rng, name, nest + 1));
                }
                4 => ss.push(say(num(0.0))),
                5 => ss.push(Stmt::Inc { dest: Ident::Name(nm(pick(rng))), n: 1 }),
                _ => {
                    if let Prim::Call(name, args) = call(g, rng, 1) {
                        ss.push(Stmt::Call { name, args });
                    }
                }
            }
        }
        ss.push(Stmt::Return { value: bin(BinOp::Plus, arg(g, rng, 1), num(rng.range(10, 90) as f64)) });
        ss
    }
    fn def(g: &G, rng: &mut Rng, name: usize, nest: usize) -> Stmt {
        let mut params = vec![nm(pick(rng))];
        let want = if nest == 0 { g.arity[name].max(1) } else { rng.range(1, 2) };
        while params.len() < want {
            let q = nm(pick(rng));
            if !params.contains(&q) {
                params.push(q);
            }
        }
        Stmt::Function { name: nm(name), params, body: body(g, rng, nest) }
    }
    let nfuncs = rng.range(1, 3);
    let mut g = G { arity: [0; 4] };
    let mut order = [0usize, 1, 2, 3];
    for i in (1..4).rev() {
        order.swap(i, rng.below(i + 1));
    }
    for k in 0..nfuncs {
        g.arity[order[k]] = rng.range(1, 2);
    }
    let mut top = Vec::new();
    // globals first (so that function bodies can see them), then the functions, in pool order
    for k in nfuncs..4 {
        if !rng.chance(1, 5) {
            top.push(put(num((k * 100 + rng.range(1, 9)) as f64), &nm(order[k])));
        }
    }
    for k in 0..nfuncs {
        top.push(def(&g, rng, order[k], 0));
    }
    for _ in 0..rng.range(2, 6) {
        match rng.below(6) {
            0 => {
                let t = nm(order[rng.range(nfuncs.min(3), 3)]);
                top.push(put(num(rng.range(1, 9) as f64), &t));
            }
            1 => top.push(say(var(&nm(order[rng.range(nfuncs.min(3), 3)])))),
            _ => {
                // a call of one of the functions with the right number of arguments
                let f = order[rng.below(nfuncs)];
                let n = g.arity[f];
                let args = (0..n).map(|k| arg(&g, rng, if k + 1 == n { 0 } else { 9 })).collect();
                top.push(say(Expr::Prim(Prim::Call(nm(f), args))));
            }
        }
    }
    top.push(say(num(99.0)));
    Program::single(top)
}

pub fn run(ctx: &mut Ctx) {
    ctx.log_events = true;
    if ctx.miri {
        ctx.cases("miri", ctx.nshards as u64 * 2, |ctx, rng, _| {
            let (tree, _) = program(rng);
            exec_compare(ctx, "scope", &tree, b"", &Spelling::canonical(), rng);
        });
        return;
    }
    let n = ctx.size(30_000, 1_000_000);
    ctx.cases("name_collisions", n, |ctx, rng, _| {
        let tree = collision_program(rng);
        let c = exec_compare(ctx, "collision", &tree, b"", &Spelling::canonical(), rng);
        ctx.count("programs.name_collisions");
        if let (Some(m), Verdict::Agree) = (&c.model, &c.verdict) {
            ctx.count("name_collision_programs_decided");
            if let RefOutcome::Error(k) = &m.outcome {
                ctx.count(&format!("name_collision_error.{}", k));
            }
            if m.stats.get("calls").copied().unwrap_or(0) >= 1 {
                ctx.nontrivial(hash_str(&c.text));
            }
        }
    });
    let n = ctx.size(60_000, 2_000_000);
    ctx.cases("programs", n, |ctx, rng, _| {
        let (tree, probe) = program(rng);
        let sp = if rng.chance(1, 2) { Spelling::canonical() } else { Spelling::mild(rng) };
        let c = exec_compare(ctx, "scope", &tree, b"", &sp, rng);
        ctx.count("programs");
        if let Some(m) = &c.model {
            if let Verdict::Agree = c.verdict {
                for k in ["calls", "returns", "returns_through_loop", "returns_through_if", "pronoun_uses", "pronoun_uses_without_referent"] {
                    ctx.add(&format!("model.{}", k), m.stats.get(k).copied().unwrap_or(0));
                }
                ctx.max("max_recursion_depth", m.max_call_depth as u64);
                if m.stats.get("calls").copied().unwrap_or(0) >= 1 {
                    ctx.nontrivial(hash_str(&c.text));
                }
                // did the terminal probe decide the run?
                let reached_probe = match &m.outcome {
                    RefOutcome::Error(k) => {
                        ctx.seen("model_error_kinds", k);
                        true
                    }
                    _ => false,
                };
                if probe != "none" && reached_probe {
                    ctx.count(&format!("probe.{}", probe));
                }
                if ctx.samples.len() < 3 && c.text.len() < 1200 && m.stats.get("calls").copied().unwrap_or(0) >= 2 {
                    ctx.sample(
                        Json::obj()
                            .with("src", Json::s(&c.text))
                            .with("stdout", Json::s(String::from_utf8_lossy(&c.rrss_out).replace('\n', " | ")))
                            .with("error", match &c.rrss_err { Some(e) => Json::s(e), None => Json::Null })
                            .with("probe", Json::s(probe)),
                    );
                }
            }
        }
    });
}
