//! Minimal JSON value + writer (no external crates). Only what the worker needs to emit.

use std::collections::BTreeMap;
use std::fmt::Write;

#[derive(Clone, Debug, PartialEq)]
pub enum Json {
    Null,
    Bool(bool),
    Int(i64),
    UInt(u64),
    Num(f64),
    Str(String),
    Arr(Vec<Json>),
    Obj(BTreeMap<String, Json>),
}

impl Json {
    pub fn obj() -> Json {
        Json::Obj(BTreeMap::new())
    }
    pub fn arr() -> Json {
        Json::Arr(Vec::new())
    }
    pub fn s(x: impl Into<String>) -> Json {
        Json::Str(x.into())
    }
    pub fn u(x: u64) -> Json {
        Json::UInt(x)
    }
    pub fn set(&mut self, k: &str, v: Json) -> &mut Json {
        if let Json::Obj(m) = self {
            m.insert(k.to_string(), v);
        }
        self
    }
    pub fn with(mut self, k: &str, v: Json) -> Json {
        self.set(k, v);
        self
    }
    pub fn push(&mut self, v: Json) {
        if let Json::Arr(a) = self {
            a.push(v);
        }
    }

    pub fn write(&self, out: &mut String) {
        match self {
            Json::Null => out.push_str("null"),
            Json::Bool(b) => out.push_str(if *b { "true" } else { "false" }),
            Json::Int(i) => {
                let _ = write!(out, "{}", i);
            }
            Json::UInt(u) => {
                let _ = write!(out, "{}", u);
            }
            Json::Num(f) => {
                if f.is_finite() {
                    let _ = write!(out, "{}", f);
                } else {
                    // JSON has no inf/NaN
                    let _ = write!(out, "\"{}\"", f);
                }
            }
            Json::Str(s) => write_str(s, out),
            Json::Arr(a) => {
                out.push('[');
                for (i, x) in a.iter().enumerate() {
                    if i > 0 {
                        out.push(',');
                    }
                    x.write(out);
                }
                out.push(']');
            }
            Json::Obj(m) => {
                out.push('{');
                for (i, (k, v)) in m.iter().enumerate() {
                    if i > 0 {
                        out.push(',');
                    }
                    write_str(k, out);
                    out.push(':');
                    v.write(out);
                }
                out.push('}');
            }
        }
    }

    pub fn to_text(&self) -> String {
        let mut s = String::new();
        self.write(&mut s);
        s
    }
}

pub fn write_str(s: &str, out: &mut String) {
    out.push('"');
    for c in s.chars() {
        match c {
            '"' => out.push_str("\\\""),
            '\\' => out.push_str("\\\\"),
            '\n' => out.push_str("\\n"),
            '\r' => out.push_str("\\r"),
            '\t' => out.push_str("\\t"),
            c if (c as u32) < 0x20 => {
                let _ = write!(out, "\\u{:04x}", c as u32);
            }
            c => out.push(c),
        }
    }
    out.push('"');
}

impl From<&str> for Json {
    fn from(s: &str) -> Self {
        Json::Str(s.to_string())
    }
}
impl From<String> for Json {
    fn from(s: String) -> Self {
        Json::Str(s)
    }
}
impl From<u64> for Json {
    fn from(u: u64) -> Self {
        Json::UInt(u)
    }
}
impl From<usize> for Json {
    fn from(u: usize) -> Self {
        Json::UInt(u as u64)
    }
}
impl From<bool> for Json {
    fn from(b: bool) -> Self {
        Json::Bool(b)
    }
}
