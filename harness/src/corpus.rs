//! Shared hostile text workloads: token soup over lexical atoms, token-level mutations,
//! truncations, deep nesting shapes.

use crate::gen;
use crate::kw;
use crate::rng::Rng;

const IDENT_LIKE: &[&str] = &[
    "x", "X", "foo", "Tom", "Sawyer", "élan", "Ünï", "жук", "日本", "λx", "abc1", "a1b", "1abc", "x_y",
    "_x", "x_", "a_1", "ab12cd", "q9", "don't", "rock'n'roll", "it's", "they're", "x's", "Y're", "o'",
    "'bout", "n", "s", "re", "K's", "İ're", "ẞ's", "Ω's", "K'", "aKa's", "Éa", "ÉLAN's", "é's",
    // suffixes next to what ends or spoils a word
    "Tommy's'", "x's''", "they're'", "Tommy2's", "a_b're", "x😀's", "ab1's", "x's's", "x're's", "x''s",
];
const NUMBERS: &[&str] = &[
    "0", "1", "5", "42", "3.14", ".5", "5.", "1e3", "1E3", "1e", "1.2.3", "00", "0x10", "1e999", "٣", "½",
    "²", "12abc", "1..2", ".", "..", "1e+3", "1e-7", "0.0000001", "9007199254740993",
    // around the integer types a "fast path" might use
    "4294967295", "4294967296", "9223372036854775807", "9223372036854775808", "18446744073709551615", "18446744073709551616",
    "99999999999999999999", "100000000000000000000", "340282366920938463463374607431768211456", "0.1e-400", "1e-999",
    // a literal glued to an apostrophe and non-ASCII letters
    "5'ü", "5'sé", "5'ré", "5's", "5'S", "5'RE", "\"s\"'été", "\"s\"'sé", "(c)'rêve", "(c)'é", "5'",
];
const PUNCT: &[&str] = &[
    "!", "#", "$", "%", "&", "*", "+", ",", "-", ".", "/", ":", ";", "<", "<=", "=", ">", ">=", "?", "@", "[",
    "\\", "]", "^", "`", "{", "|", "}", "~", "_", "'", "''", "'n'", "'s", "'re", "'S", "'N'", "\"", "(", ")",
    "()", "\"\"",
];
const SPACE: &[&str] = &[
    " ", " ", " ", "  ", "\t", "\n", "\n", "\n\n", "\r\n", "\r", "\u{a0}", "\u{2003}", "\u{feff}", "\u{b}",
];
const EXOTIC: &[&str] = &["🎸", "\u{0}", "\u{7f}", "\u{1b}[0m", "\u{200d}", "e\u{301}", "ß", "İ", "ſ", "K"];

pub fn atom(rng: &mut Rng) -> String {
    match rng.weighted(&[30, 14, 8, 14, 16, 3, 6, 5]) {
        0 => {
            let all = kw::all_words();
            let w = rng.pick(all).to_string();
            gen::random_case_word(rng, &w)
        }
        1 => rng.pick(IDENT_LIKE).to_string(),
        2 => rng.pick(NUMBERS).to_string(),
        3 => rng.pick(PUNCT).to_string(),
        4 => rng.pick(SPACE).to_string(),
        5 => rng.pick(EXOTIC).to_string(),
        6 => {
            // string literal, maybe unbalanced / multi-line
            let inner = *rng.pick(&["", "a", "hello world", "multi\nline", "with (paren", "it's", "é"]);
            match rng.below(5) {
                0 => format!("\"{}", inner),
                _ => format!("\"{}\"", inner),
            }
        }
        _ => {
            let inner = *rng.pick(&["", "c", "a comment", "multi\nline", "with \"quote", "nested (", "é"]);
            match rng.below(5) {
                0 => format!("({}", inner),
                _ => format!("({})", inner),
            }
        }
    }
}

/// token soup of at most `max_bytes`
pub fn soup(rng: &mut Rng, max_bytes: usize) -> String {
    let n = rng.range(0, 60);
    let mut s = String::new();
    for _ in 0..n {
        let a = atom(rng);
        if s.len() + a.len() > max_bytes {
            break;
        }
        s.push_str(&a);
        // atoms are sometimes glued, mostly separated
        if rng.chance(3, 4) {
            s.push_str(rng.pstr(&[" ", " ", " ", "\n", "\t", ""]));
        }
    }
    s
}

/// soup biased towards multi-line tokens followed by suffixes on the same line (C12)
pub fn soup_multiline(rng: &mut Rng, max_bytes: usize) -> String {
    let n = rng.range(1, 25);
    let mut s = String::new();
    for _ in 0..n {
        let a = match rng.below(8) {
            0 => format!("\"a\nb\"{}", rng.pick(&["'s", "'re", "'S", " 's", "", "x", "5"])),
            1 => format!("(c\nd){}", rng.pick(&["'s", "'re", "", " ", "x", "\"s\"'s"])),
            2 => format!("\"é\n\n日\"{}", rng.pick(&["'s", "'re", ""])),
            3 => format!("{}{}", rng.pick(&["x", "5", "\"s\"", "(c)", "é", "1.5"]), rng.pick(&["'s", "'re", "'S", "'RE", "'", "''s"])),
            4 => rng.pick(&["\r\n", "\n", "\n\n", " \n"]).to_string(),
            _ => atom(rng),
        };
        if s.len() + a.len() > max_bytes {
            break;
        }
        s.push_str(&a);
        if rng.chance(2, 3) {
            s.push_str(rng.pstr(&[" ", " ", "\n", "\t", ""]));
        }
    }
    s
}

/// split a text into coarse "tokens" for mutation purposes (runs of non-space / single spaces)
fn pieces(text: &str) -> Vec<String> {
    let mut v = Vec::new();
    let mut cur = String::new();
    for c in text.chars() {
        if c.is_whitespace() {
            if !cur.is_empty() {
                v.push(std::mem::take(&mut cur));
            }
            v.push(c.to_string());
        } else {
            cur.push(c);
        }
    }
    if !cur.is_empty() {
        v.push(cur);
    }
    v
}

const HOT: &[&str] = &[
    "else", "at", "taking", ",", "says", "say", "is", "'s", "and", "with", "into", "like", "-", ".", "\n",
    "\n\n", "takes", "it", "roll", "rock", "not", "\"", "(", "1x", "a_b", "if", "while", "give", "back",
];

/// token-level mutation of a (usually valid) program text
pub fn mutate(rng: &mut Rng, text: &str) -> String {
    let mut ps = pieces(text);
    let n = rng.range(1, 3);
    for _ in 0..n {
        if ps.is_empty() {
            ps.push(atom(rng));
            continue;
        }
        let i = rng.below(ps.len());
        match rng.below(6) {
            0 => {
                ps.remove(i);
            }
            1 => {
                let p = ps[i].clone();
                ps.insert(i, p);
            }
            2 => {
                let j = rng.below(ps.len());
                ps.swap(i, j);
            }
            3 => {
                ps.insert(i, format!("{} ", rng.pick(HOT)));
            }
            4 => {
                ps[i] = rng.pick(HOT).to_string();
            }
            _ => {
                ps.insert(i, atom(rng));
            }
        }
    }
    ps.concat()
}

/// every prefix of `text` that ends on a char boundary (optionally strided)
pub fn prefixes(text: &str, stride: usize) -> Vec<&str> {
    let mut v = Vec::new();
    let mut k = 0;
    for (i, _) in text.char_indices() {
        if k % stride.max(1) == 0 {
            v.push(&text[..i]);
        }
        k += 1;
    }
    v
}

/// deep nesting shapes at depth `d`
pub fn nesting(rng: &mut Rng, d: usize) -> String {
    match rng.below(9) {
        0 => format!("say {}1", "not ".repeat(d)),
        1 => format!("say {}1", "- ".repeat(d)),
        2 => {
            let mut s = String::from("say 1");
            for i in 0..d {
                s.push_str(*rng.pick(&[" plus ", " times ", " minus ", " over ", " + ", " * "]));
                s.push_str(&format!("{}", i % 7));
            }
            s
        }
        3 => {
            // nested blocks
            let mut s = String::new();
            for _ in 0..d {
                s.push_str(*rng.pick(&["if 1\n", "while 0\n", "until 1\n"]));
            }
            s.push_str("say 1\n");
            if rng.coin() {
                for _ in 0..d {
                    s.push('\n');
                }
            }
            s
        }
        4 => {
            // nested subscripts
            let mut s = String::from("say x");
            for _ in 0..d {
                s.push_str(" at y");
            }
            s
        }
        5 => {
            // comparison chain
            let mut s = String::from("say 1");
            for _ in 0..d {
                s.push_str(*rng.pick(&[" is 1", " is not 2", " isnt 3", " < 4", " is as big as 5"]));
            }
            s
        }
        6 => {
            // call with many arguments / nested calls
            let mut s = String::from("say f taking 1");
            for _ in 0..d {
                s.push_str(*rng.pick(&[", 2", " & 3", " 'n' 4", " and g taking 5", ", and 6"]));
            }
            s
        }
        7 => {
            // nested if/else ladder
            let mut s = String::new();
            for _ in 0..d {
                s.push_str("if 1\nsay 2\nelse\n");
            }
            s.push_str("say 3\n");
            s
        }
        _ => {
            // roll chains and logical chains
            let mut s = String::from("say ");
            for _ in 0..d {
                s.push_str(*rng.pick(&["roll ", "not ", "- "]));
            }
            s.push_str("x");
            for _ in 0..d {
                s.push_str(*rng.pick(&[" and y", " or z", " nor w"]));
            }
            s
        }
    }
}
